package c09

import (
	"fmt"
	"testing"

	"pgregory.net/rapid"

	"verif/ev"
)

var known = ev.Matcher[Case]{}

const rule = "exhaustive: directory shapes (files x 0..3 statements per file, bounded per tier) x ExecuteN(0|1) x schedules of one or two faulty runs, " +
	"each run failing the exec call at every index and/or the revision write at every index (mark-started, per-statement and deferred writes), " +
	"followed by clean runs until ErrNoPendingFiles; directories of 3-6 files with every set of 1-3 checkpoint files (a fresh history starts at the last one, nothing before it may run or be recorded) x every single fault; random: up to 5 files x 5 statements, up to 3 faulty runs. The statement text carries a per-case number (97 values in the enumerated part, 1000 in the random part) so that the statement checksums recorded in the revisions vary. " +
	"Oracle = invariants over the interleaved exec/write trace of a recording driver and a recording revision store. " +
	"non-trivial = at least one injected fault actually fired; distinct key = (shape, n, fault schedule)"

func key(c Case) string { return fmt.Sprintf("%v|%d|%v|%v", c.Shape, c.N, c.Runs, c.Ckpt) }

func shapes(maxFiles, maxStmts int) [][]int {
	var out [][]int
	var rec func(cur []int)
	rec = func(cur []int) {
		if len(cur) > 0 {
			out = append(out, append([]int{}, cur...))
		}
		if len(cur) == maxFiles {
			return
		}
		for s := 0; s <= maxStmts; s++ {
			rec(append(cur, s))
		}
	}
	rec(nil)
	return out
}

func faults(shape []int) []Fault {
	total := 0
	for _, n := range shape {
		total += n
	}
	writes := total + 2*len(shape)
	var out []Fault
	for s := -1; s < total; s++ {
		for w := -1; w < writes; w++ {
			if s == -1 && w == -1 {
				continue
			}
			out = append(out, Fault{s, w})
		}
	}
	return out
}

func genCase(t *rapid.T) Case {
	shape := rapid.SliceOfN(rapid.IntRange(0, 5), 1, 5).Draw(t, "shape")
	total := 0
	for _, n := range shape {
		total += n
	}
	nr := rapid.IntRange(1, 3).Draw(t, "runs")
	var runs []Fault
	for i := 0; i < nr; i++ {
		runs = append(runs, Fault{
			Stmt:  rapid.IntRange(-1, total).Draw(t, "stmt"),
			Write: rapid.IntRange(-1, total+2*len(shape)).Draw(t, "write"),
		})
	}
	c := Case{Shape: shape, Runs: runs, N: rapid.IntRange(0, 2).Draw(t, "n"), Salt: rapid.IntRange(0, 999).Draw(t, "salt")}
	if rapid.IntRange(0, 2).Draw(t, "withckpt") == 0 {
		for f, n := range shape {
			if n > 0 && rapid.IntRange(0, 2).Draw(t, "ckpt") == 0 {
				c.Ckpt = append(c.Ckpt, f)
			}
		}
	}
	return c
}

func TestCheck(t *testing.T) {
	col := ev.New("C09", "fault_enumeration", rule)
	defer col.Finish()
	check := func(c Case) error {
		out, err := checkCase(c)
		cls := fmt.Sprintf("stmt-faults=%d/write-faults=%d", out.StmtFaultsFired, out.WriteFaultsFired)
		col.Class(cls)
		if out.Dups > 0 {
			col.Class("with-justified-repeat")
		}
		if len(c.Ckpt) > 0 {
			col.Class(fmt.Sprintf("checkpoints=%d", len(c.Ckpt)))
		}
		if out.StmtFaultsFired+out.WriteFaultsFired > 0 {
			col.NonTrivial(key(c))
		}
		col.Sample(cls, c)
		return err
	}
	type bound struct{ files, stmts int }
	bounds := []bound{{2, 3}, {3, 1}}
	if col.Thorough() {
		bounds = []bound{{3, 3}}
	}
	seen := map[string]bool{}
	i := 0
	for _, b := range bounds {
		for _, sh := range shapes(b.files, b.stmts) {
			if seen[fmt.Sprint(sh)] {
				continue
			}
			seen[fmt.Sprint(sh)] = true
			fs := faults(sh)
			for n := 0; n <= 1; n++ {
				for _, f1 := range fs {
					i++
					if col.Mine(i) {
						if !ev.Each(col, "exhaustive-1-fault", Case{Shape: sh, Runs: []Fault{f1}, N: n, Salt: i % 97}, check, known) {
							return
						}
					}
					for _, f2 := range fs {
						i++
						if !col.Mine(i) {
							continue
						}
						if !ev.Each(col, "exhaustive-2-faults", Case{Shape: sh, Runs: []Fault{f1, f2}, N: n, Salt: i % 97}, check, known) {
							return
						}
					}
				}
			}
		}
	}
	// directories with checkpoint files: 3-6 files x 2 statements, every set of 1-3 checkpoints, every single fault
	// (over the statements and writes of the files that take part) followed by clean runs
	for files := 3; files <= 6; files++ {
		sh := make([]int, files)
		for k := range sh {
			sh[k] = 2
		}
		for mask := 1; mask < 1<<files; mask++ {
			var ck []int
			for k := 0; k < files; k++ {
				if mask&(1<<k) != 0 {
					ck = append(ck, k)
				}
			}
			if len(ck) > 3 {
				continue
			}
			active := sh[ck[len(ck)-1]:]
			for n := 0; n <= 1; n++ {
				for _, f1 := range faults(active) {
					i++
					if !col.Mine(i) {
						continue
					}
					if !ev.Each(col, "exhaustive-checkpoints-1-fault", Case{Shape: sh, Runs: []Fault{f1}, N: n, Ckpt: ck, Salt: i % 97}, check, known) {
						return
					}
				}
			}
		}
	}
	col.Exhaustive = true
	col.ExhScope = fmt.Sprintf("all shapes within %v (files, max statements per file) x ExecuteN(0|1) x every 1- and 2-run fault schedule (exec index and/or write index per run)", bounds)
	ev.Rapid(t, col, "random", col.N(20000, 1500000), genCase, check, known)
}

func TestReplay(t *testing.T) {
	ev.ReplayFile(t, "C09", func(_ string, c Case) error { _, err := checkCase(c); return err })
}
