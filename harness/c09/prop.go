// Package c09: the executor runs each statement in order, once, and resumes after any failure.
package c09

import (
	"context"
	"errors"
	"fmt"

	"ariga.io/atlas/sql/migrate"

	"verif/fake"
)

// Fault of one run: the exec call and/or the revision write (both 0-based, counted within the run) that fail.
type Fault struct {
	Stmt  int `json:"stmt"`  // -1 = none
	Write int `json:"write"` // -1 = none
}

type Case struct {
	Shape []int   `json:"shape"` // statements per file
	Runs  []Fault `json:"runs"`  // faulty runs, followed by clean runs until ErrNoPendingFiles
	N     int     `json:"n"`     // ExecuteN argument (0 = all pending)
	Salt  int     `json:"salt,omitempty"` // varies the statement text (and so every statement checksum the revisions record)
	Ckpt  []int   `json:"ckpt,omitempty"` // 0-based indexes of the files that are checkpoints: a fresh history starts at the last one, nothing before it ever runs
}

// first is the index of the first file that takes part in the execution.
func (c Case) first() int {
	l := 0
	for _, k := range c.Ckpt {
		if k > l {
			l = k
		}
	}
	return l
}

type sid struct{ f, i int }

func (c Case) text(s sid) string {
	if c.Salt != 0 {
		return fmt.Sprintf("INSERT INTO t VALUES (%d, %d, %d);", s.f, s.i, c.Salt)
	}
	return fmt.Sprintf("INSERT INTO t VALUES (%d, %d);", s.f, s.i)
}

type event struct {
	exec   bool
	s      sid  // exec: which statement
	ok     bool // exec ok / write ok
	wn     int
	wrev   migrate.Revision
}

// Outcome summarises what happened, for classification.
type Outcome struct {
	StmtFaultsFired  int
	WriteFaultsFired int
	Runs             int
	Dups             int
}

func checkCase(c Case) (Outcome, error) {
	var out Outcome
	ctx := context.Background()
	dir := &migrate.MemDir{}
	byText := map[string]sid{}
	var order []sid
	first := c.first()
	isCk := map[int]bool{}
	for _, k := range c.Ckpt {
		isCk[k] = true
	}
	for f, n := range c.Shape {
		body := ""
		if isCk[f] {
			body = "-- atlas:checkpoint\n\n"
		}
		for i := 0; i < n; i++ {
			s := sid{f, i}
			byText[c.text(s)] = s
			if f >= first {
				order = append(order, s)
			}
			body += c.text(s) + "\n"
		}
		if err := dir.WriteFile(fmt.Sprintf("%d_f.sql", f+1), []byte(body)); err != nil {
			return out, fmt.Errorf("harness: %v", err)
		}
	}
	sum, err := dir.Checksum()
	if err != nil {
		return out, fmt.Errorf("harness: %v", err)
	}
	if err := migrate.WriteSumFile(dir, sum); err != nil {
		return out, fmt.Errorf("harness: %v", err)
	}
	version := func(f int) string { return fmt.Sprint(f + 1) }
	drv := &fake.Driver{}
	revs := fake.NewRevs()
	var trace []event
	drv.OnExec = func(e fake.Exec) {
		s, ok := byText[e.Text]
		if !ok {
			s = sid{-1, -1}
		}
		trace = append(trace, event{exec: true, s: s, ok: e.OK})
	}
	revs.OnWrite = func(n int, r *migrate.Revision, failed bool) {
		trace = append(trace, event{wn: n, ok: !failed, wrev: *r})
	}
	ex, err := migrate.NewExecutor(drv, dir, revs)
	if err != nil {
		return out, fmt.Errorf("harness: %v", err)
	}
	succ := map[sid]int{}    // successful executions per statement, over all runs
	allowed := map[sid]int{} // repeats justified by a failed write right after the statement
	// nextUnrecorded computes, from the stored revisions only, the first statement not recorded.
	nextUnrecorded := func() (sid, bool) {
		for f, n := range c.Shape {
			if f < first {
				continue
			}
			r, ok := revs.M[version(f)]
			switch {
			case !ok:
				if n == 0 {
					continue // nothing to run in an empty file; it still needs its revision, but no statement
				}
				return sid{f, 0}, true
			case r.Applied < n:
				return sid{f, r.Applied}, true
			}
		}
		return sid{}, false
	}
	filesLeft := func() int {
		k := 0
		for f, n := range c.Shape {
			if f < first {
				continue
			}
			if r, ok := revs.M[version(f)]; !ok || r.Applied != r.Total || r.Total != n {
				k++
			}
		}
		return k
	}
	maxRuns := len(c.Runs) + len(c.Shape) + 2
	for run := 0; ; run++ {
		if run > maxRuns {
			return out, fmt.Errorf("no progress: still pending after %d runs", run)
		}
		fault := Fault{-1, -1}
		if run < len(c.Runs) {
			fault = c.Runs[run]
		}
		drv.ResetCalls()
		drv.FailIf = func(_ string, call int) bool { return call == fault.Stmt }
		revs.Writes = 0
		revs.FailWrite = func(n int, _ *migrate.Revision) bool { return n == fault.Write }
		trace = nil
		want, have := nextUnrecorded()
		left := filesLeft()
		err := ex.ExecuteN(ctx, c.N)
		out.Runs++
		// --- examine the trace of this run
		stopped := false // a fault fired: nothing may be executed afterwards
		firedStmt, firedWrite := false, false
		var execs []sid
		for i, e := range trace {
			if e.exec {
				if e.s.f >= 0 && e.s.f < first {
					return out, fmt.Errorf("run %d: statement %v of a file that precedes the last checkpoint was executed", run, e.s)
				}
				if stopped {
					return out, fmt.Errorf("run %d: statement %v executed after the run's first fault", run, e.s)
				}
				execs = append(execs, e.s)
				if e.ok {
					succ[e.s]++
				} else {
					stopped, firedStmt = true, true
				}
				continue
			}
			if !e.ok {
				firedWrite = true
				stopped = true
				if i > 0 && trace[i-1].exec && trace[i-1].ok {
					allowed[trace[i-1].s]++ // the statement whose own bookkeeping write failed
				}
			}
		}
		if firedStmt {
			out.StmtFaultsFired++
		}
		if firedWrite {
			out.WriteFaultsFired++
		}
		// executed statements are consecutive in directory order, starting at the first unrecorded one
		if len(execs) > 0 {
			if !have {
				return out, fmt.Errorf("run %d: executed %v although every statement was recorded", run, execs)
			}
			pos := -1
			for i, s := range order {
				if s == want {
					pos = i
				}
			}
			for j, s := range execs {
				if pos+j >= len(order) || order[pos+j] != s {
					return out, fmt.Errorf("run %d: executed %v, want consecutive statements starting at the first unrecorded %v", run, execs, want)
				}
			}
		}
		// the history never claims more than was really executed, and what it claims is a prefix
		for f, n := range c.Shape {
			r, ok := revs.M[version(f)]
			if !ok {
				continue
			}
			if r.Applied > n {
				return out, fmt.Errorf("run %d: revision %s claims %d of %d statements", run, r.Version, r.Applied, n)
			}
			for i := 0; i < r.Applied; i++ {
				if succ[sid{f, i}] == 0 {
					return out, fmt.Errorf("run %d: revision %s claims statement %d which never succeeded (Applied=%d)", run, r.Version, i, r.Applied)
				}
			}
		}
		// error classification
		var se *migrate.StmtExecError
		var we *migrate.WriteRevisionError
		switch {
		case firedStmt && !errors.As(err, &se):
			return out, fmt.Errorf("run %d: statement fault fired but error is %v", run, err)
		case firedWrite && !firedStmt && !errors.As(err, &we):
			return out, fmt.Errorf("run %d: write fault fired but error is %v", run, err)
		case !firedStmt && !firedWrite:
			if errors.Is(err, migrate.ErrNoPendingFiles) {
				if have || left > 0 {
					return out, fmt.Errorf("run %d: ErrNoPendingFiles but %d files are not completely recorded (next statement %v)", run, left, want)
				}
				goto done
			}
			if err != nil {
				return out, fmt.Errorf("run %d: no fault fired but the run failed: %v", run, err)
			}
			// a clean run makes the promised progress
			wantLeft := 0
			if c.N > 0 && left > c.N {
				wantLeft = left - c.N
			}
			if got := filesLeft(); got != wantLeft {
				return out, fmt.Errorf("run %d: clean ExecuteN(%d) left %d files unfinished, want %d", run, c.N, got, wantLeft)
			}
		}
	}
done:
	// every statement succeeded; repeats only where a failed write justifies them
	for _, s := range order {
		n := succ[s]
		if n == 0 {
			return out, fmt.Errorf("statement %v was never executed", s)
		}
		if n-1 > allowed[s] {
			return out, fmt.Errorf("statement %v executed %d times; only %d repeats are justified by a failed bookkeeping write", s, n, allowed[s])
		}
		out.Dups += n - 1
	}
	for f, n := range c.Shape {
		r, ok := revs.M[version(f)]
		if f < first {
			if ok {
				return out, fmt.Errorf("file %d precedes the last checkpoint but has a revision %+v", f+1, r)
			}
			continue
		}
		if !ok || r.Applied != n || r.Total != n || r.Error != "" {
			return out, fmt.Errorf("final revision of file %d: %+v (want complete %d/%d, no error)", f+1, r, n, n)
		}
	}
	return out, nil
}
