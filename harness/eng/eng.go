// Package eng wraps a real in-process SQLite engine: one shared-cache in-memory database that is
// reachable both through Atlas (sqlclient) and through a plain database/sql connection.
package eng

import (
	"context"
	"database/sql"
	"fmt"
	"sync/atomic"

	"ariga.io/atlas/sql/migrate"
	"ariga.io/atlas/sql/schema"
	"ariga.io/atlas/sql/sqlclient"
	_ "ariga.io/atlas/sql/sqlite"

	"verif/sqliteref"
)

var seq atomic.Int64

// DB is one fresh engine.
type DB struct {
	Name   string
	Client *sqlclient.Client // Atlas' view
	Raw    *sql.DB           // independent view
}

// New opens a fresh shared-cache in-memory database.
func New(ctx context.Context) (*DB, error) {
	name := fmt.Sprintf("vmem%d", seq.Add(1))
	raw, err := sqliteref.OpenMem(name)
	if err != nil {
		return nil, err
	}
	// keep one connection open for the lifetime of DB so the in-memory database is not dropped
	raw.SetMaxIdleConns(1)
	raw.SetMaxOpenConns(1)
	if err := raw.Ping(); err != nil {
		return nil, err
	}
	c, err := sqlclient.Open(ctx, "sqlite://"+name+"?mode=memory&cache=shared&_fk=1")
	if err != nil {
		raw.Close()
		return nil, err
	}
	return &DB{Name: name, Client: c, Raw: raw}, nil
}

func (d *DB) Close() {
	d.Client.Close()
	d.Raw.Close()
}

// Exec runs statements through the independent connection.
func (d *DB) Exec(stmts ...string) error {
	for _, s := range stmts {
		if _, err := d.Raw.Exec(s); err != nil {
			return fmt.Errorf("%w\n  in: %s", err, s)
		}
	}
	return nil
}

// Inspect returns Atlas' view of the database, the way `schema apply`/`schema inspect` read it.
func (d *DB) Inspect(ctx context.Context) (*schema.Realm, error) {
	return d.Client.InspectRealm(ctx, nil)
}

// PlanOpts are the CLI's plan options for a schema-bound SQLite URL (cmdapi.planOptions).
func PlanOpts() []migrate.PlanOption {
	return []migrate.PlanOption{
		func(o *migrate.PlanOptions) { o.Indent = "  " },
		func(o *migrate.PlanOptions) { o.SchemaQualifier = new(string) },
	}
}

// Diff computes the change set the CLI would (cmdapi.computeDiff + diffOptions: DiffNormalized).
func (d *DB) Diff(cur, desired *schema.Realm, opts ...schema.DiffOption) ([]schema.Change, error) {
	return d.Client.RealmDiff(cur, desired, append([]schema.DiffOption{schema.DiffNormalized()}, opts...)...)
}

// Apply is a line-for-line replica of cmdapi.applyChanges (default tx-mode): transaction, rollback on error.
func (d *DB) Apply(ctx context.Context, changes []schema.Change) error {
	tx, err := d.Client.Tx(ctx, nil)
	if err != nil {
		return err
	}
	if err := tx.ApplyChanges(ctx, changes, PlanOpts()...); err != nil {
		_ = tx.Rollback()
		return err
	}
	return tx.Commit()
}

// ApplyNoTx applies the changes through Driver.ApplyChanges directly (the library API, and `schema apply --tx-mode none`):
// no surrounding transaction, foreign keys stay enabled on the connection unless the plan itself switches them off.
func (d *DB) ApplyNoTx(ctx context.Context, changes []schema.Change) error {
	return d.Client.ApplyChanges(ctx, changes, PlanOpts()...)
}

// Plan returns the statements Atlas plans for the changes.
func (d *DB) Plan(ctx context.Context, changes []schema.Change) (*migrate.Plan, error) {
	return d.Client.PlanChanges(ctx, "plan", changes, PlanOpts()...)
}

// Catalog is the independent view.
func (d *DB) Catalog() (*sqliteref.Catalog, error) { return sqliteref.Dump(d.Raw) }
