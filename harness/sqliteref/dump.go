// Package sqliteref reads a SQLite database with plain database/sql — no Atlas code — and is
// the independent oracle for the engine-backed properties.
package sqliteref

import (
	"database/sql"
	"fmt"
	"sort"
	"strings"

	_ "github.com/mattn/go-sqlite3"
)

// OpenFile opens a database file with a plain go-sqlite3 connection (read/write).
func OpenFile(path string) (*sql.DB, error) {
	db, err := sql.Open("sqlite3", "file:"+path+"?_fk=1&_busy_timeout=5000")
	if err != nil {
		return nil, err
	}
	db.SetMaxOpenConns(1)
	return db, nil
}

// OpenMem opens (or attaches to) a named shared-cache in-memory database.
func OpenMem(name string) (*sql.DB, error) {
	db, err := sql.Open("sqlite3", "file:"+name+"?mode=memory&cache=shared&_fk=1")
	if err != nil {
		return nil, err
	}
	return db, nil
}

// Master is one row of sqlite_master.
type Master struct {
	Type, Name, Tbl, SQL string
}

// ReadMaster returns sqlite_master ordered by (type, name), internal sqlite_ objects excluded.
func ReadMaster(db *sql.DB) ([]Master, error) {
	rows, err := db.Query("SELECT type, name, tbl_name, IFNULL(sql,'') FROM sqlite_master WHERE name NOT LIKE 'sqlite\\_%' ESCAPE '\\' ORDER BY type, name")
	if err != nil {
		return nil, err
	}
	defer rows.Close()
	var out []Master
	for rows.Next() {
		var m Master
		if err := rows.Scan(&m.Type, &m.Name, &m.Tbl, &m.SQL); err != nil {
			return nil, err
		}
		out = append(out, m)
	}
	return out, rows.Err()
}

// TableRows returns every row of a table as a quote()d tuple string, sorted (or in rowid order
// with the rowid included when withRowid is set and the table has one).
func TableRows(db *sql.DB, table string, withRowid bool) ([]string, error) {
	cols, err := Columns(db, table)
	if err != nil {
		return nil, err
	}
	var sel []string
	if withRowid {
		sel = append(sel, "quote(rowid)")
	}
	for _, c := range cols {
		sel = append(sel, "quote("+QuoteIdent(c)+")")
	}
	if len(sel) == 0 {
		return nil, nil
	}
	q := "SELECT " + strings.Join(sel, " || '|' || ") + " FROM " + QuoteIdent(table)
	rows, err := db.Query(q)
	if err != nil && withRowid {
		return TableRows(db, table, false) // WITHOUT ROWID table
	}
	if err != nil {
		return nil, fmt.Errorf("%s: %w", q, err)
	}
	defer rows.Close()
	var out []string
	for rows.Next() {
		var s sql.NullString
		if err := rows.Scan(&s); err != nil {
			return nil, err
		}
		out = append(out, s.String)
	}
	sort.Strings(out)
	return out, rows.Err()
}

// Columns lists the non-hidden, non-generated... all visible columns (table_xinfo hidden in (0,2,3)) by name.
func Columns(db *sql.DB, table string) ([]string, error) {
	rows, err := db.Query("SELECT name FROM pragma_table_xinfo(?) WHERE hidden IN (0,2,3) ORDER BY cid", table)
	if err != nil {
		return nil, err
	}
	defer rows.Close()
	var out []string
	for rows.Next() {
		var n string
		if err := rows.Scan(&n); err != nil {
			return nil, err
		}
		out = append(out, n)
	}
	return out, rows.Err()
}

// QuoteIdent quotes an identifier for SQLite.
func QuoteIdent(s string) string { return `"` + strings.ReplaceAll(s, `"`, `""`) + `"` }

// DataDumpOptions masks volatile parts of the dump.
type DataDumpOptions struct {
	// MaskColumns maps table -> columns whose values are replaced by '?' (timestamps, durations).
	MaskColumns map[string][]string
	// SkipTables are left out entirely.
	SkipTables map[string]bool
	Rowid      bool
}

// DataDump renders schema (sqlite_master) and all rows of all tables as one canonical text.
func DataDump(db *sql.DB, opt DataDumpOptions) (string, error) {
	ms, err := ReadMaster(db)
	if err != nil {
		return "", err
	}
	var b strings.Builder
	for _, m := range ms {
		if opt.SkipTables[m.Tbl] {
			continue
		}
		fmt.Fprintf(&b, "%s %s on %s: %s\n", m.Type, m.Name, m.Tbl, m.SQL)
	}
	for _, m := range ms {
		if m.Type != "table" || opt.SkipTables[m.Name] {
			continue
		}
		var rows []string
		if mask := opt.MaskColumns[m.Name]; len(mask) > 0 {
			rows, err = maskedRows(db, m.Name, mask)
		} else {
			rows, err = TableRows(db, m.Name, opt.Rowid)
		}
		if err != nil {
			return "", err
		}
		fmt.Fprintf(&b, "rows of %s (%d):\n", m.Name, len(rows))
		for _, r := range rows {
			b.WriteString("  " + r + "\n")
		}
	}
	return b.String(), nil
}

func maskedRows(db *sql.DB, table string, mask []string) ([]string, error) {
	cols, err := Columns(db, table)
	if err != nil {
		return nil, err
	}
	isMasked := map[string]bool{}
	for _, m := range mask {
		isMasked[m] = true
	}
	var sel []string
	for _, c := range cols {
		if isMasked[c] {
			sel = append(sel, "'?'")
		} else {
			sel = append(sel, "quote("+QuoteIdent(c)+")")
		}
	}
	rows, err := db.Query("SELECT " + strings.Join(sel, " || '|' || ") + " FROM " + QuoteIdent(table))
	if err != nil {
		return nil, err
	}
	defer rows.Close()
	var out []string
	for rows.Next() {
		var s sql.NullString
		if err := rows.Scan(&s); err != nil {
			return nil, err
		}
		out = append(out, s.String)
	}
	sort.Strings(out)
	return out, rows.Err()
}

// QueryStrings runs a query returning one text column.
func QueryStrings(db *sql.DB, q string, args ...any) ([]string, error) {
	rows, err := db.Query(q, args...)
	if err != nil {
		return nil, err
	}
	defer rows.Close()
	var out []string
	for rows.Next() {
		var s sql.NullString
		if err := rows.Scan(&s); err != nil {
			return nil, err
		}
		out = append(out, s.String)
	}
	return out, rows.Err()
}
