package sqliteref

import (
	"database/sql"
	"fmt"
	"sort"
	"strings"
	"unicode"
)

// Catalog is an Atlas-independent description of a SQLite database, read through PRAGMAs and a
// small tokenizer over sqlite_master.sql (for what PRAGMAs do not expose: CHECK expressions,
// generated expressions, index predicates, AUTOINCREMENT).
type Catalog struct {
	Tables map[string]*CTable `json:"tables"`
}

type CTable struct {
	Name         string              `json:"name"`
	WithoutRowID bool                `json:"without_rowid"`
	Strict       bool                `json:"strict"`
	AutoInc      bool                `json:"autoinc"`
	Columns      map[string]*CColumn `json:"columns"`
	PK           []string            `json:"pk"` // in key order
	Indexes      []CIndex            `json:"indexes"`
	FKs          []CFK               `json:"fks"`
	Checks       []string            `json:"checks"` // normalised expressions, sorted
	SQL          string              `json:"sql"`
}

type CColumn struct {
	Name    string `json:"name"`
	Type    string `json:"type"`  // declared type, lower-cased
	Class   string `json:"class"` // Atlas type class of the declared type
	NotNull bool   `json:"notnull"`
	Default string `json:"default"` // normalised; "" = none
	HasDef  bool   `json:"has_default"`
	Hidden  int    `json:"hidden"` // 0 normal, 2 virtual generated, 3 stored generated
	GenExpr string `json:"gen_expr"`
}

type CIndex struct {
	Name   string   `json:"name"` // "" for automatic indexes (origin u / pk)
	Origin string   `json:"origin"`
	Unique bool     `json:"unique"`
	Parts  []string `json:"parts"` // column name or "(expr)" , with " DESC" suffix
	Where  string   `json:"where"`
}

type CFK struct {
	Cols     []string `json:"cols"`
	RefTable string   `json:"ref_table"`
	RefCols  []string `json:"ref_cols"`
	OnUpdate string   `json:"on_update"`
	OnDelete string   `json:"on_delete"`
}

// TypeClass maps a declared type to the class Atlas compares by (sql/sqlite/convert.go: ParseType,
// diff.go: typeChanged — "types are mismatched if they do not have the same type affinity").
func TypeClass(decl string) string {
	t := strings.ToLower(strings.TrimSpace(decl))
	if i := strings.Index(t, "("); i != -1 {
		t = strings.TrimSpace(t[:i])
	}
	switch t {
	case "":
		return "blob"
	case "bool", "boolean":
		return "bool"
	case "blob":
		return "blob"
	case "int2", "int8", "int", "uint64", "integer", "tinyint", "smallint", "mediumint", "bigint", "unsigned big int":
		return "int"
	case "real", "double", "double precision", "float":
		return "float"
	case "numeric", "decimal":
		return "decimal"
	case "char", "character", "varchar", "varying character", "nchar", "native character", "nvarchar", "text", "clob":
		return "string"
	case "json", "jsonb":
		return "json"
	case "date", "datetime", "time", "timestamp":
		return "time"
	case "uuid":
		return "uuid"
	}
	return "user:" + strings.ToLower(strings.TrimSpace(decl))
}

// Dump reads the catalog of every user table.
func Dump(db *sql.DB) (*Catalog, error) {
	ms, err := ReadMaster(db)
	if err != nil {
		return nil, err
	}
	c := &Catalog{Tables: map[string]*CTable{}}
	idxSQL := map[string]string{}
	for _, m := range ms {
		if m.Type == "index" {
			idxSQL[m.Name] = m.SQL
		}
	}
	for _, m := range ms {
		if m.Type != "table" {
			continue
		}
		t := &CTable{Name: m.Name, Columns: map[string]*CColumn{}, SQL: m.SQL}
		var wr, strict int
		if err := db.QueryRow("SELECT wr, strict FROM pragma_table_list WHERE name = ? AND schema = 'main'", m.Name).Scan(&wr, &strict); err != nil {
			return nil, fmt.Errorf("table_list %s: %w", m.Name, err)
		}
		t.WithoutRowID, t.Strict = wr == 1, strict == 1
		parsed := parseCreateTable(m.SQL)
		t.AutoInc = parsed.autoinc
		t.Checks = parsed.checks
		rows, err := db.Query("SELECT name, type, \"notnull\", dflt_value, pk, hidden FROM pragma_table_xinfo(?) ORDER BY cid", m.Name)
		if err != nil {
			return nil, err
		}
		pk := map[int]string{}
		for rows.Next() {
			var (
				col  CColumn
				dflt sql.NullString
				nn   int
				pko  int
			)
			if err := rows.Scan(&col.Name, &col.Type, &nn, &dflt, &pko, &col.Hidden); err != nil {
				rows.Close()
				return nil, err
			}
			col.Type = strings.ToLower(col.Type)
			col.Class = TypeClass(col.Type)
			col.NotNull = nn == 1
			if dflt.Valid {
				col.HasDef, col.Default = true, NormDefault(dflt.String)
			}
			if col.Hidden == 2 || col.Hidden == 3 {
				col.GenExpr = parsed.gen[strings.ToLower(col.Name)]
				// table_xinfo reports "TYPE GENERATED ALWAYS" as the type of generated columns
				col.Type = strings.TrimSpace(strings.TrimSuffix(col.Type, "generated always"))
				col.Class = TypeClass(col.Type)
			}
			if pko > 0 {
				pk[pko] = col.Name
			}
			cc := col
			t.Columns[col.Name] = &cc
		}
		rows.Close()
		for i := 1; i <= len(pk); i++ {
			t.PK = append(t.PK, pk[i])
		}
		// indexes
		irows, err := db.Query("SELECT name, \"unique\", origin, partial FROM pragma_index_list(?)", m.Name)
		if err != nil {
			return nil, err
		}
		type il struct {
			name, origin string
			unique, part int
		}
		var ils []il
		for irows.Next() {
			var x il
			if err := irows.Scan(&x.name, &x.unique, &x.origin, &x.part); err != nil {
				irows.Close()
				return nil, err
			}
			ils = append(ils, x)
		}
		irows.Close()
		for _, x := range ils {
			ix := CIndex{Name: x.name, Origin: x.origin, Unique: x.unique == 1}
			if x.origin != "c" {
				ix.Name = ""
			}
			exprs := indexExprs(idxSQL[x.name])
			prow, err := db.Query("SELECT cid, name, \"desc\" FROM pragma_index_xinfo(?) WHERE key = 1 ORDER BY seqno", x.name)
			if err != nil {
				return nil, err
			}
			ei := 0
			for prow.Next() {
				var (
					cid  int
					name sql.NullString
					desc int
				)
				if err := prow.Scan(&cid, &name, &desc); err != nil {
					prow.Close()
					return nil, err
				}
				p := name.String
				if cid == -2 { // expression part
					p = "(expr)"
					if ei < len(exprs.exprParts) {
						p = "(" + exprs.exprParts[ei] + ")"
					}
					ei++
				}
				if desc == 1 {
					p += " DESC"
				}
				ix.Parts = append(ix.Parts, p)
			}
			prow.Close()
			if x.part == 1 {
				ix.Where = exprs.where
			}
			t.Indexes = append(t.Indexes, ix)
		}
		sort.Slice(t.Indexes, func(i, j int) bool { return indexKey(t.Indexes[i]) < indexKey(t.Indexes[j]) })
		// foreign keys
		frows, err := db.Query("SELECT id, seq, \"table\", \"from\", IFNULL(\"to\", ''), on_update, on_delete FROM pragma_foreign_key_list(?) ORDER BY id, seq", m.Name)
		if err != nil {
			return nil, err
		}
		fks := map[int]*CFK{}
		var ids []int
		for frows.Next() {
			var (
				id, seq          int
				tbl, from, to    string
				onUpd, onDel     string
			)
			if err := frows.Scan(&id, &seq, &tbl, &from, &to, &onUpd, &onDel); err != nil {
				frows.Close()
				return nil, err
			}
			fk, ok := fks[id]
			if !ok {
				// the parent's name as the catalog spells it (the clause may use another letter case)
				for _, o := range ms {
					if o.Type == "table" && strings.EqualFold(o.Name, tbl) {
						tbl = o.Name
					}
				}
				fk = &CFK{RefTable: tbl, OnUpdate: onUpd, OnDelete: onDel}
				fks[id] = fk
				ids = append(ids, id)
			}
			fk.Cols = append(fk.Cols, from)
			fk.RefCols = append(fk.RefCols, to)
		}
		frows.Close()
		for _, id := range ids {
			t.FKs = append(t.FKs, *fks[id])
		}
		sort.Slice(t.FKs, func(i, j int) bool { return fmt.Sprint(t.FKs[i]) < fmt.Sprint(t.FKs[j]) })
		c.Tables[m.Name] = t
	}
	// a foreign key declared without parent columns (REFERENCES p) points at the parent's primary key
	for _, t := range c.Tables {
		for i := range t.FKs {
			for k, rc := range t.FKs[i].RefCols {
				if p := c.Tables[t.FKs[i].RefTable]; rc == "" && p != nil && k < len(p.PK) {
					t.FKs[i].RefCols[k] = p.PK[k]
				}
			}
		}
		sort.Slice(t.FKs, func(i, j int) bool { return fmt.Sprint(t.FKs[i]) < fmt.Sprint(t.FKs[j]) })
	}
	return c, nil
}

func indexKey(i CIndex) string {
	return fmt.Sprintf("%s|%v|%s|%s", i.Name, i.Unique, strings.Join(i.Parts, ","), i.Where)
}

// ---------------------------------------------------------------------------------------------
// tokenizer-level helpers over CREATE statements

// NormExpr normalises an SQL expression for comparison: whitespace outside quotes removed,
// identifier quotes dropped, redundant outer parentheses stripped, keywords upper-cased is NOT done
// (literals are case sensitive, and Atlas copies expressions verbatim).
func NormExpr(e string) string {
	var b strings.Builder
	r := []rune(e)
	for i := 0; i < len(r); i++ {
		c := r[i]
		switch {
		case c == '\'':
			j := i + 1
			for j < len(r) {
				if r[j] == '\'' {
					if j+1 < len(r) && r[j+1] == '\'' {
						j += 2
						continue
					}
					break
				}
				j++
			}
			if j >= len(r) {
				j = len(r) - 1
			}
			b.WriteString(string(r[i : j+1]))
			i = j
		case c == '"' || c == '`' || c == '[':
			end := c
			if c == '[' {
				end = ']'
			}
			j := i + 1
			for j < len(r) && r[j] != end {
				j++
			}
			b.WriteString(string(r[i+1 : min(j, len(r))]))
			i = j
		case unicode.IsSpace(c):
			// a space matters only between two word characters
			if b.Len() > 0 && i+1 < len(r) {
				prev := []rune(b.String())
				p, n := prev[len(prev)-1], r[i+1]
				if isWord(p) && (isWord(n) || n == '"' || n == '`' || n == '[' || n == '\'') {
					b.WriteRune(' ')
				} else if p == '\'' && isWord(n) {
					b.WriteRune(' ')
				}
			}
		default:
			b.WriteRune(c)
		}
	}
	s := b.String()
	for len(s) >= 2 && s[0] == '(' && matchingParen(s, 0) == len(s)-1 {
		s = strings.TrimSpace(s[1 : len(s)-1])
	}
	return s
}

func isWord(r rune) bool { return unicode.IsLetter(r) || unicode.IsDigit(r) || r == '_' }

// matchingParen returns the index of the parenthesis closing the one at i (quotes respected), or -1.
func matchingParen(s string, i int) int {
	depth := 0
	for j := i; j < len(s); j++ {
		switch s[j] {
		case '\'', '"', '`':
			q := s[j]
			j++
			for j < len(s) {
				if s[j] == q {
					if j+1 < len(s) && s[j+1] == q {
						j += 2
						continue
					}
					break
				}
				j++
			}
		case '(':
			depth++
		case ')':
			depth--
			if depth == 0 {
				return j
			}
		}
	}
	return -1
}

// NormDefault normalises a dflt_value: outer parens and quotes of string literals are kept canonical.
func NormDefault(d string) string {
	d = strings.TrimSpace(d)
	for len(d) >= 2 && d[0] == '(' && matchingParen(d, 0) == len(d)-1 {
		d = strings.TrimSpace(d[1 : len(d)-1])
	}
	// "x" and 'x' string literals are the same default for Atlas (sqlx.Unquote); canonicalise to '...'
	if len(d) >= 2 && (d[0] == '"' && d[len(d)-1] == '"') {
		inner := strings.ReplaceAll(d[1:len(d)-1], `""`, `"`)
		d = "'" + strings.ReplaceAll(inner, "'", "''") + "'"
	}
	// the keywords TRUE and FALSE are case-insensitive
	if l := strings.ToLower(d); l == "true" || l == "false" {
		d = l
	}
	return NormExpr(d)
}

type parsedTable struct {
	autoinc bool
	checks  []string
	gen     map[string]string // lower(column) -> normalised generated expression
}

// splitTop splits s on commas at parenthesis depth 0 (quotes respected).
func splitTop(s string) []string {
	var out []string
	depth, start := 0, 0
	for i := 0; i < len(s); i++ {
		switch s[i] {
		case '\'', '"', '`':
			q := s[i]
			i++
			for i < len(s) {
				if s[i] == q {
					if i+1 < len(s) && s[i+1] == q {
						i += 2
						continue
					}
					break
				}
				i++
			}
		case '[':
			for i < len(s) && s[i] != ']' {
				i++
			}
		case '(':
			depth++
		case ')':
			depth--
		case ',':
			if depth == 0 {
				out = append(out, s[start:i])
				start = i + 1
			}
		}
	}
	return append(out, s[start:])
}

// findKeyword finds kw (upper-case) in s outside quotes and at any depth, starting at from; returns -1 if absent.
func findKeyword(s, kw string, from int) int {
	up := strings.ToUpper(s)
	for i := from; i < len(s); i++ {
		switch s[i] {
		case '\'', '"', '`':
			q := s[i]
			i++
			for i < len(s) {
				if s[i] == q {
					if i+1 < len(s) && s[i+1] == q {
						i += 2
						continue
					}
					break
				}
				i++
			}
		case '[':
			for i < len(s) && s[i] != ']' {
				i++
			}
		default:
			if strings.HasPrefix(up[i:], kw) && (i == 0 || !isWord(rune(s[i-1]))) && (i+len(kw) >= len(s) || !isWord(rune(s[i+len(kw)]))) {
				return i
			}
		}
	}
	return -1
}

func unquoteIdent(s string) string {
	s = strings.TrimSpace(s)
	if len(s) >= 2 {
		switch {
		case s[0] == '"' && s[len(s)-1] == '"':
			return strings.ReplaceAll(s[1:len(s)-1], `""`, `"`)
		case s[0] == '`' && s[len(s)-1] == '`':
			return strings.ReplaceAll(s[1:len(s)-1], "``", "`")
		case s[0] == '[' && s[len(s)-1] == ']':
			return s[1 : len(s)-1]
		}
	}
	return s
}

func firstIdent(def string) string {
	def = strings.TrimSpace(def)
	if def == "" {
		return ""
	}
	switch def[0] {
	case '"', '`':
		q := def[0]
		for i := 1; i < len(def); i++ {
			if def[i] == q {
				if i+1 < len(def) && def[i+1] == q {
					i++
					continue
				}
				return unquoteIdent(def[:i+1])
			}
		}
	case '[':
		if i := strings.Index(def, "]"); i != -1 {
			return def[1:i]
		}
	}
	for i, r := range def {
		if unicode.IsSpace(r) || r == '(' {
			return def[:i]
		}
	}
	return def
}

// stripComments blanks SQL comments (-- to the end of the line, /* ... */) that are outside quoted text.
func stripComments(s string) string {
	b := []byte(s)
	for i := 0; i < len(b); i++ {
		switch {
		case b[i] == '\'' || b[i] == '"' || b[i] == '`':
			q := b[i]
			i++
			for i < len(b) {
				if b[i] == q {
					if i+1 < len(b) && b[i+1] == q {
						i += 2
						continue
					}
					break
				}
				i++
			}
		case b[i] == '[':
			for i < len(b) && b[i] != ']' {
				i++
			}
		case b[i] == '-' && i+1 < len(b) && b[i+1] == '-':
			for i < len(b) && b[i] != '\n' {
				b[i] = ' '
				i++
			}
		case b[i] == '/' && i+1 < len(b) && b[i+1] == '*':
			end := strings.Index(s[i+2:], "*/")
			stop := len(b)
			if end != -1 {
				stop = i + 2 + end + 2
			}
			for ; i < stop; i++ {
				if b[i] != '\n' {
					b[i] = ' '
				}
			}
			i--
		}
	}
	return string(b)
}

func parseCreateTable(sqlText string) parsedTable {
	p := parsedTable{gen: map[string]string{}}
	sqlText = stripComments(sqlText)
	open := strings.Index(sqlText, "(")
	if open == -1 {
		return p
	}
	closeIdx := matchingParen(sqlText, open)
	if closeIdx == -1 {
		return p
	}
	body := sqlText[open+1 : closeIdx]
	for _, def := range splitTop(body) {
		if findKeyword(def, "AUTOINCREMENT", 0) != -1 {
			p.autoinc = true
		}
		// every CHECK ( ... ) in the definition (column-level or table-level)
		for from := 0; ; {
			i := findKeyword(def, "CHECK", from)
			if i == -1 {
				break
			}
			j := strings.Index(def[i:], "(")
			if j == -1 {
				break
			}
			end := matchingParen(def, i+j)
			if end == -1 {
				break
			}
			p.checks = append(p.checks, NormExpr(def[i+j+1:end]))
			from = end
		}
		// generated column: <name> ... [GENERATED ALWAYS] AS ( expr ) [STORED|VIRTUAL]
		head := strings.ToUpper(strings.TrimSpace(def))
		if strings.HasPrefix(head, "CONSTRAINT") || strings.HasPrefix(head, "PRIMARY") || strings.HasPrefix(head, "UNIQUE") ||
			strings.HasPrefix(head, "CHECK") || strings.HasPrefix(head, "FOREIGN") {
			continue
		}
		if i := findKeyword(def, "AS", 0); i != -1 {
			rest := def[i+2:]
			if k := strings.Index(rest, "("); k != -1 && strings.TrimSpace(rest[:k]) == "" {
				if end := matchingParen(rest, k); end != -1 {
					p.gen[strings.ToLower(firstIdent(def))] = NormExpr(rest[k+1 : end])
				}
			}
		}
	}
	sort.Strings(p.checks)
	return p
}

type idxParsed struct {
	exprParts []string
	where     string
}

// indexExprs extracts expression parts and the WHERE predicate of a CREATE INDEX statement.
func indexExprs(sqlText string) idxParsed {
	var p idxParsed
	if sqlText == "" {
		return p
	}
	sqlText = stripComments(sqlText) // comments are not part of an expression or of the predicate
	on := findKeyword(sqlText, "ON", 0)
	if on == -1 {
		return p
	}
	open := strings.Index(sqlText[on:], "(")
	if open == -1 {
		return p
	}
	open += on
	end := matchingParen(sqlText, open)
	if end == -1 {
		return p
	}
	for _, part := range splitTop(sqlText[open+1 : end]) {
		x := strings.TrimSpace(part)
		up := strings.ToUpper(x)
		for _, suf := range []string{" DESC", " ASC"} {
			if strings.HasSuffix(up, suf) {
				x = strings.TrimSpace(x[:len(x)-len(suf)])
				up = strings.ToUpper(x)
			}
		}
		id := unquoteIdent(x)
		isIdent := id != "" && strings.IndexFunc(id, func(r rune) bool { return !isWord(r) && r != ' ' }) == -1 && (x == id || x[0] == '"' || x[0] == '`' || x[0] == '[')
		if !isIdent {
			p.exprParts = append(p.exprParts, NormExpr(x))
		}
	}
	if w := findKeyword(sqlText, "WHERE", end); w != -1 {
		p.where = NormExpr(sqlText[w+5:])
	}
	return p
}

// ---------------------------------------------------------------------------------------------

// Diff lists the differences between two catalogs modulo exactly the equivalences Atlas documents:
// declared types compare by Atlas type class, column order is ignored, automatic indexes are matched by
// parts, foreign-key and check names are not compared (SQLite exposes them only through the CREATE text
// and the differ matches them by properties), expressions compare after normalisation.
func Diff(a, b *Catalog) []string {
	var out []string
	for n := range a.Tables {
		if _, ok := b.Tables[n]; !ok {
			out = append(out, fmt.Sprintf("table %q only in first", n))
		}
	}
	for n := range b.Tables {
		if _, ok := a.Tables[n]; !ok {
			out = append(out, fmt.Sprintf("table %q only in second", n))
		}
	}
	for n, ta := range a.Tables {
		tb, ok := b.Tables[n]
		if !ok {
			continue
		}
		pre := fmt.Sprintf("table %q: ", n)
		if ta.WithoutRowID != tb.WithoutRowID {
			out = append(out, pre+fmt.Sprintf("WITHOUT ROWID %v vs %v", ta.WithoutRowID, tb.WithoutRowID))
		}
		if ta.Strict != tb.Strict {
			out = append(out, pre+fmt.Sprintf("STRICT %v vs %v", ta.Strict, tb.Strict))
		}
		if ta.AutoInc != tb.AutoInc {
			out = append(out, pre+fmt.Sprintf("AUTOINCREMENT %v vs %v", ta.AutoInc, tb.AutoInc))
		}
		if fmt.Sprint(ta.PK) != fmt.Sprint(tb.PK) {
			out = append(out, pre+fmt.Sprintf("primary key %v vs %v", ta.PK, tb.PK))
		}
		for cn, ca := range ta.Columns {
			cb, ok := tb.Columns[cn]
			if !ok {
				out = append(out, pre+fmt.Sprintf("column %q only in first", cn))
				continue
			}
			if ca.Class != cb.Class {
				out = append(out, pre+fmt.Sprintf("column %q type class %s (%s) vs %s (%s)", cn, ca.Class, ca.Type, cb.Class, cb.Type))
			}
			if ca.NotNull != cb.NotNull {
				out = append(out, pre+fmt.Sprintf("column %q NOT NULL %v vs %v", cn, ca.NotNull, cb.NotNull))
			}
			if ca.HasDef != cb.HasDef || !defaultEq(ca, cb) {
				out = append(out, pre+fmt.Sprintf("column %q default %q(%v) vs %q(%v)", cn, ca.Default, ca.HasDef, cb.Default, cb.HasDef))
			}
			if ca.Hidden != cb.Hidden || ca.GenExpr != cb.GenExpr {
				out = append(out, pre+fmt.Sprintf("column %q generated kind %d expr %q vs kind %d expr %q", cn, ca.Hidden, ca.GenExpr, cb.Hidden, cb.GenExpr))
			}
		}
		for cn := range tb.Columns {
			if _, ok := ta.Columns[cn]; !ok {
				out = append(out, pre+fmt.Sprintf("column %q only in second", cn))
			}
		}
		ia, ib := indexKeys(n, ta.Indexes), indexKeys(n, tb.Indexes)
		if strings.Join(ia, ";") != strings.Join(ib, ";") {
			out = append(out, pre+fmt.Sprintf("indexes %v vs %v", ia, ib))
		}
		fa, fb := fmt.Sprint(ta.FKs), fmt.Sprint(tb.FKs)
		if fa != fb {
			out = append(out, pre+fmt.Sprintf("foreign keys %v vs %v", fa, fb))
		}
		if strings.Join(ta.Checks, ";") != strings.Join(tb.Checks, ";") {
			out = append(out, pre+fmt.Sprintf("checks %q vs %q", ta.Checks, tb.Checks))
		}
	}
	sort.Strings(out)
	return out
}

// indexKeys renders the indexes that are observable schema: created indexes by name, automatic
// unique-constraint indexes (origin u) by their parts. The primary key's own index (origin pk) is
// covered by the PK comparison.
func indexKeys(table string, ix []CIndex) []string {
	var out []string
	for _, i := range ix {
		if i.Origin == "pk" {
			continue
		}
		if i.Origin == "u" {
			// Atlas documents (sqlite/migrate.go: normalizeIdxName) that the automatic index of an inline UNIQUE
			// constraint and a created unique index named <table>_<columns> are the same object.
			names := []string{table}
			for _, p := range i.Parts {
				names = append(names, strings.TrimSuffix(p, " DESC"))
			}
			i.Name = strings.Join(names, "_")
		}
		out = append(out, indexKey(i))
	}
	sort.Strings(out)
	return out
}

// defaultEq compares two column defaults. For every column with a type affinity a quoted literal and its
// bare form are the same default (the value is converted by the column affinity on insert) and Atlas
// documents them as equal (sqlite/diff.go: defaultChanged compares after unquoting); only for columns
// without affinity (blob / no type) the literal kind is observable, so those compare exactly.
func defaultEq(a, b *CColumn) bool {
	if a.Default == b.Default {
		return true
	}
	if a.Class == "blob" || b.Class == "blob" {
		return false
	}
	return unquoteLit(a.Default) == unquoteLit(b.Default)
}

func unquoteLit(d string) string {
	if len(d) >= 2 && d[0] == '\'' && d[len(d)-1] == '\'' {
		return strings.ReplaceAll(d[1:len(d)-1], "''", "'")
	}
	return d
}
