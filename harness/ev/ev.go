// Package ev is the evidence collector, known-finding matcher and replay-file writer
// shared by all property packages. Nothing in here knows about Atlas.
package ev

import (
	"crypto/sha256"
	"encoding/hex"
	"encoding/json"
	"flag"
	"fmt"
	"hash/fnv"
	"os"
	"path/filepath"
	"runtime/debug"
	"sort"
	"strconv"
	"strings"
	"sync"
	"testing"
	"time"

	"pgregory.net/rapid"
)

// Root returns the /verif directory (VERIF_ROOT, or the closest parent holding MANIFEST.json).
func Root() string {
	if r := os.Getenv("VERIF_ROOT"); r != "" {
		return r
	}
	d, _ := os.Getwd()
	for d != "/" && d != "." {
		if _, err := os.Stat(filepath.Join(d, "properties.jsonl")); err == nil {
			return d
		}
		d = filepath.Dir(d)
	}
	return "/verif"
}

// Out is where evidence, replays and shard files go: Root(), or VERIF_OUT for runs against a mutant tree.
func Out() string {
	if o := os.Getenv("VERIF_OUT"); o != "" {
		return o
	}
	return Root()
}

// Finding is one entry of known_findings.json.
type Finding struct {
	ID        string `json:"id"`
	Property  string `json:"property"`
	Status    string `json:"status"` // "known" | "fixed"
	Predicate string `json:"predicate"`
	Line      string `json:"line"`
	What      string `json:"what"`
}

type sample struct {
	Class string `json:"class"`
	Case  any    `json:"case"`
}

// Collector gathers the measured coverage of one check run.
type Collector struct {
	mu          sync.Mutex
	ID          string
	Level       string
	Rule        string
	Tier        string
	Seed        int64
	Shard       int
	Shards      int
	evals       int64
	keys        map[string]struct{}
	classes     map[string]int64
	rejected    map[string]int64
	excluded    map[string]int64
	printed     map[string]bool
	samples     []sample
	sampleCls   map[string]int
	Assumptions []string
	Exhaustive  bool
	ExhScope    string
	Extra       map[string]any
	violations  []string
	start       time.Time
	known       []Finding
	lastFail    *failure
}

type failure struct {
	caseJSON []byte
	err      string
	sub      string
}

// New creates a collector; tier/seed/shard come from the environment the driver sets.
func New(id, level, rule string) *Collector {
	c := &Collector{
		ID: id, Level: level, Rule: rule,
		Tier:   envOr("VERIF_TIER", "quick"),
		keys:   map[string]struct{}{}, classes: map[string]int64{}, rejected: map[string]int64{},
		excluded: map[string]int64{}, printed: map[string]bool{}, sampleCls: map[string]int{},
		Extra: map[string]any{}, start: time.Now(), Shards: 1,
	}
	if c.Tier != "thorough" {
		c.Tier = "quick"
	}
	c.Seed, _ = strconv.ParseInt(envOr("VERIF_SEED", "1"), 10, 64)
	if s := os.Getenv("VERIF_SHARD"); s != "" {
		fmt.Sscanf(s, "%d/%d", &c.Shard, &c.Shards)
		if c.Shards < 1 {
			c.Shards = 1
		}
	}
	b, err := os.ReadFile(filepath.Join(Root(), "known_findings.json"))
	if err == nil {
		var f struct {
			Findings []Finding `json:"findings"`
		}
		if err := json.Unmarshal(b, &f); err != nil {
			panic("known_findings.json: " + err.Error())
		}
		for _, k := range f.Findings {
			if k.Property == id && k.Status == "known" {
				c.known = append(c.known, k)
			}
		}
	}
	return c
}

func envOr(k, d string) string {
	if v := os.Getenv(k); v != "" {
		return v
	}
	return d
}

// Thorough reports whether this is a thorough-tier run.
func (c *Collector) Thorough() bool { return c.Tier == "thorough" }

// N picks a case count by tier. The thorough count is the total over all shards.
func (c *Collector) N(quick, thorough int) int {
	n := quick
	if c.Thorough() {
		n = thorough / c.Shards
	}
	if s := os.Getenv("VERIF_SCALE"); s != "" {
		if f, err := strconv.ParseFloat(s, 64); err == nil && f > 0 {
			n = int(float64(n) * f)
		}
	}
	if n < 1 {
		n = 1
	}
	return n
}

// Mine reports whether enumeration index i belongs to this shard.
func (c *Collector) Mine(i int) bool { return c.Shards <= 1 || i%c.Shards == c.Shard }

// SeedFor derives a non-zero rapid seed from VERIF_SEED, the shard and a sub-check name.
func (c *Collector) SeedFor(sub string) uint64 {
	h := fnv.New64a()
	fmt.Fprintf(h, "%d|%d|%s|%s", c.Seed, c.Shard, c.ID, sub)
	s := h.Sum64()
	if s == 0 {
		s = 0x9e3779b97f4a7c15
	}
	return s
}

func (c *Collector) Eval() { c.mu.Lock(); c.evals++; c.mu.Unlock() }

// NonTrivial records the distinct key of a case that is non-trivial by the property's rule.
func (c *Collector) NonTrivial(key string) {
	c.mu.Lock()
	if len(key) > 200 {
		s := sha256.Sum256([]byte(key))
		key = key[:60] + "#" + hex.EncodeToString(s[:8])
	}
	c.keys[key] = struct{}{}
	c.mu.Unlock()
}

func (c *Collector) Class(name string)        { c.mu.Lock(); c.classes[name]++; c.mu.Unlock() }
func (c *Collector) ClassN(name string, n int) { c.mu.Lock(); c.classes[name] += int64(n); c.mu.Unlock() }
func (c *Collector) Reject(reason string)     { c.mu.Lock(); c.rejected[reason]++; c.mu.Unlock() }
func (c *Collector) Assume(s string)          { c.mu.Lock(); c.Assumptions = append(c.Assumptions, s); c.mu.Unlock() }

// Sample keeps up to 2 cases per class and at most 12 in total.
func (c *Collector) Sample(class string, v any) {
	c.mu.Lock()
	defer c.mu.Unlock()
	if c.sampleCls[class] >= 2 || len(c.samples) >= 12 {
		return
	}
	b, err := json.Marshal(v)
	if err != nil {
		return
	}
	if len(b) > 4000 {
		b, _ = json.Marshal(string(b[:4000]) + "…(truncated)")
	}
	c.sampleCls[class]++
	c.samples = append(c.samples, sample{Class: class, Case: json.RawMessage(b)})
}

// Matcher decides whether a failing case is a listed known finding.
type Matcher[C any] map[string]func(c C, err error) bool

// Run evaluates check(c) under recover. A failure matching a known finding is counted and
// swallowed (nil is returned) so the search continues; any other failure is remembered as
// the latest (during shrinking: smallest) failing case and returned.
func Run[C any](col *Collector, sub string, c C, check func(C) error, known Matcher[C]) (err error) {
	col.Eval()
	func() {
		defer func() {
			if r := recover(); r != nil {
				err = fmt.Errorf("PANIC: %v\n%s", r, trimStack(debug.Stack()))
			}
		}()
		err = check(c)
	}()
	if err == nil {
		return nil
	}
	// a CLI invocation killed by the per-invocation watchdog (cli.Result.Code == -1) says the machine was too busy (or the
	// command hangs): that is "inconclusive" (the driver exits 2 on HARNESS-ERROR), never a violation of the property
	if strings.Contains(err.Error(), "exit=-1\n") {
		col.Reject("inconclusive: a CLI invocation was killed by the watchdog")
		col.mu.Lock()
		if !col.printed["\x00watchdog"] {
			col.printed["\x00watchdog"] = true
			fmt.Printf("HARNESS-ERROR property=%s sub=%s: a CLI invocation was killed by the watchdog (machine too busy?): %s\n", col.ID, sub, strings.SplitN(err.Error(), "\n", 2)[0])
		}
		col.mu.Unlock()
		return nil
	}
	for _, k := range col.known {
		p, ok := known[k.Predicate]
		if !ok {
			continue
		}
		if p(c, err) {
			col.mu.Lock()
			col.excluded[k.ID]++
			if !col.printed[k.ID] {
				col.printed[k.ID] = true
				fmt.Printf("KNOWN-FINDING: property=%s %s\n", col.ID, k.What)
			}
			col.mu.Unlock()
			return nil
		}
	}
	b, jerr := json.MarshalIndent(c, "", " ")
	if jerr != nil {
		b = []byte(fmt.Sprintf("%q", fmt.Sprintf("%+v", c)))
	}
	col.mu.Lock()
	col.lastFail = &failure{caseJSON: b, err: err.Error(), sub: sub}
	col.mu.Unlock()
	return err
}

func trimStack(b []byte) string {
	lines := strings.Split(string(b), "\n")
	if len(lines) > 40 {
		lines = lines[:40]
	}
	return strings.Join(lines, "\n")
}

// Replay is the on-disk form of a failing case.
type Replay struct {
	Property string          `json:"property"`
	Sub      string          `json:"sub"`
	Error    string          `json:"error"`
	Case     json.RawMessage `json:"case"`
}

// Violation writes the last failing case as a replay file and prints the VIOLATION line.
func (c *Collector) Violation() {
	c.mu.Lock()
	f := c.lastFail
	c.lastFail = nil
	c.mu.Unlock()
	if f == nil {
		return
	}
	sum := sha256.Sum256(append([]byte(f.sub), f.caseJSON...))
	dir := filepath.Join(Out(), "replays", c.ID)
	os.MkdirAll(dir, 0o755)
	p := filepath.Join(dir, hex.EncodeToString(sum[:6])+".json")
	b, _ := json.MarshalIndent(Replay{Property: c.ID, Sub: f.sub, Error: f.err, Case: f.caseJSON}, "", " ")
	os.WriteFile(p, b, 0o644)
	c.mu.Lock()
	c.violations = append(c.violations, p)
	c.mu.Unlock()
	fmt.Printf("VIOLATION property=%s replay=%s\n", c.ID, p)
	msg := f.err
	if len(msg) > 3000 {
		msg = msg[:3000] + "…"
	}
	fmt.Printf("  sub-check: %s\n  error: %s\n", f.sub, strings.ReplaceAll(msg, "\n", "\n    "))
}

// Failed reports whether a violation was recorded.
func (c *Collector) Failed() bool { c.mu.Lock(); defer c.mu.Unlock(); return len(c.violations) > 0 }

// Rapid runs n generated cases of one sub-check with shrinking. It returns false after a violation.
func Rapid[C any](t *testing.T, col *Collector, sub string, n int, gen func(*rapid.T) C, check func(C) error, known Matcher[C]) bool {
	flag.Set("rapid.checks", strconv.Itoa(n))
	flag.Set("rapid.seed", strconv.FormatUint(col.SeedFor(sub), 10))
	flag.Set("rapid.nofailfile", "true")
	if os.Getenv("VERIF_SHRINKTIME") != "" {
		flag.Set("rapid.shrinktime", os.Getenv("VERIF_SHRINKTIME"))
	} else {
		flag.Set("rapid.shrinktime", "20s")
	}
	ok := t.Run(sub, func(t *testing.T) {
		rapid.Check(t, func(rt *rapid.T) {
			c := gen(rt)
			if err := Run(col, sub, c, check, known); err != nil {
				rt.Fatalf("%v", err)
			}
		})
	})
	if !ok {
		col.mu.Lock()
		has := col.lastFail != nil
		col.mu.Unlock()
		if has {
			col.Violation()
		} else {
			// failure without a recorded case: generator/harness problem, never a violation.
			fmt.Printf("HARNESS-ERROR property=%s sub=%s (rapid failed without a failing case)\n", col.ID, sub)
		}
	}
	return ok
}

// Each runs check over an explicit list/enumeration element; returns false on violation.
func Each[C any](col *Collector, sub string, c C, check func(C) error, known Matcher[C]) bool {
	if err := Run(col, sub, c, check, known); err != nil {
		col.Violation()
		return false
	}
	return true
}

type evidence struct {
	PropertyID  string         `json:"property_id"`
	Tier        string         `json:"tier"`
	Seed        int64          `json:"seed"`
	Level       string         `json:"level"`
	Coverage    map[string]any `json:"coverage"`
	Assumptions []string       `json:"assumptions"`
	WallS       float64        `json:"wall_s"`
	Violations  int            `json:"violations"`
	Keys        []string       `json:"keys,omitempty"` // only in shard files; the driver merges and drops them
}

// Finish writes evidence/<ID>.json (or a shard file the driver merges).
func (c *Collector) Finish() {
	c.mu.Lock()
	defer c.mu.Unlock()
	cov := map[string]any{
		"evaluations":         c.evals,
		"distinct_nontrivial": len(c.keys),
		"rule":                c.Rule,
		"samples":             c.samples,
		"classes":             c.classes,
		"rejected":            c.rejected,
		"excluded_known_findings": c.excluded,
		"exhaustive":          c.Exhaustive,
		"shards":              c.Shards,
	}
	if c.ExhScope != "" {
		cov["exhaustive_scope"] = c.ExhScope
	}
	for k, v := range c.Extra {
		cov[k] = v
	}
	if len(c.samples) == 0 {
		cov["samples"] = []any{}
	}
	e := evidence{PropertyID: c.ID, Tier: c.Tier, Seed: c.Seed, Level: c.Level, Coverage: cov,
		Assumptions: c.Assumptions, WallS: time.Since(c.start).Seconds(), Violations: len(c.violations)}
	if e.Assumptions == nil {
		e.Assumptions = []string{}
	}
	path := filepath.Join(Out(), "evidence", c.ID+".json")
	if os.Getenv("VERIF_SHARD") != "" {
		for k := range c.keys {
			e.Keys = append(e.Keys, k)
		}
		sort.Strings(e.Keys)
		path = filepath.Join(os.Getenv("VERIF_SHARD_DIR"), fmt.Sprintf("%s.%d.json", c.ID, c.Shard))
	}
	os.MkdirAll(filepath.Dir(path), 0o755)
	b, _ := json.MarshalIndent(e, "", " ")
	if err := os.WriteFile(path, b, 0o644); err != nil {
		fmt.Printf("HARNESS-ERROR property=%s cannot write evidence: %v\n", c.ID, err)
	}
	fmt.Printf("EVIDENCE property=%s evaluations=%d distinct_nontrivial=%d violations=%d wall=%.1fs\n",
		c.ID, c.evals, len(c.keys), len(c.violations), e.WallS)
}

// ReplayFile loads VERIF_REPLAY into c and runs check on it; prints VIOLATION when it still fails.
func ReplayFile[C any](t *testing.T, id string, check func(sub string, c C) error) {
	p := os.Getenv("VERIF_REPLAY")
	if p == "" {
		t.Skip("VERIF_REPLAY not set")
	}
	b, err := os.ReadFile(p)
	if err != nil {
		t.Fatalf("HARNESS-ERROR %v", err)
	}
	var r Replay
	if err := json.Unmarshal(b, &r); err != nil {
		t.Fatalf("HARNESS-ERROR %v", err)
	}
	var c C
	if err := json.Unmarshal(r.Case, &c); err != nil {
		t.Fatalf("HARNESS-ERROR %v", err)
	}
	var cerr error
	func() {
		defer func() {
			if rec := recover(); rec != nil {
				cerr = fmt.Errorf("PANIC: %v\n%s", rec, trimStack(debug.Stack()))
			}
		}()
		cerr = check(r.Sub, c)
	}()
	if cerr != nil {
		fmt.Printf("VIOLATION property=%s replay=%s\n  error: %s\n", id, p, strings.ReplaceAll(cerr.Error(), "\n", "\n    "))
		t.Fail()
		return
	}
	fmt.Printf("REPLAY-OK property=%s replay=%s\n", id, p)
}

// ReplaySub returns the sub-check name stored in the VERIF_REPLAY file ("" if unset/unreadable).
func ReplaySub() string {
	b, err := os.ReadFile(os.Getenv("VERIF_REPLAY"))
	if err != nil {
		return ""
	}
	var r Replay
	json.Unmarshal(b, &r)
	return r.Sub
}
