package c04

import (
	"strings"
	"fmt"
	"testing"

	"pgregory.net/rapid"

	"verif/ev"
)

var known = ev.Matcher[Case]{
	// TiDB's planner plans every change on its own and orders them by fixed priorities (ModifyForeignKey before
	// AddTable and DropTable): a foreign key that keeps its name while it moves to a table created by the same plan is
	// re-pointed before that table exists; moved to the end instead, its old parent would be dropped under it
	// DROP DATABASE / DROP SCHEMA ... CASCADE is planned before the table changes of the other schemas
	"drop-schema-before-foreign-keys-into-it": func(c Case, err error) bool {
		return c.Split && c.DropSchema && strings.Contains(err.Error(), "schema crm dropped while foreign key")
	},
	"tidb-repointed-foreign-key-misordered": func(c Case, err error) bool {
		return c.Dialect == "mysql" && c.Flavour == "tidb" && c.Names == 1 && repointed(c) && strings.Contains(err.Error(), "violates the database's dependency rules")
	},
}

const rule = "exhaustive: every directed FK graph with self loops over n tables (n<=3 quick, n<=4 thorough; 2^(n*n) graphs) x every assignment of tables to {kept, created, dropped} " +
	"(edges among kept+dropped tables live in the current schema, edges among kept+created tables in the desired one, so kept tables gain FKs to created and lose FKs to dropped tables) " +
	"x {MySQL, PostgreSQL} x plan mode {unset, in-place, deferred, dump} x {one schema; for n>=2 and modes unset/in-place: two schemas (table i in schema i%2, tables 2k and 2k+1 sharing a name; changes from RealmDiff, schema-qualified SQL)} x FK naming {per edge: a re-pointed FK is drop+add; per table slot: the n-th FK of a kept table keeps its name when its parent is replaced => ModifyForeignKey}; sampled n=4 in quick; random: 5-8 tables with independent current/desired graphs (FKs added, dropped and kept between kept tables) and two-column FKs. " +
	"Changes = DefaultDiff.SchemaDiff, plan = DefaultPlan.PlanChanges. Oracle: a reference catalogue replays the plan from its SQL text (CREATE TABLE ... REFERENCES, ADD CONSTRAINT, DROP FOREIGN KEY/CONSTRAINT, DROP TABLE) " +
	"enforcing: referenced table exists when an FK is declared (self references allowed), a table is dropped only when no other table references it, nothing created/dropped twice, final catalogue == desired; PlanChanges terminates without error. " +
	"non-trivial = >=1 FK edge in the change set; distinct key = (graph, assignment, dialect, mode)"

func edgesOf(n int, mask uint32) []Edge {
	var es []Edge
	for i := 0; i < n; i++ {
		for j := 0; j < n; j++ {
			if mask&(1<<(i*n+j)) != 0 {
				es = append(es, Edge{i, j})
			}
		}
	}
	return es
}

func restrict(es []Edge, ok func(int) bool) []Edge {
	var out []Edge
	for _, e := range es {
		if ok(e.From) && ok(e.To) {
			out = append(out, e)
		}
	}
	return out
}

func mkCase(n int, mask uint32, roles []int, dialect string, mode int) Case {
	es := edgesOf(n, mask)
	c := Case{N: n, Role: roles, Dialect: dialect, Mode: mode}
	c.FromE = restrict(es, func(i int) bool { return roles[i] == kept || roles[i] == dropped })
	c.ToE = restrict(es, func(i int) bool { return roles[i] == kept || roles[i] == created })
	return c
}

func assignments(n int) [][]int {
	var out [][]int
	total := 1
	for i := 0; i < n; i++ {
		total *= 3
	}
	for a := 0; a < total; a++ {
		r := make([]int, n)
		x := a
		for i := range r {
			r[i] = x % 3
			x /= 3
		}
		out = append(out, r)
	}
	return out
}

// repointed reports whether slot naming makes some foreign key keep its name while changing its parent.
func repointed(c Case) bool {
	c.Names = 1
	fn, tn := c.namer(c.FromE), c.namer(c.ToE)
	to := map[string]int{}
	for _, e := range c.ToE {
		to[fmt.Sprint(e.From, tn(e, false))] = e.To
	}
	for _, e := range c.FromE {
		if ref, ok := to[fmt.Sprint(e.From, fn(e, false))]; ok && ref != e.To {
			return true
		}
	}
	return false
}

func genRandom(t *rapid.T) Case { return GenRandom(t) }

func mkCheck(col *ev.Collector) func(Case) error {
	return func(c Case) error {
		_, err := checkCase(c)
		sh, n := shape(c)
		col.Class(c.Dialect + "/" + sh)
		if c.Names == 1 && repointed(c) {
			col.Class(c.Dialect + "/re-pointed-fk-keeps-its-name")
		}
		if c.Split {
			col.Class(c.Dialect + "/two-schemas-with-same-named-tables/" + sh)
		}
		if c.Flavour != "" {
			col.Class("mysql-family/" + c.Flavour + "/" + sh)
		}
		if n > 0 {
			col.NonTrivial(fmt.Sprintf("%d|%v|%v|%v|%s|%d|%d|%v", c.N, c.Role, c.FromE, c.ToE, c.Dialect, c.Mode, c.Names, c.Split) + c.Flavour + fmt.Sprint(c.DropSchema, c.Cols))
		}
		col.Sample(c.Dialect+"/"+sh, c)
		return err
	}
}

func TestCheck(t *testing.T) {
	col := ev.New("C04", "exploration", rule)
	defer col.Finish()
	check := mkCheck(col)
	maxN := 3
	if col.Thorough() {
		maxN = 4
	}
	i := 0
	for n := 1; n <= maxN; n++ {
		as := assignments(n)
		for mask := uint32(0); mask < 1<<(n*n); mask++ {
			for _, roles := range as {
				for _, d := range []string{"mysql", "postgres"} {
					for mode := 0; mode < 4; mode++ {
						if n == 4 && mode != int(mask+uint32(len(roles)))%4 && mode != 0 {
							continue // n=4: default mode + one rotating mode per (graph, assignment), 10.6M plans otherwise
						}
						i++
						if !col.Mine(i) {
							continue
						}
						c := mkCase(n, mask, roles, d, mode)
						if !ev.Each(col, "exhaustive", c, check, known) {
							return
						}
						// the same case with slot-named foreign keys: a kept table's n-th FK keeps its name when it
						// moves from a dropped parent to a created/kept one, so the differ reports ModifyForeignKey
						// the same graph spread over two schemas, tables 2k and 2k+1 sharing one name
						if n >= 2 && len(c.FromE)+len(c.ToE) > 0 && mode <= 1 {
							c.Split = true
							if !ev.Each(col, "exhaustive-two-schemas", c, check, known) {
								return
							}
							// ... and the second schema dropped as a whole, when all its tables are dropped ones
							all := true
							for i, r := range roles {
								if i%2 == 1 && r != dropped {
									all = false
								}
							}
							if all && n >= 2 {
								c.DropSchema = true
								if !ev.Each(col, "exhaustive-two-schemas-drop-schema", c, check, known) {
									return
								}
								c.DropSchema = false
							}
							c.Split = false
						}
						// the planners of drivers opened against the MySQL family (TiDB orders changes by its own priorities)
						if d == "mysql" && mode == 0 && len(c.FromE)+len(c.ToE) > 0 {
							for _, fl := range []string{"tidb", "maria"} {
								c.Flavour = fl
								if !ev.Each(col, "exhaustive-mysql-family", c, check, known) {
									return
								}
								if repointed(c) {
									c.Names = 1
									if !ev.Each(col, "exhaustive-mysql-family", c, check, known) {
										return
									}
									c.Names = 0
								}
							}
							c.Flavour = ""
						}
						// keys that take their columns with them
						if d == "mysql" && mode == 0 && !c.Multi && len(c.FromE)+len(c.ToE) > 0 {
							c.Cols = true
							if !ev.Each(col, "exhaustive-keys-with-their-columns", c, check, known) {
								return
							}
							c.Cols = false
						}
						if repointed(c) {
							c.Names = 1
							if !ev.Each(col, "exhaustive-slot-names", c, check, known) {
								return
							}
						}
					}
				}
			}
		}
	}
	col.Exhaustive = true
	col.ExhScope = fmt.Sprintf("all FK graphs with self loops over n<=%d tables x all kept/created/dropped assignments x {mysql, postgres} x 4 plan modes (n=4: default mode + one rotating mode)", maxN)
	if !col.Thorough() {
		gen4 := func(t *rapid.T) Case {
			roles := make([]int, 4)
			for i := range roles {
				roles[i] = rapid.IntRange(0, 2).Draw(t, "role")
			}
			c := mkCase(4, rapid.Uint32Range(0, 1<<16-1).Draw(t, "mask"), roles, rapid.SampledFrom([]string{"mysql", "postgres"}).Draw(t, "dialect"), rapid.IntRange(0, 3).Draw(t, "mode"))
			c.Names = rapid.IntRange(0, 1).Draw(t, "names")
			c.Split = rapid.IntRange(0, 2).Draw(t, "split") == 0
			return c
		}
		if !ev.Rapid(t, col, "sampled-n4", col.N(20000, 1), gen4, check, known) {
			return
		}
	}
	ev.Rapid(t, col, "random-larger", col.N(3000, 500000), genRandom, check, known)
}

func TestReplay(t *testing.T) {
	ev.ReplayFile(t, "C04", func(_ string, c Case) error { _, err := checkCase(c); return err })
}
