// Package c04: plans respect dependencies for every foreign-key graph, including cycles.
package c04

import (
	"verif/gm"
	"context"
	"fmt"
	"regexp"
	"sort"
	"strings"
	"time"

	"ariga.io/atlas/sql/migrate"
	"ariga.io/atlas/sql/mysql"
	"ariga.io/atlas/sql/postgres"
	"ariga.io/atlas/sql/schema"
)

// Edge i -> j: table i holds a foreign key (column r<j>) referencing table j's primary key.
type Edge struct{ From, To int }

type Case struct {
	N       int    `json:"n"`       // number of tables
	Role    []int  `json:"role"`    // per table: 0 kept, 1 created, 2 dropped
	FromE   []Edge `json:"from_e"`  // FK edges present in the current schema (among kept+dropped tables)
	ToE     []Edge `json:"to_e"`    // FK edges present in the desired schema (among kept+created tables)
	Dialect string `json:"dialect"` // mysql | postgres
	Mode    int    `json:"mode"`    // migrate.PlanMode: 0 unset, 1 in-place, 2 deferred, 3 dump
	Multi   bool   `json:"multi"`   // a second, two-column FK per edge (random tier)
	Split   bool   `json:"split,omitempty"` // tables live in two schemas (table i in schema i%2) and tables 2k, 2k+1 share the name t<k>: plans are made from a realm diff and carry schema-qualified names
	// DropSchema (with Split): the desired realm no longer has the second schema at all (its tables must all be dropped ones):
	// the change set holds a DropSchema next to the table changes of the first schema
	DropSchema bool   `json:"drop_schema,omitempty"`
	// Cols (MySQL): a table has the column r<j> only while it has a foreign key to table j: a dropped key takes its column
	// with it (DropForeignKey and DropColumn in one ModifyTable), an added key brings it
	Cols    bool   `json:"cols,omitempty"`
	Flavour string `json:"flavour,omitempty"` // MySQL family: "" = mysql.DefaultPlan; mysql8 | mysql57 | maria | tidb = the planner of a driver opened against that server
	Names   int    `json:"names"`   // 0: FK named after its edge (a re-pointed FK is drop+add); 1: named after its table and slot (the n-th FK of a table keeps its name when it points elsewhere: ModifyForeignKey)
}

const (
	kept = iota
	created
	dropped
)

func tname(i int) string { return fmt.Sprintf("t%d", i) }

var schemaNames = []string{"app", "crm"}

// key is the catalogue name of table i: its name, or schema.name when the case spreads the tables over two schemas.
func (c Case) key(i int) string {
	if c.Split {
		return schemaNames[i%2] + "." + tname(i/2)
	}
	return tname(i)
}

// qual builds a catalogue key from the names found in a statement.
func (c *catalogue) qual(s, name string) string {
	if !c.split {
		return name
	}
	return s + "." + name
}

// namer returns the FK naming function for one side (current or desired) of a case.
func (c Case) namer(edges []Edge) func(e Edge, multi bool) string {
	slot := map[Edge]int{}
	if c.Names == 1 {
		byFrom := map[int][]int{}
		for _, e := range edges {
			byFrom[e.From] = append(byFrom[e.From], e.To)
		}
		for f, tos := range byFrom {
			sort.Ints(tos)
			for k, to := range tos {
				slot[Edge{f, to}] = k
			}
		}
	}
	return func(e Edge, multi bool) string {
		p := "fk"
		if multi {
			p = "fk2"
		}
		if c.Names == 1 {
			return fmt.Sprintf("%s_%d_s%d", p, e.From, slot[e])
		}
		return fmt.Sprintf("%s_%d_%d", p, e.From, e.To)
	}
}

// build creates the schema graph holding the given tables and FK edges. Every table has the same columns
// in both schemas (id, aux, and r<j>/s<j> for every other table), so the only differences are tables and FKs.
func build(c Case, tables []int, edges []Edge) *schema.Realm {
	return buildOpt(c, tables, edges, false)
}

// buildOpt: with dropSecond the realm is built without the second schema (no table may live there).
func buildOpt(c Case, tables []int, edges []Edge, dropSecond bool) *schema.Realm {
	s := schema.New("app")
	r := schema.NewRealm(s)
	ss := []*schema.Schema{s, s}
	if c.Split {
		ss[1] = schema.New("crm")
		if !dropSecond {
			r.AddSchemas(ss[1])
		}
	}
	intT := &schema.IntegerType{T: "bigint"}
	byI := map[int]*schema.Table{}
	for _, i := range tables {
		t := schema.NewTable(tname(i))
		if c.Split {
			t = schema.NewTable(tname(i / 2))
		}
		id := schema.NewColumn("id").SetType(intT)
		aux := schema.NewColumn("aux").SetType(intT)
		t.AddColumns(id, aux)
		for j := 0; j < c.N; j++ {
			if c.Cols {
				has := false
				for _, e := range edges {
					has = has || e.From == i && e.To == j
				}
				if !has {
					continue
				}
			}
			t.AddColumns(schema.NewNullColumn(fmt.Sprintf("r%d", j)).SetType(intT))
			if c.Multi {
				t.AddColumns(schema.NewNullColumn(fmt.Sprintf("s%d", j)).SetType(intT))
			}
		}
		t.SetPrimaryKey(schema.NewPrimaryKey(id))
		if c.Multi {
			t.AddIndexes(schema.NewUniqueIndex("u_" + tname(i)).AddColumns(id, aux))
		}
		ss[i%2].AddTables(t)
		byI[i] = t
	}
	fkname := c.namer(edges)
	for _, e := range edges {
		t, ref := byI[e.From], byI[e.To]
		col, _ := t.Column(fmt.Sprintf("r%d", e.To))
		rid, _ := ref.Column("id")
		t.AddForeignKeys(schema.NewForeignKey(fkname(e, false)).AddColumns(col).SetRefTable(ref).AddRefColumns(rid).SetOnDelete(schema.NoAction).SetOnUpdate(schema.NoAction))
		if c.Multi && (e.From+e.To)%2 == 0 {
			col2, _ := t.Column(fmt.Sprintf("s%d", e.To))
			raux, _ := ref.Column("aux")
			t.AddForeignKeys(schema.NewForeignKey(fkname(e, true)).AddColumns(col, col2).SetRefTable(ref).AddRefColumns(rid, raux).SetOnDelete(schema.NoAction).SetOnUpdate(schema.NoAction))
		}
	}
	return r
}

func (c Case) fromTables() (out []int) {
	for i, r := range c.Role {
		if r == kept || r == dropped {
			out = append(out, i)
		}
	}
	return
}

func (c Case) toTables() (out []int) {
	for i, r := range c.Role {
		if r == kept || r == created {
			out = append(out, i)
		}
	}
	return
}

type fkRef struct{ table, ref string }

// catalogue is the reference model that replays the plan from its SQL text.
type catalogue struct {
	tables map[string]bool
	fks    map[string]fkRef // "table.fkname" -> (table, referenced table)
	split  bool
}

func newCatalogue(c Case, tables []int, edges []Edge) *catalogue {
	cat := &catalogue{tables: map[string]bool{}, fks: map[string]fkRef{}, split: c.Split}
	for _, i := range tables {
		cat.tables[c.key(i)] = true
	}
	fkname := c.namer(edges)
	for _, e := range edges {
		cat.fks[c.key(e.From)+"."+fkname(e, false)] = fkRef{c.key(e.From), c.key(e.To)}
		if c.Multi && (e.From+e.To)%2 == 0 {
			cat.fks[c.key(e.From)+"."+fkname(e, true)] = fkRef{c.key(e.From), c.key(e.To)}
		}
	}
	return cat
}

func (c *catalogue) String() string {
	var t, f []string
	for k := range c.tables {
		t = append(t, k)
	}
	for k, v := range c.fks {
		f = append(f, k+"->"+v.ref)
	}
	sort.Strings(t)
	sort.Strings(f)
	return fmt.Sprintf("tables=%v fks=%v", t, f)
}

var (
	ident      = "[`\"]?(\\w+)[`\"]?"
	reCreate   = regexp.MustCompile("(?is)^CREATE TABLE (?:" + ident + "\\.)?" + ident)
	reDropTbl  = regexp.MustCompile("(?is)^DROP TABLE (?:" + ident + "\\.)?" + ident + "$")
	reAlter    = regexp.MustCompile("(?is)^ALTER TABLE (?:" + ident + "\\.)?" + ident + " (.*)$")
	reConstFK  = regexp.MustCompile("(?is)CONSTRAINT " + ident + " FOREIGN KEY \\([^)]*\\) REFERENCES (?:" + ident + "\\.)?" + ident)
	reIndex    = regexp.MustCompile("(?is)^(CREATE (UNIQUE )?INDEX|DROP INDEX) ")
	reDropSchema = regexp.MustCompile("(?is)^DROP (?:DATABASE|SCHEMA) " + ident + "(?: CASCADE)?$")
	reDropFK   = regexp.MustCompile("(?is)DROP (?:FOREIGN KEY|CONSTRAINT) " + ident)
)

// apply replays one planned statement, enforcing the database's FK rules.
func (c *catalogue) apply(cmd string) error {
	cmd = strings.TrimSpace(strings.TrimSuffix(strings.TrimSpace(cmd), ";"))
	switch {
	case reIndex.MatchString(cmd):
		// index statements do not take part in the table/foreign-key dependency rules checked here
	case reCreate.MatchString(cmd):
		m := reCreate.FindStringSubmatch(cmd)
		name := c.qual(m[1], m[2])
		if c.tables[name] {
			return fmt.Errorf("table %s created twice / already exists", name)
		}
		for _, m := range reConstFK.FindAllStringSubmatch(cmd, -1) {
			fk, ref := m[1], c.qual(m[2], m[3])
			if ref != name && !c.tables[ref] {
				return fmt.Errorf("CREATE TABLE %s declares %s referencing %s which does not exist yet", name, fk, ref)
			}
			c.fks[name+"."+fk] = fkRef{name, ref}
		}
		c.tables[name] = true
	case reDropSchema.MatchString(cmd):
		name := reDropSchema.FindStringSubmatch(cmd)[1]
		// every table of the schema goes; none of them may still be referenced from outside the schema
		for k, fk := range c.fks {
			if strings.HasPrefix(fk.ref, name+".") && !strings.HasPrefix(fk.table, name+".") {
				return fmt.Errorf("schema %s dropped while foreign key %s (of another schema) still references its table %s", name, k, fk.ref)
			}
		}
		for k, fk := range c.fks {
			if strings.HasPrefix(fk.table, name+".") {
				delete(c.fks, k)
			}
		}
		for t := range c.tables {
			if strings.HasPrefix(t, name+".") {
				delete(c.tables, t)
			}
		}
	case reDropTbl.MatchString(cmd):
		m := reDropTbl.FindStringSubmatch(cmd)
		name := c.qual(m[1], m[2])
		if !c.tables[name] {
			return fmt.Errorf("table %s dropped but does not exist (dropped twice?)", name)
		}
		for k, fk := range c.fks {
			if fk.ref == name && fk.table != name {
				return fmt.Errorf("table %s dropped while foreign key %s still references it", name, k)
			}
		}
		for k, fk := range c.fks {
			if fk.table == name {
				delete(c.fks, k)
			}
		}
		delete(c.tables, name)
	case reAlter.MatchString(cmd):
		m := reAlter.FindStringSubmatch(cmd)
		name, rest := c.qual(m[1], m[2]), m[3]
		if !c.tables[name] {
			return fmt.Errorf("ALTER TABLE on %s which does not exist", name)
		}
		// drops first: SQL engines apply the clauses of one ALTER left to right; Atlas emits drops before adds
		for _, d := range reDropFK.FindAllStringSubmatch(rest, -1) {
			k := name + "." + d[1]
			if _, ok := c.fks[k]; !ok {
				return fmt.Errorf("foreign key %s dropped but does not exist", k)
			}
			delete(c.fks, k)
		}
		for _, a := range reConstFK.FindAllStringSubmatch(rest, -1) {
			fk, ref := a[1], c.qual(a[2], a[3])
			if !c.tables[ref] {
				return fmt.Errorf("foreign key %s.%s added referencing %s which does not exist", name, fk, ref)
			}
			if _, dup := c.fks[name+"."+fk]; dup {
				return fmt.Errorf("foreign key %s.%s added twice", name, fk)
			}
			c.fks[name+"."+fk] = fkRef{name, ref}
		}
	default:
		return fmt.Errorf("harness: statement not understood by the reference catalogue: %s", cmd)
	}
	return nil
}

// Outcome for classification.
type Outcome struct {
	Stmts   int
	FKEdges int
	Class   string
}

func planners(d string) (schema.Differ, migrate.PlanApplier) {
	if d == "postgres" {
		return postgres.DefaultDiff, postgres.DefaultPlan
	}
	return mysql.DefaultDiff, mysql.DefaultPlan
}

func checkCase(c Case) (Outcome, error) {
	var out Outcome
	from := build(c, c.fromTables(), c.FromE)
	to := buildOpt(c, c.toTables(), c.ToE, c.Split && c.DropSchema)
	differ, planner := planners(c.Dialect)
	if c.Dialect == "mysql" && c.Flavour != "" {
		drv, err := gm.OpenMySQL(c.Flavour)
		if err != nil {
			return out, fmt.Errorf("harness: %v", err)
		}
		differ, planner = drv, drv
	}
	if c.Dialect == "postgres" && c.Flavour != "" {
		drv, err := gm.OpenPostgres(c.Flavour)
		if err != nil {
			return out, fmt.Errorf("harness: %v", err)
		}
		differ, planner = drv, drv
	}
	var (
		changes []schema.Change
		err     error
	)
	if c.Split {
		changes, err = differ.RealmDiff(from, to)
	} else {
		changes, err = differ.SchemaDiff(from.Schemas[0], to.Schemas[0])
	}
	if err != nil {
		return out, fmt.Errorf("SchemaDiff: %v", err)
	}
	popts := func(o *migrate.PlanOptions) {
		o.Mode = migrate.PlanMode(c.Mode)
		if !c.Split {
			o.SchemaQualifier = new(string)
		}
	}
	type res struct {
		plan *migrate.Plan
		err  error
	}
	// planning takes microseconds. The watchdog is there for a planner that loops: it allows minutes (a starved machine), its
	// timer is released as soon as the plan is there (millions of cases would otherwise keep millions of timers alive), and a
	// timeout counts only when a second attempt does not come back either.
	attempt := func(limit time.Duration) (res, bool) {
		ch := make(chan res, 1)
		go func() {
			p, err := planner.PlanChanges(context.Background(), "plan", changes, popts)
			ch <- res{p, err}
		}()
		timer := time.NewTimer(limit)
		defer timer.Stop()
		select {
		case r := <-ch:
			return r, true
		case <-timer.C:
			return res{}, false
		}
	}
	r, ok := attempt(300 * time.Second)
	if !ok {
		if r, ok = attempt(120 * time.Second); !ok {
			return out, fmt.Errorf("PlanChanges did not terminate (twice: within 300s and within 120s): cycle handling loops?")
		}
	}
	if r.err != nil {
		return out, fmt.Errorf("PlanChanges failed: %v", r.err)
	}
	out.Stmts = len(r.plan.Changes)
	cat := newCatalogue(c, c.fromTables(), c.FromE)
	var text strings.Builder
	for i, pc := range r.plan.Changes {
		fmt.Fprintf(&text, "    [%d] %s\n", i, strings.ReplaceAll(pc.Cmd, "\n", " "))
	}
	for i, pc := range r.plan.Changes {
		if err := cat.apply(pc.Cmd); err != nil {
			return out, fmt.Errorf("statement %d violates the database's dependency rules: %v\n  from: %s\n  plan:\n%s", i, err, newCatalogue(c, c.fromTables(), c.FromE), text.String())
		}
	}
	// the same change set planned again (what `schema apply` does: once to show, once to apply) gives the same plan;
	// a planner that edits its input would break the second one
	again, err := planner.PlanChanges(context.Background(), "plan", changes, popts)
	if err != nil {
		return out, fmt.Errorf("planning the same change set a second time failed: %v", err)
	}
	var text2 strings.Builder
	for i, pc := range again.Changes {
		fmt.Fprintf(&text2, "    [%d] %s\n", i, strings.ReplaceAll(pc.Cmd, "\n", " "))
	}
	if text2.String() != text.String() {
		return out, fmt.Errorf("planning the same change set a second time gives another plan (the planner changed its input)\n  first:\n%s  second:\n%s", text.String(), text2.String())
	}
	want := newCatalogue(c, c.toTables(), c.ToE)
	if cat.String() != want.String() {
		return out, fmt.Errorf("replaying the plan does not reach the desired catalogue:\n  got  %s\n  want %s\n  plan:\n%s", cat, want, text.String())
	}
	return out, nil
}

// shape classifies the union graph of a case.
func shape(c Case) (string, int) {
	adj := map[int][]int{}
	n := 0
	self := false
	seen := map[Edge]bool{}
	for _, es := range [][]Edge{c.FromE, c.ToE} {
		for _, e := range es {
			if seen[e] {
				continue
			}
			seen[e] = true
			n++
			if e.From == e.To {
				self = true
				continue
			}
			adj[e.From] = append(adj[e.From], e.To)
		}
	}
	// cycle detection (excluding self loops)
	color := map[int]int{}
	longest := 0
	var stack []int
	var dfs func(int)
	dfs = func(u int) {
		color[u] = 1
		stack = append(stack, u)
		for _, v := range adj[u] {
			if color[v] == 1 {
				for k := len(stack) - 1; k >= 0; k-- {
					if stack[k] == v {
						if l := len(stack) - k; l > longest {
							longest = l
						}
						break
					}
				}
			} else if color[v] == 0 {
				dfs(v)
			}
		}
		stack = stack[:len(stack)-1]
		color[u] = 2
	}
	for i := 0; i < c.N; i++ {
		if color[i] == 0 {
			dfs(i)
		}
	}
	switch {
	case n == 0:
		return "no-fk", n
	case longest == 2:
		return "2-cycle", n
	case longest > 2:
		return "longer-cycle", n
	case self:
		return "self-loop-only", n
	}
	return "acyclic", n
}
