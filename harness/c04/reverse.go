package c04

import (
	"context"
	"fmt"
	"strings"

	"ariga.io/atlas/sql/migrate"
	"ariga.io/atlas/sql/schema"

	"pgregory.net/rapid"

	"verif/gm"
)

// EnumCases lists every case of n tables (n <= 3): all role assignments x all FK graphs (self references included) for
// one dialect and plan mode. Used by C17's reverse check.
func EnumCases(n int, dialect string, mode int) []Case {
	var out []Case
	roles := func(n int) [][]int {
		var rs [][]int
		total := 1
		for i := 0; i < n; i++ {
			total *= 3
		}
		for a := 0; a < total; a++ {
			r := make([]int, n)
			x := a
			for i := range r {
				r[i] = x % 3
				x /= 3
			}
			rs = append(rs, r)
		}
		return rs
	}
	for _, r := range roles(n) {
		for mask := uint32(0); mask < 1<<(n*n); mask++ {
			c := Case{N: n, Role: r, Dialect: dialect, Mode: mode}
			for i := 0; i < n; i++ {
				for j := 0; j < n; j++ {
					if mask&(1<<(i*n+j)) == 0 {
						continue
					}
					if r[i] != created && r[j] != created {
						c.FromE = append(c.FromE, Edge{i, j})
					}
					if r[i] != dropped && r[j] != dropped {
						c.ToE = append(c.ToE, Edge{i, j})
					}
				}
			}
			out = append(out, c)
		}
	}
	return out
}

// CheckReverse (C17): the case is planned like in checkCase. When the plan is reported reversible, its statements are
// replayed on the reference catalogue and then the reverse statements, last change first: every one of them must respect
// the database's dependency rules and the catalogue must be the initial one again. Returns the number of FK edges touched
// and whether the plan was reversible.
func CheckReverse(c Case) (edges int, reversible bool, err error) {
	from := build(c, c.fromTables(), c.FromE)
	to := buildOpt(c, c.toTables(), c.ToE, c.Split && c.DropSchema)
	differ, planner := planners(c.Dialect)
	if c.Dialect == "mysql" && c.Flavour != "" {
		drv, err := gm.OpenMySQL(c.Flavour)
		if err != nil {
			return 0, false, fmt.Errorf("harness: %v", err)
		}
		differ, planner = drv, drv
	}
	if c.Dialect == "postgres" && c.Flavour != "" {
		drv, err := gm.OpenPostgres(c.Flavour)
		if err != nil {
			return 0, false, fmt.Errorf("harness: %v", err)
		}
		differ, planner = drv, drv
	}
	var changes []schema.Change
	if c.Split {
		changes, err = differ.RealmDiff(from, to)
	} else {
		changes, err = differ.SchemaDiff(from.Schemas[0], to.Schemas[0])
	}
	if err != nil {
		return 0, false, fmt.Errorf("harness: SchemaDiff: %v", err)
	}
	plan, err := planner.PlanChanges(context.Background(), "plan", changes, func(o *migrate.PlanOptions) {
		o.Mode = migrate.PlanMode(c.Mode)
		if !c.Split {
			o.SchemaQualifier = new(string)
		}
	})
	if err != nil {
		return 0, false, fmt.Errorf("harness: PlanChanges: %v", err) // C04 owns planning failures
	}
	edges = len(c.FromE) + len(c.ToE)
	if !plan.Reversible {
		return edges, false, nil
	}
	cat := newCatalogue(c, c.fromTables(), c.FromE)
	start := cat.String()
	var text strings.Builder
	for i, pc := range plan.Changes {
		rs, _ := pc.ReverseStmts()
		fmt.Fprintf(&text, "    [%d] %s\n        reverse: %s\n", i, strings.ReplaceAll(pc.Cmd, "\n", " "), strings.ReplaceAll(strings.Join(rs, " ;; "), "\n", " "))
	}
	for _, pc := range plan.Changes {
		if err := cat.apply(pc.Cmd); err != nil {
			return edges, true, nil // the forward plan itself breaks the rules: C04's finding, nothing to undo here
		}
	}
	for i := len(plan.Changes) - 1; i >= 0; i-- {
		rs, err := plan.Changes[i].ReverseStmts()
		if err != nil {
			return edges, true, fmt.Errorf("plan is reported reversible but change %d has no usable reverse: %v\n  plan:\n%s", i, err, text.String())
		}
		for _, s := range rs {
			if err := cat.apply(s); err != nil {
				return edges, true, fmt.Errorf("reverse statement of change %d violates the database's dependency rules: %v\n  statement: %s\n  plan:\n%s", i, err, s, text.String())
			}
		}
	}
	if got := cat.String(); got != start {
		return edges, true, fmt.Errorf("the plan is reported reversible, but running its reverse statements (last change first) after it does not give back the initial tables and foreign keys:\n  initial %s\n  after   %s\n  plan:\n%s", start, got, text.String())
	}
	return edges, true, nil
}

// GenRandom: 5-8 tables with independent current / desired graphs.
func GenRandom(t *rapid.T) Case {
	n := rapid.IntRange(5, 8).Draw(t, "n")
	c := Case{N: n, Dialect: rapid.SampledFrom([]string{"mysql", "postgres"}).Draw(t, "dialect"), Mode: rapid.IntRange(0, 3).Draw(t, "mode"),
		Multi: rapid.Bool().Draw(t, "multi"), Names: rapid.IntRange(0, 1).Draw(t, "names"), Split: rapid.IntRange(0, 2).Draw(t, "split") == 0}
	if c.Dialect == "mysql" {
		c.Flavour = rapid.SampledFrom([]string{"", "", "mysql8", "mysql57", "maria", "tidb"}).Draw(t, "flavour")
		c.Cols = !c.Multi && rapid.IntRange(0, 2).Draw(t, "cols") == 0
	} else {
		c.Flavour = rapid.SampledFrom([]string{"", "", "pg15", "crdb"}).Draw(t, "pgflavour")
	}
	for i := 0; i < n; i++ {
		c.Role = append(c.Role, rapid.SampledFrom([]int{kept, kept, created, dropped}).Draw(t, "role"))
	}
	dens := rapid.IntRange(1, 5).Draw(t, "density")
	for i := 0; i < n; i++ {
		for j := 0; j < n; j++ {
			if rapid.IntRange(0, 9).Draw(t, "fe") < dens && c.Role[i] != created && c.Role[j] != created {
				c.FromE = append(c.FromE, Edge{i, j})
			}
			if rapid.IntRange(0, 9).Draw(t, "te") < dens && c.Role[i] != dropped && c.Role[j] != dropped {
				c.ToE = append(c.ToE, Edge{i, j})
			}
		}
	}
	return c
}
