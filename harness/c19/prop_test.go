package c19

import (
	"fmt"
	"regexp"
	"sort"
	"strings"
	"testing"

	"pgregory.net/rapid"

	"verif/c02"
	"verif/ev"
	"verif/gm"
	"verif/model"
)

var knownSkip = ev.Matcher[SkipCase]{}
var knownEx = ev.Matcher[ExCase]{}
var _ = regexp.MustCompile("diff\\.skip\\.drop_(index|column) is set but (?:index|column) .* (?:on )?\"(\\w+)\"(?:\\.\"\\w+\")? was dropped")

var knownEng = ev.Matcher[EngCase]{
	// the skipped drop happened through the new_<table> rebuild of that very table
	"sqlite-rebuild-ignores-skip": func(c EngCase, err error) bool {
		m := err.Error()
		if !c.CLI || !strings.Contains(m, "is set but") || !strings.Contains(m, "was dropped") {
			return false
		}
		for _, l := range strings.Split(m, "\n") {
			if strings.HasPrefix(l, "diff.skip.drop_index is set but index ") {
				i := strings.Index(l, " on \"")
				if i == -1 {
					return false
				}
				t := l[i+5:]
				t = t[:strings.Index(t, "\"")]
				return strings.Contains(l, "[the plan rebuilds table "+t+"]")
			}
			if strings.HasPrefix(l, "diff.skip.drop_column is set but column ") {
				t := strings.TrimPrefix(l, "diff.skip.drop_column is set but column \"")
				t = t[:strings.Index(t, "\"")]
				return strings.Contains(l, "[the plan rebuilds table "+t+"]")
			}
		}
		return false
	},
	// only indexes left behind by the column cascade, on the real SQLite inspection path
	"sqlite-column-cascade-index": func(c EngCase, err error) bool {
		m := err.Error()
		if c.CLI || !strings.Contains(m, "disagrees with the documented semantics") {
			return false
		}
		for _, l := range strings.Split(m, "\n")[1:] {
			if l = strings.TrimSpace(l); l != "" && !strings.HasPrefix(l, "still present: index:") {
				return false
			}
		}
		return true
	},
}

const rule = "(a) skip, metamorphic, 3 dialects: the C02 base and a set of 1-8 non-interfering catalogue edits; SchemaDiff with DiffSkipChanges(K) for every single kind K and random subsets of the 12 skippable table-level kinds " +
	"must equal the unrestricted diff with every K-typed change removed at every nesting level (emptied ModifyTables removed), and walking it finds no K-typed change; " +
	"the same with a materialized view on both sides whose index list differs (added / dropped / modified index, every subset; a view added or dropped), so that index changes are also nested in a ModifyView, x every kind incl. AddView/DropView/ModifyView. " +
	"(b) exclusion, API: realms of 1-2 schemas (tables incl. names with a dot, columns, named indexes/FKs/checks) x sets of 1-4 patterns from a grammar (1-3 parts; literal, *, prefix*, ?, [ab]* classes, malformed globs (unclosed class: an error is demanded whenever the glob is applied to a name), CSV-quoted names containing a dot, [type=a|b] selectors on any part); " +
	"ExcludeRealm must remove exactly the resources an independent reference of the documented semantics says (both directions). " +
	"(c) exclusion on a real SQLite engine: InspectRealm / InspectSchema with Exclude against the same reference; CLI: `schema apply --exclude <tables>` (desired state given as database URL, HCL file, project-file data hcl_schema source with the patterns in the env, or SQL file) leaves excluded tables byte-identical (schema text + rows) while everything else converges, and `--env` with diff { skip { ... } } never performs a skipped kind of change. " +
	"non-trivial = >=1 resource excluded and >=1 kept, or >=1 change skipped and >=1 kept; distinct key = (sub-check, patterns / skipped kinds, edit kinds)"

func genPart(t *rapid.T, names []string, kinds []string) PPart {
	var p PPart
	n := rapid.SampledFrom(names).Draw(t, "name")
	switch rapid.IntRange(0, 7).Draw(t, "glob") {
	case 0:
		p.Glob = "*"
	case 1:
		p.Glob = n[:1] + "*"
	case 2:
		p.Glob = "?" + n[1:]
	case 3:
		p.Glob = "[" + n[:1] + "z]*"
	case 4:
		p.Glob = "*" + n[len(n)-1:]
	case 7:
		p.Glob = "[" + n[:1] // malformed: unclosed character class
		if rapid.Bool().Draw(t, "malformedtail") {
			p.Glob = n[:1] + "[a-"
		}
	default:
		p.Glob = n
	}
	if rapid.IntRange(0, 3).Draw(t, "sel") == 0 {
		k := min(rapid.IntRange(1, 2).Draw(t, "nsel"), len(kinds))
		perm := rapid.Permutation(kinds).Draw(t, "selkinds")
		p.Types = perm[:k]
	}
	return p
}

var allKinds = []string{"schema", "table", "view", "column", "index", "fk", "check"}

func exSchemas(t *rapid.T) []gm.Schema {
	mk := func(name string) gm.Schema {
		s := gm.Schema{Name: name}
		for _, tn := range []string{"users", "user_logs", "orders", "a.b"} {
			if rapid.IntRange(0, 4).Draw(t, "hastable") == 0 {
				continue
			}
			tb := gm.Table{Name: tn, Cols: []gm.Col{{Name: "id", Type: "bigint"}, {Name: "name", Type: "text", Null: true}, {Name: "note", Type: "text", Null: true}, {Name: "n.x", Type: "text", Null: true}},
				PK:      []gm.Part{{Col: "id"}},
				Indexes: []gm.Index{{Name: "idx_name", Parts: []gm.Part{{Col: "name"}}}, {Name: "idx_note", Parts: []gm.Part{{Col: "note"}, {Col: "name"}}}, {Name: "name", Parts: []gm.Part{{Col: "n.x"}}}},
				Checks:  []gm.Check{{Name: "ck_name", Expr: `"name" <> ''`}, {Name: "note", Expr: `"note" <> ''`}}}
			s.Tables = append(s.Tables, tb)
		}
		// self-contained FKs: name -> id of the same table (so excluding other tables does not dangle)
		for i := range s.Tables {
			s.Tables[i].FKs = []gm.FK{{Name: "fk_name", Cols: []string{"name"}, RefTable: s.Tables[i].Name, RefCols: []string{"id"}}}
		}
		return s
	}
	out := []gm.Schema{mk("s1")}
	if rapid.Bool().Draw(t, "two") {
		out = append(out, mk("s2"))
	}
	return out
}

func genEx(t *rapid.T) ExCase {
	c := ExCase{Schemas: exSchemas(t)}
	for n := rapid.IntRange(1, 4).Draw(t, "npat"); n > 0; n-- {
		k := rapid.SampledFrom([]int{1, 2, 2, 3, 3, 3}).Draw(t, "parts")
		var p Pattern
		p = append(p, genPart(t, []string{"s1", "s2"}, []string{"schema", "table"}))
		if k >= 2 {
			p = append(p, genPart(t, []string{"users", "user_logs", "orders", "a.b"}, []string{"table", "view", "column"}))
		}
		if k >= 3 {
			p = append(p, genPart(t, []string{"id", "name", "note", "n.x", "idx_name", "idx_note", "fk_name", "ck_name"}, []string{"column", "index", "fk", "check"}))
		}
		if k >= 4 {
			p = append(p, PPart{Glob: "*"})
		}
		c.Patterns = append(c.Patterns, p)
	}
	return c
}

func genEng(cliTier bool) func(t *rapid.T) EngCase {
	return func(t *rapid.T) EngCase {
		o := model.Opts{NoInlineUnique: true, WordNames: true, NoExprIndex: true}
		c := EngCase{A: model.GenSchema(t, 4, o), CLI: cliTier}
		// name every FK and check so that patterns can address them
		for ti := range c.A.Tables {
			for i := range c.A.Tables[ti].FKs {
				c.A.Tables[ti].FKs[i].Name = fmt.Sprintf("fk_%s_%d", c.A.Tables[ti].Name, i)
			}
			for i := range c.A.Tables[ti].Checks {
				c.A.Tables[ti].Checks[i].Name = fmt.Sprintf("ck_%s_%d", c.A.Tables[ti].Name, i)
			}
		}
		var tnames, cnames []string
		for _, tb := range c.A.Tables {
			tnames = append(tnames, tb.Name)
			for _, col := range tb.Cols {
				cnames = append(cnames, col.Name)
			}
			for _, ix := range tb.Indexes {
				cnames = append(cnames, ix.Name)
			}
			for _, fk := range tb.FKs {
				cnames = append(cnames, fk.Name)
			}
			for _, ck := range tb.Checks {
				cnames = append(cnames, ck.Name)
			}
		}
		c.Native = rapid.IntRange(0, 2).Draw(t, "native") == 0
		if cliTier {
			c.B = c.A.Clone()
			for n := rapid.IntRange(1, 4).Draw(t, "nedits"); n > 0; n-- {
				if k := model.Edit(t, &c.B, o, nil); k != "" {
					c.Edits = append(c.Edits, k)
				}
			}
			switch rapid.IntRange(0, 2).Draw(t, "what") {
			case 0:
				// one to three patterns: a resource may be matched by a later pattern of the list only
				for n := rapid.IntRange(1, 3).Draw(t, "npat"); n > 0; n-- {
					p := Pattern{genPart(t, tnames, []string{"table"})}
					p[0].Types = nil
					c.Patterns = append(c.Patterns, p)
				}
			case 1:
				c.Skip = []string{rapid.SampledFrom([]string{"drop_table", "drop_index", "add_table", "drop_column"}).Draw(t, "skip")}
			default:
				c.Patterns = []Pattern{{{Glob: rapid.SampledFrom(tnames).Draw(t, "extable")}}}
				if rapid.Bool().Draw(t, "two") {
					c.Patterns = append(c.Patterns, Pattern{{Glob: rapid.SampledFrom(tnames).Draw(t, "extable2")}})
				}
				c.Skip = []string{rapid.SampledFrom([]string{"drop_table", "drop_index", "add_table"}).Draw(t, "skip")}
			}
			// make sure the desired state asks for a change of the skipped kind (otherwise the policy has nothing to stop)
			if len(c.Skip) > 0 {
				want := map[string]string{"drop_table": "drop-table", "drop_index": "drop-index", "add_table": "add-table", "drop_column": "drop-column"}[c.Skip[0]]
				oo := o
				oo.Kinds = []string{want}
				for try := 0; try < 3; try++ {
					if k := model.Edit(t, &c.B, oo, nil); k != "" {
						c.Edits = append(c.Edits, k)
						break
					}
				}
			}
			c.Source = rapid.IntRange(0, 3).Draw(t, "source")
			if len(c.Skip) > 0 {
				c.Layout = rapid.IntRange(0, 3).Draw(t, "layout")
			}
			return c
		}
		for n := rapid.IntRange(1, 3).Draw(t, "npat"); n > 0; n-- {
			p := Pattern{genPart(t, tnames, []string{"table", "view"})}
			if rapid.Bool().Draw(t, "child") {
				p = append(p, genPart(t, cnames, []string{"column", "index", "fk", "check"}))
			}
			c.Patterns = append(c.Patterns, p)
		}
		return c
	}
}

func genSkip(t *rapid.T) SkipCase {
	d := rapid.SampledFrom([]string{"mysql", "postgres", "sqlite"}).Draw(t, "dialect")
	c := SkipCase{Dialect: d}
	sites := c02.Sites(d, c02.Base(d))
	perm := rapid.Permutation(sites).Draw(t, "sites")
	n := rapid.IntRange(1, 8).Draw(t, "nedits")
	var chosen []c02.Site
	for _, s := range perm {
		if len(chosen) == n {
			break
		}
		ok := true
		for _, x := range chosen {
			if c02.Conflict(x, s) {
				ok = false
			}
		}
		if ok {
			chosen = append(chosen, s)
			c.Edits = append(c.Edits, s.E)
		}
	}
	ks := rapid.Permutation(SkipKindNames()).Draw(t, "kinds")
	c.Skip = ks[:rapid.IntRange(1, 4).Draw(t, "nskip")]
	sort.Strings(c.Skip)
	if rapid.IntRange(0, 2).Draw(t, "withview") == 0 {
		c.View = rapid.SliceOfNDistinct(rapid.SampledFrom([]string{"add-index", "drop-index", "modify-index", "view-add", "view-drop"}), 1, 4, rapid.ID[string]).Draw(t, "viewops")
		sort.Strings(c.View)
	}
	return c
}

func TestCheck(t *testing.T) {
	col := ev.New("C19", "exploration", rule)
	defer col.Finish()
	checkS := func(c SkipCase) error {
		out, err := checkSkip(c)
		col.Class("skip/" + c.Dialect)
		if len(c.View) > 0 {
			col.Class("skip/" + c.Dialect + "/view-indexes")
		}
		if out.Full > out.Kept && out.Kept > 0 {
			var ks []string
			for _, e := range c.Edits {
				ks = append(ks, e.Kind)
			}
			sort.Strings(ks)
			col.NonTrivial(fmt.Sprintf("skip|%s|%v|%s|%v", c.Dialect, c.Skip, strings.Join(ks, ","), c.View))
		}
		col.Sample("skip/"+c.Dialect, c)
		return err
	}
	// every single kind against every single catalogue edit
	for _, d := range []string{"mysql", "postgres", "sqlite"} {
		for _, s := range c02.Sites(d, c02.Base(d)) {
			for _, k := range SkipKindNames() {
				if !ev.Each(col, "skip-enumerated", SkipCase{Dialect: d, Edits: []c02.EditRef{s.E}, Skip: []string{k}}, checkS, knownSkip) {
					return
				}
			}
		}
	}
	// a materialized view whose index list differs (every non-empty subset of the view operations) x every single kind,
	// with and without an unrelated table edit
	viewOps := []string{"add-index", "drop-index", "modify-index", "view-add", "view-drop"}
	for _, d := range []string{"mysql", "postgres", "sqlite"} {
		for mask := 1; mask < 1<<len(viewOps); mask++ {
			var ops []string
			for i, o := range viewOps {
				if mask&(1<<i) != 0 {
					ops = append(ops, o)
				}
			}
			for _, k := range append([]string{""}, SkipKindNames()...) {
				c := SkipCase{Dialect: d, View: ops}
				if k != "" {
					c.Skip = []string{k}
				}
				if mask%2 == 0 {
					c.Edits = []c02.EditRef{{Kind: "add-index", Table: "logs", Obj: "zz_idx_lfree1", Arg: "lfree1"}}
				}
				if !ev.Each(col, "skip-view-indexes", c, checkS, knownSkip) {
					return
				}
			}
		}
	}
	if !ev.Rapid(t, col, "skip-random", col.N(3000, 300000), genSkip, checkS, knownSkip) {
		return
	}
	checkE := func(c ExCase) error {
		out, err := checkExclude(c)
		col.Class(fmt.Sprintf("exclude-api/patterns=%d", len(c.Patterns)))
		if out.Excluded > 0 && out.Kept > 0 {
			var ps []string
			for _, p := range c.Patterns {
				ps = append(ps, p.String())
			}
			col.NonTrivial("exclude-api|" + strings.Join(ps, " "))
		}
		col.Sample("exclude-api", c)
		return err
	}
	if !ev.Rapid(t, col, "exclude-api", col.N(6000, 600000), genEx, checkE, knownEx) {
		return
	}
	checkG := func(c EngCase) error {
		out, err := checkEngine(c)
		tier := "exclude-engine"
		if c.CLI {
			tier = "cli"
			col.Class("cli/desired-state-source=" + []string{"database-url", "hcl-file", "hcl_schema-data-source", "sql-file"}[c.Source])
			if len(c.Skip) > 0 {
				col.Class("cli/skip-policy-layout=" + []string{"env-block", "project-block", "project-block-extended-by-env", "project-block-and-empty-env-block"}[c.Layout])
			}
		}
		col.Class(tier)
		if out.Excluded > 0 && out.Kept > 0 || len(c.Skip) > 0 {
			var ps []string
			for _, p := range c.Patterns {
				ps = append(ps, p.String())
			}
			col.NonTrivial(fmt.Sprintf("%s|%s|%v|%v|%d|%d", tier, strings.Join(ps, " "), c.Skip, c.Edits, c.Source, c.Layout))
		}
		col.Sample(tier, c)
		return err
	}
	if !ev.Rapid(t, col, "exclude-engine", col.N(1500, 200000), genEng(false), checkG, knownEng) {
		return
	}
	ev.Rapid(t, col, "cli-exclude-and-skip", col.N(80, 4000), genEng(true), checkG, knownEng)
}

func TestReplay(t *testing.T) {
	switch sub := ev.ReplaySub(); {
	case strings.HasPrefix(sub, "skip"):
		ev.ReplayFile(t, "C19", func(_ string, c SkipCase) error { _, err := checkSkip(c); return err })
	case sub == "exclude-api":
		ev.ReplayFile(t, "C19", func(_ string, c ExCase) error { _, err := checkExclude(c); return err })
	default:
		ev.ReplayFile(t, "C19", func(_ string, c EngCase) error { _, err := checkEngine(c); return err })
	}
}
