package c19

import (
	"fmt"
	"path"
	"sort"
	"strings"

	"ariga.io/atlas/sql/schema"

	"verif/gm"
)

// PPart is one dot-separated part of an exclude pattern.
type PPart struct {
	Glob  string   `json:"glob"`
	Types []string `json:"types,omitempty"` // [type=a|b] selector
}

type Pattern []PPart

// String renders the documented syntax: parts joined by '.', a part containing a dot is double-quoted (CSV rules).
func (p Pattern) String() string {
	var out []string
	for _, x := range p {
		g := x.Glob
		sel := ""
		if len(x.Types) > 0 {
			sel = "[type=" + strings.Join(x.Types, "|") + "]"
		}
		if strings.ContainsAny(g+sel, `."`) {
			out = append(out, `"`+strings.ReplaceAll(g+sel, `"`, `""`)+`"`)
		} else {
			out = append(out, g+sel)
		}
	}
	return strings.Join(out, ".")
}

func (x PPart) allows(kind string) bool {
	if len(x.Types) == 0 {
		return true
	}
	for _, t := range x.Types {
		if t == kind {
			return true
		}
	}
	return false
}

func (x PPart) match(name string) bool {
	ok, err := path.Match(x.Glob, name)
	return err == nil && ok
}

// matchE is match that also notes a malformed glob being applied to a name.
func (x PPart) matchE(name, key string, bad *[]string) bool {
	ok, err := path.Match(x.Glob, name)
	if err != nil {
		*bad = append(*bad, key)
	}
	return err == nil && ok
}

// ExCase: a realm of 1-2 schemas and a set of patterns.
type ExCase struct {
	Schemas  []gm.Schema `json:"schemas"`
	Patterns []Pattern   `json:"patterns"`
}

// inventory lists every resource of a realm as "kind:schema.table.child".
func inventory(r *schema.Realm) map[string]bool {
	out := map[string]bool{}
	for _, s := range r.Schemas {
		out["schema:"+s.Name] = true
		for _, t := range s.Tables {
			out["table:"+s.Name+"/"+t.Name] = true
			for _, c := range t.Columns {
				out["column:"+s.Name+"/"+t.Name+"/"+c.Name] = true
			}
			for _, i := range t.Indexes {
				out["index:"+s.Name+"/"+t.Name+"/"+i.Name] = true
			}
			for _, f := range t.ForeignKeys {
				out["fk:"+s.Name+"/"+t.Name+"/"+f.Symbol] = true
			}
			for _, a := range t.Attrs {
				if c, ok := a.(*schema.Check); ok {
					out["check:"+s.Name+"/"+t.Name+"/"+c.Name] = true
				}
			}
		}
	}
	return out
}

// reference computes, from the model and the documented semantics, which resources must be absent, which must
// remain, and which are unspecified (cascade from an excluded column when a selector restricts the kinds).
func reference(schemas []gm.Schema, pats []Pattern) (absent, unspecified map[string]bool, wantErr bool) {
	absent, unspecified = map[string]bool{}, map[string]bool{}
	var bad []string // the resources a malformed glob was applied to
	for _, p := range pats {
		if len(p) > 3 || len(p) == 0 {
			return nil, nil, true
		}
	}
	for _, s := range schemas {
		for _, p := range pats {
			if !p[0].allows("schema") || !p[0].matchE(s.Name, "schema:"+s.Name, &bad) {
				continue
			}
			if len(p) == 1 {
				absent["schema:"+s.Name] = true
				continue
			}
			for _, t := range s.Tables {
				if !p[1].allows("table") || !p[1].matchE(t.Name, "table:"+s.Name+"/"+t.Name, &bad) {
					continue
				}
				if len(p) == 2 {
					absent["table:"+s.Name+"/"+t.Name] = true
					continue
				}
				pre := s.Name + "/" + t.Name + "/"
				for _, c := range t.Cols {
					if p[2].allows("column") && p[2].matchE(c.Name, "column:"+pre+c.Name, &bad) {
						absent["column:"+pre+c.Name] = true
						// excluding a column removes the indexes and foreign keys that use it
						for _, ix := range t.Indexes {
							for _, part := range ix.Parts {
								if part.Col == c.Name {
									if p[2].allows("index") {
										absent["index:"+pre+ix.Name] = true
									} else {
										unspecified["index:"+pre+ix.Name] = true
									}
								}
							}
						}
						for _, fk := range t.FKs {
							for _, fc := range fk.Cols {
								if fc == c.Name {
									if p[2].allows("fk") {
										absent["fk:"+pre+fk.Name] = true
									} else {
										unspecified["fk:"+pre+fk.Name] = true
									}
								}
							}
						}
					}
				}
				for _, ix := range t.Indexes {
					if p[2].allows("index") && p[2].matchE(ix.Name, "index:"+pre+ix.Name, &bad) {
						absent["index:"+pre+ix.Name] = true
					}
				}
				for _, fk := range t.FKs {
					if p[2].allows("fk") && p[2].matchE(fk.Name, "fk:"+pre+fk.Name, &bad) {
						absent["fk:"+pre+fk.Name] = true
					}
				}
				for _, ck := range t.Checks {
					if p[2].allows("check") && p[2].matchE(ck.Name, "check:"+pre+ck.Name, &bad) {
						absent["check:"+pre+ck.Name] = true
					}
				}
			}
		}
	}
	// patterns are applied one after the other to what the earlier ones left: a malformed glob must fail the call when it
	// meets a resource that no pattern removes; when it meets only resources that other patterns remove, both outcomes are possible
	for _, k := range bad {
		if !absent[k] && !under(k, absent) && !unspecified[k] {
			return absent, unspecified, true
		}
	}
	if len(bad) > 0 {
		unspecified["error"] = true
	}
	return absent, unspecified, false
}

// under reports whether resource key k lives under an absent schema/table.
func under(k string, absent map[string]bool) bool {
	i := strings.Index(k, ":")
	parts := strings.SplitN(k[i+1:], "/", 3)
	if absent["schema:"+parts[0]] {
		return true
	}
	return len(parts) >= 2 && absent["table:"+parts[0]+"/"+parts[1]]
}

func buildRealm(schemas []gm.Schema) (*schema.Realm, error) {
	r := schema.NewRealm()
	for _, m := range schemas {
		s, err := gm.Build("postgres", m)
		if err != nil {
			return nil, err
		}
		r.AddSchemas(s)
	}
	return r, nil
}

type ExOutcome struct {
	Excluded, Kept int
}

func checkExclude(c ExCase) (ExOutcome, error) {
	var out ExOutcome
	r, err := buildRealm(c.Schemas)
	if err != nil {
		return out, fmt.Errorf("harness: %v", err)
	}
	before := inventory(r)
	var pats []string
	for _, p := range c.Patterns {
		pats = append(pats, p.String())
	}
	absent, unspecified, wantErr := reference(c.Schemas, c.Patterns)
	got, err := schema.ExcludeRealm(r, pats)
	if wantErr {
		if err == nil {
			return out, fmt.Errorf("patterns %q: a pattern with more than three parts, or a malformed glob that is applied to a name, was accepted without an error (ExcludeRealm result: %d resources left of %d)", pats, len(inventory(got)), len(before))
		}
		return out, nil
	}
	if err != nil && unspecified["error"] {
		return out, nil // a malformed glob that met only resources removed by other patterns
	}
	if err != nil {
		return out, fmt.Errorf("ExcludeRealm(%q) failed: %v", pats, err)
	}
	after := inventory(got)
	var problems []string
	for k := range before {
		mustBeAbsent := absent[k] || under(k, absent)
		switch {
		case unspecified[k] && !under(k, absent) && !directly(k, c.Schemas, c.Patterns):
			// removed only through the cascade from an excluded column, and some pattern that excludes that column
			// restricts the kinds with a selector: the documentation does not say whether the cascade applies
		case mustBeAbsent && after[k]:
			problems = append(problems, "still present: "+k)
		case !mustBeAbsent && !after[k]:
			problems = append(problems, "wrongly removed: "+k)
		}
		if mustBeAbsent {
			out.Excluded++
		} else {
			out.Kept++
		}
	}
	for k := range after {
		if !before[k] {
			problems = append(problems, "appeared: "+k)
		}
	}
	if len(problems) > 0 {
		sort.Strings(problems)
		return out, fmt.Errorf("ExcludeRealm with patterns %q disagrees with the documented semantics:\n  %s", pats, strings.Join(problems, "\n  "))
	}
	return out, nil
}

// directly reports whether an index / fk key is matched by name by some 3-part pattern (not through a column cascade).
func directly(k string, schemas []gm.Schema, pats []Pattern) bool {
	i := strings.Index(k, ":")
	kind, parts := k[:i], strings.SplitN(k[i+1:], "/", 3)
	if len(parts) != 3 {
		return false
	}
	for _, p := range pats {
		if len(p) == 3 && p[0].allows("schema") && p[0].match(parts[0]) && p[1].allows("table") && p[1].match(parts[1]) && p[2].allows(kind) && p[2].match(parts[2]) {
			return true
		}
	}
	return false
}
