package c19

import (
	"path"
	"context"
	"fmt"
	"os"
	"sort"
	"strings"

	"ariga.io/atlas/sql/schema"

	"verif/cli"
	"verif/eng"
	"verif/gm"
	"verif/model"
	"verif/sqliteref"
)

// EngCase: a real SQLite database inspected with Exclude patterns, and `schema apply --exclude` / diff.skip through the CLI.
type EngCase struct {
	A        model.Schema `json:"a"`
	B        model.Schema `json:"b"`
	Patterns []Pattern    `json:"patterns"` // relative to the schema: table | table.child
	Skip     []string     `json:"skip"`     // diff.skip policy entries (snake case), CLI tier
	CLI      bool         `json:"cli"`
	Edits    []string     `json:"edits"`
	// Source of the desired state (CLI tier): 0 the reference database URL; 1 file://schema.hcl; 2 a project file with a
	// data "hcl_schema" source and the patterns in the env's exclude attribute; 3 file://schema.sql (with a dev database).
	// The HCL / SQL documents are written by the real `atlas schema inspect` of the reference database.
	Source int `json:"source,omitempty"`
	// Layout of the skip policy in the project file: 0 the env's own diff block; 1 a project-level diff block, env without
	// one; 2 a project-level diff block with the skip policy and an env diff block that holds another setting only
	// (the layout of the doc comment of Diff.Extend: the env block extends the global one)
	// 3: a project-level diff block and an env whose own diff block is empty
	Layout int `json:"layout,omitempty"`
	// Native: the current database is created from DDL the way a person writes it (double-quoted or bare identifiers, inline
	// constraints, lower-case `constraint` keyword) instead of the shape Atlas emits
	Native bool `json:"native,omitempty"`
}

// toGM reduces the SQLite model to the names the exclusion semantics care about.
func toGM(s model.Schema) gm.Schema {
	out := gm.Schema{Name: "main"}
	for _, t := range s.Tables {
		gt := gm.Table{Name: t.Name}
		for _, c := range t.Cols {
			gt.Cols = append(gt.Cols, gm.Col{Name: c.Name})
		}
		for _, ix := range t.Indexes {
			gi := gm.Index{Name: ix.Name}
			for _, p := range ix.Parts {
				gi.Parts = append(gi.Parts, gm.Part{Col: p.Col})
			}
			gt.Indexes = append(gt.Indexes, gi)
		}
		for _, fk := range t.FKs {
			gt.FKs = append(gt.FKs, gm.FK{Name: fk.Name, Cols: fk.Cols})
		}
		for _, ck := range t.Checks {
			gt.Checks = append(gt.Checks, gm.Check{Name: ck.Name})
		}
		out.Tables = append(out.Tables, gt)
	}
	return out
}

func checkEngine(c EngCase) (ExOutcome, error) {
	model.SettleShortFKs(&c.A, &c.B)
	model.SettleShortFKs(&c.B, &c.A)
	if c.CLI {
		return checkCLI(c)
	}
	var out ExOutcome
	ctx := context.Background()
	db, err := eng.New(ctx)
	if err != nil {
		return out, fmt.Errorf("harness: %v", err)
	}
	defer db.Close()
	if err := db.Exec(c.A.DDL(styleOf(c))...); err != nil {
		return out, fmt.Errorf("harness: %v", err)
	}
	full, err := db.Inspect(ctx)
	if err != nil {
		return out, fmt.Errorf("inspect: %v", err)
	}
	before := inventory(full)
	var rel, qualified []string
	var qp []Pattern
	for _, p := range c.Patterns {
		rel = append(rel, p.String())
		q := append(Pattern{{Glob: "main"}}, p...)
		qp = append(qp, q)
		qualified = append(qualified, q.String())
	}
	absent, unspecified, wantErr := reference([]gm.Schema{toGM(c.A)}, qp)
	// the names are those of the database (the model): a named foreign key or check the pattern asks to leave out must be known
	// to the inspection under that name, otherwise the pattern cannot reach it and the resource stays in
	for k := range absent {
		if (strings.HasPrefix(k, "fk:") || strings.HasPrefix(k, "check:")) && !strings.HasSuffix(k, "/") && !before[k] && !under(k, absent) {
			var have []string
			for b := range before {
				if strings.HasPrefix(b, k[:strings.LastIndex(k, "/")+1]) {
					have = append(have, b)
				}
			}
			sort.Strings(have)
			return out, fmt.Errorf("Exclude %q names %s, which the database has (DDL below), but the inspection does not know it by that name, so the pattern cannot leave it out; the inspection has %v\n  %s", rel, k, have, strings.Join(c.A.DDL(styleOf(c)), ";\n  "))
		}
	}
	compare := func(what string, got map[string]bool) error {
		var problems []string
		for k := range before {
			if strings.HasPrefix(k, "fk:") && isUintSuffix(k) {
				continue // unnamed foreign keys carry positional pseudo-names
			}
			must := absent[k] || under(k, absent)
			switch {
			case unspecified[k] && !under(k, absent) && !directly(k, []gm.Schema{toGM(c.A)}, qp):
			case must && got[k]:
				problems = append(problems, "still present: "+k)
			case !must && !got[k]:
				problems = append(problems, "wrongly removed: "+k)
			}
		}
		if len(problems) > 0 {
			sort.Strings(problems)
			return fmt.Errorf("%s with Exclude %q disagrees with the documented semantics:\n  %s", what, rel, strings.Join(problems, "\n  "))
		}
		return nil
	}
	r1, err := db.Client.InspectRealm(ctx, &schema.InspectRealmOption{Exclude: qualified})
	if wantErr || err != nil && unspecified["error"] {
		_, err2 := db.Client.InspectSchema(ctx, "main", &schema.InspectOptions{Exclude: rel})
		if wantErr && (err == nil || err2 == nil) {
			return out, fmt.Errorf("Exclude %q holds a malformed glob that is applied to a name, but inspection returns no error (InspectRealm: %v, InspectSchema: %v; InspectRealm result: %d of %d resources left)", rel, err, err2, len(inventory(r1)), len(before))
		}
		return out, nil
	}
	if err != nil {
		return out, fmt.Errorf("InspectRealm(Exclude=%q): %v", qualified, err)
	}
	if err := compare("InspectRealm", inventory(r1)); err != nil {
		return out, err
	}
	s1, err := db.Client.InspectSchema(ctx, "main", &schema.InspectOptions{Exclude: rel})
	if err != nil {
		return out, fmt.Errorf("InspectSchema(Exclude=%q): %v", rel, err)
	}
	if err := compare("InspectSchema", inventory(schema.NewRealm(s1))); err != nil {
		return out, err
	}
	for k := range before {
		if absent[k] || under(k, absent) {
			out.Excluded++
		} else {
			out.Kept++
		}
	}
	return out, nil
}

func isUintSuffix(k string) bool {
	i := strings.LastIndex(k, "/")
	s := k[i+1:]
	if s == "" {
		return false
	}
	for _, r := range s {
		if r < '0' || r > '9' {
			return false
		}
	}
	return true
}

func tableDump(path string, tables []string) (string, error) {
	db, err := sqliteref.OpenFile(path)
	if err != nil {
		return "", err
	}
	defer db.Close()
	var b strings.Builder
	for _, t := range tables {
		rows, err := sqliteref.QueryStrings(db, "SELECT type || ' ' || name || ' ' || IFNULL(sql, '') FROM sqlite_master WHERE tbl_name = ? ORDER BY type, name", t)
		if err != nil {
			return "", err
		}
		b.WriteString(t + ":\n  " + strings.Join(rows, "\n  ") + "\n")
		if len(rows) > 0 {
			data, err := sqliteref.TableRows(db, t, true)
			if err != nil {
				return "", err
			}
			b.WriteString("  rows: " + strings.Join(data, " ; ") + "\n")
		}
	}
	return b.String(), nil
}

// checkCLI: `atlas schema apply --exclude <tables>` (and/or an --env with diff.skip): excluded tables are byte-identical
// afterwards, skipped kinds of change did not happen, everything else converges to the desired schema.
func checkCLI(c EngCase) (ExOutcome, error) {
	model.SettleShortFKs(&c.A, &c.B)
	model.SettleShortFKs(&c.B, &c.A)
	var out ExOutcome
	sb, err := cli.NewSandbox()
	if err != nil {
		return out, fmt.Errorf("harness: %v", err)
	}
	defer sb.Close()
	cur, ref := sb.Path("cur.db"), sb.Path("ref.db")
	exec := func(p string, stmts []string) error {
		db, err := sqliteref.OpenFile(p)
		if err != nil {
			return err
		}
		defer db.Close()
		for _, s := range append([]string{"PRAGMA user_version = 0"}, stmts...) {
			if _, err := db.Exec(s); err != nil {
				return fmt.Errorf("%v in %s", err, s)
			}
		}
		return nil
	}
	if err := exec(cur, c.A.DDL(styleOf(c))); err != nil {
		return out, fmt.Errorf("harness: %v", err)
	}
	var rows []string
	for _, t := range c.A.Tables {
		if t.Col("k") != nil && len(t.Cols) >= 1 {
			rows = append(rows, fmt.Sprintf("INSERT INTO %s (k) VALUES (1), (2)", sqliteref.QuoteIdent(t.Name)))
		}
	}
	_ = rows
	if err := exec(ref, c.B.DDL(model.StyleAtlas)); err != nil {
		return out, fmt.Errorf("harness: %v", err)
	}
	// excluded tables: those matching a one-part pattern
	excluded := map[string]bool{}
	names := map[string]bool{}
	for _, s := range []model.Schema{c.A, c.B} {
		for _, t := range s.Tables {
			names[t.Name] = true
			for _, p := range c.Patterns {
				if len(p) == 1 && p[0].allows("table") && p[0].match(t.Name) {
					excluded[t.Name] = true
				}
			}
		}
	}
	var exl []string
	for n := range excluded {
		exl = append(exl, n)
	}
	sort.Strings(exl)
	before, err := tableDump(cur, exl)
	if err != nil {
		return out, fmt.Errorf("harness: %v", err)
	}
	curBefore, err := catalog(cur)
	if err != nil {
		return out, fmt.Errorf("harness: %v", err)
	}
	to := "sqlite://" + ref
	switch c.Source {
	case 1, 2:
		ri := sb.Run("schema", "inspect", "--url", "sqlite://"+ref)
		if ri.Code != 0 {
			return out, fmt.Errorf("harness: schema inspect of the reference database failed: %v", ri)
		}
		sb.WriteFile("schema.hcl", ri.Stdout)
		to = "file://schema.hcl"
	case 3:
		ri := sb.Run("schema", "inspect", "--url", "sqlite://"+ref, "--format", "{{ sql . }}")
		if ri.Code != 0 {
			return out, fmt.Errorf("harness: schema inspect of the reference database failed: %v", ri)
		}
		sb.WriteFile("schema.sql", ri.Stdout)
		to = "file://schema.sql"
	}
	args := []string{"schema", "apply", "--url", "sqlite://" + cur, "--to", to, "--auto-approve"}
	if c.Source != 0 {
		args = append(args, "--dev-url", "sqlite://dev?mode=memory")
	}
	for _, p := range c.Patterns {
		args = append(args, "--exclude", p.String())
	}
	skipBlock := ""
	if len(c.Skip) > 0 {
		var b strings.Builder
		b.WriteString("  diff {\n    skip {\n")
		for _, k := range c.Skip {
			fmt.Fprintf(&b, "      %s = true\n", k)
		}
		b.WriteString("    }\n  }\n")
		skipBlock = b.String()
	}
	switch {
	case c.Source == 2:
		// everything comes from the project file: the data source, the target URL and the exclude patterns
		var pats []string
		for _, p := range c.Patterns {
			pats = append(pats, fmt.Sprintf("%q", p.String()))
		}
		global, envSkip := "", skipBlock
		switch {
		case c.Layout == 1 && skipBlock != "":
			global, envSkip = strings.ReplaceAll(skipBlock, "\n  ", "\n")[2:], ""
		case c.Layout == 2 && skipBlock != "":
			global, envSkip = strings.ReplaceAll(skipBlock, "\n  ", "\n")[2:], "  diff {\n    concurrent_index {\n      create = true\n    }\n  }\n"
		case c.Layout == 3 && skipBlock != "":
			global, envSkip = strings.ReplaceAll(skipBlock, "\n  ", "\n")[2:], "  diff {\n  }\n"
		}
		sb.WriteFile("atlas.hcl", fmt.Sprintf("%sdata \"hcl_schema\" \"app\" {\n  path = \"schema.hcl\"\n}\nenv \"x\" {\n  src = data.hcl_schema.app.url\n  url = %q\n  dev = \"sqlite://dev?mode=memory\"\n  exclude = [%s]\n%s}\n",
			global, "sqlite://"+cur, strings.Join(pats, ", "), envSkip))
		args = []string{"schema", "apply", "--env", "x", "-c", "file://atlas.hcl", "--auto-approve"}
	case len(c.Skip) > 0:
		switch c.Layout {
		case 1:
			sb.WriteFile("atlas.hcl", strings.ReplaceAll(skipBlock, "\n  ", "\n")[2:]+"env \"x\" {\n}\n")
		case 2:
			sb.WriteFile("atlas.hcl", strings.ReplaceAll(skipBlock, "\n  ", "\n")[2:]+"env \"x\" {\n  diff {\n    concurrent_index {\n      create = true\n    }\n  }\n}\n")
		case 3:
			sb.WriteFile("atlas.hcl", strings.ReplaceAll(skipBlock, "\n  ", "\n")[2:]+"env \"x\" {\n  diff {\n  }\n}\n")
		default:
			sb.WriteFile("atlas.hcl", "env \"x\" {\n"+skipBlock+"}\n")
		}
		args = append(args, "--env", "x", "-c", "file://atlas.hcl")
	}
	r := sb.Run(args...)
	// a malformed glob: the command must fail when the glob meets a name no pattern removes, and may fail otherwise
	malformed := false
	for _, p := range c.Patterns {
		for _, x := range p {
			if _, err := path.Match(x.Glob, ""); err != nil {
				malformed = true
			}
		}
	}
	if malformed {
		var qp []Pattern
		for _, p := range c.Patterns {
			qp = append(qp, append(Pattern{{Glob: "main"}}, p...))
		}
		_, _, wantA := reference([]gm.Schema{toGM(c.A)}, qp)
		_, _, wantB := reference([]gm.Schema{toGM(c.B)}, qp)
		refused := r.Code != 0 && strings.Contains(r.Stderr, "syntax error in pattern")
		if (wantA || wantB) && !refused {
			return out, fmt.Errorf("--exclude holds a malformed glob that is applied to a name, but the command does not fail with a pattern error: %v", r)
		}
		if refused {
			return out, nil
		}
	}
	if r.Code != 0 {
		return out, fmt.Errorf("schema apply failed: %v", r)
	}
	after, err := tableDump(cur, exl)
	if err != nil {
		return out, fmt.Errorf("harness: %v", err)
	}
	if before != after {
		return out, fmt.Errorf("tables excluded with %v were touched by `schema apply`:\n before:\n%s\n after:\n%s\n%v", c.Patterns, before, after, r)
	}
	curAfter, err := catalog(cur)
	if err != nil {
		return out, fmt.Errorf("harness: %v", err)
	}
	want, err := catalog(ref)
	if err != nil {
		return out, fmt.Errorf("harness: %v", err)
	}
	skip := map[string]bool{}
	for _, k := range c.Skip {
		skip[k] = true
	}
	// skipped kinds of change did not happen
	for tn, tb := range curBefore.Tables {
		if excluded[tn] {
			continue
		}
		ta, ok := curAfter.Tables[tn]
		if !ok {
			if skip["drop_table"] {
				return out, fmt.Errorf("diff.skip.drop_table is set but table %q was dropped\n%v", tn, r)
			}
			continue
		}
		if skip["drop_column"] {
			for cn := range tb.Columns {
				if _, ok := ta.Columns[cn]; !ok {
					return out, fmt.Errorf("diff.skip.drop_column is set but column %q.%q was dropped%s\n%v", tn, cn, rebuilt(r.Stdout, tn), r)
				}
			}
		}
		if skip["drop_index"] {
			have := map[string]bool{}
			for _, ix := range ta.Indexes {
				have[ix.Name] = true
			}
			for _, ix := range tb.Indexes {
				if ix.Name != "" && !have[ix.Name] {
					return out, fmt.Errorf("diff.skip.drop_index is set but index %q on %q was dropped%s\n%v", ix.Name, tn, rebuilt(r.Stdout, tn), r)
				}
			}
		}
	}
	for tn := range curAfter.Tables {
		if _, ok := curBefore.Tables[tn]; !ok && skip["add_table"] {
			return out, fmt.Errorf("diff.skip.add_table is set but table %q was created\n%v", tn, r)
		}
	}
	// everything that is neither excluded nor covered by a skipped kind converges
	if len(c.Skip) == 0 {
		for tn := range excluded {
			delete(curAfter.Tables, tn)
			delete(want.Tables, tn)
		}
		if d := sqliteref.Diff(curAfter, want); len(d) > 0 {
			// a kept table may legitimately keep/lose a foreign key pointing at an excluded table
			var real []string
			for _, l := range d {
				// (the AUTOINCREMENT attribute of an existing key is not diffed at all: recorded under C01, not this property's subject)
				if !strings.Contains(l, "foreign keys") && !strings.Contains(l, "AUTOINCREMENT true vs false") && !strings.Contains(l, "AUTOINCREMENT false vs true") {
					real = append(real, l)
				}
			}
			if len(real) > 0 {
				return out, fmt.Errorf("non-excluded resources did not converge with --exclude %v:\n  %s\n%v", c.Patterns, strings.Join(real, "\n  "), r)
			}
		}
	}
	out.Excluded, out.Kept = len(excluded), len(names)-len(excluded)
	_ = os.Remove
	return out, nil
}

// rebuilt notes (from the complete plan output, which error texts clip) whether the plan rebuilt the table.
func rebuilt(stdout, table string) string {
	if strings.Contains(stdout, "CREATE TABLE `new_"+table+"`") {
		return " [the plan rebuilds table " + table + "]"
	}
	return ""
}

func catalog(p string) (*sqliteref.Catalog, error) {
	db, err := sqliteref.OpenFile(p)
	if err != nil {
		return nil, err
	}
	defer db.Close()
	return sqliteref.Dump(db)
}

func styleOf(c EngCase) model.Style {
	if c.Native {
		return model.StyleNative
	}
	return model.StyleAtlas
}
