// Package c19: excluded resources and skipped change kinds never reach a plan.
package c19

import (
	"fmt"
	"reflect"
	"sort"
	"strings"

	"ariga.io/atlas/sql/schema"

	"verif/c02"
	"verif/gm"
)

// SkipCase: the diff of (base, base+edits) with a set of skipped change kinds.
type SkipCase struct {
	Dialect string        `json:"dialect"`
	Edits   []c02.EditRef `json:"edits"`
	Skip    []string      `json:"skip"` // change kind names
	// View: a materialized view with indexes on both sides whose index lists differ by these operations
	// (add-index, drop-index, modify-index), so that index changes also occur nested in a ModifyView;
	// view-add / view-drop put a second view on one side only.
	View []string `json:"view,omitempty"`
}

var SkipKinds = map[string]schema.Change{
	"AddTable": &schema.AddTable{}, "DropTable": &schema.DropTable{}, "ModifyTable": &schema.ModifyTable{},
	"AddColumn": &schema.AddColumn{}, "DropColumn": &schema.DropColumn{}, "ModifyColumn": &schema.ModifyColumn{},
	"AddIndex": &schema.AddIndex{}, "DropIndex": &schema.DropIndex{}, "ModifyIndex": &schema.ModifyIndex{},
	"AddForeignKey": &schema.AddForeignKey{}, "DropForeignKey": &schema.DropForeignKey{}, "ModifyForeignKey": &schema.ModifyForeignKey{},
	"AddView": &schema.AddView{}, "DropView": &schema.DropView{}, "ModifyView": &schema.ModifyView{},
	// kinds the library option accepts although the CLI policy block has no field for them
	"AddCheck": &schema.AddCheck{}, "DropCheck": &schema.DropCheck{}, "ModifyCheck": &schema.ModifyCheck{},
	"AddAttr": &schema.AddAttr{}, "DropAttr": &schema.DropAttr{}, "ModifyAttr": &schema.ModifyAttr{},
}

// addViews puts the materialized view(s) of the case on one side (0 = current, 1 = desired).
func addViews(s *schema.Schema, side int, ops []string) {
	has := func(op string) bool {
		for _, o := range ops {
			if o == op {
				return true
			}
		}
		return false
	}
	if len(ops) == 0 {
		return
	}
	mk := func(name string) *schema.View {
		v := schema.NewMaterializedView(name, "SELECT id, uname, age FROM users")
		v.AddColumns(schema.NewColumn("id").SetType(&schema.IntegerType{T: "bigint"}), schema.NewColumn("uname").SetType(&schema.StringType{T: "text"}),
			schema.NewNullColumn("age").SetType(&schema.IntegerType{T: "bigint"}))
		return v
	}
	v := mk("mv_stats")
	col := func(n string) *schema.Column { c, _ := v.Column(n); return c }
	v.AddIndexes(schema.NewIndex("vi_keep").AddColumns(col("id")))
	if side == 0 && has("drop-index") {
		v.AddIndexes(schema.NewIndex("vi_drop").AddColumns(col("uname")))
	}
	if side == 1 && has("add-index") {
		v.AddIndexes(schema.NewIndex("vi_add").AddColumns(col("age")))
	}
	if has("modify-index") {
		v.AddIndexes(schema.NewIndex("vi_mod").SetUnique(side == 1).AddColumns(col("uname"), col("age")))
	}
	s.AddViews(v)
	if side == 1 && has("view-add") {
		s.AddViews(mk("mv_new"))
	}
	if side == 0 && has("view-drop") {
		s.AddViews(mk("mv_old"))
	}
}

func SkipKindNames() []string {
	var out []string
	for k := range SkipKinds {
		out = append(out, k)
	}
	sort.Strings(out)
	return out
}

// filterChanges removes every change whose type is in skip, at every nesting level; a ModifyTable left empty disappears.
func filterChanges(cs []schema.Change, skip map[reflect.Type]bool) []schema.Change {
	var out []schema.Change
	for _, c := range cs {
		if skip[reflect.TypeOf(c)] {
			continue
		}
		if m, ok := c.(*schema.ModifyTable); ok {
			inner := filterChanges(m.Changes, skip)
			if len(inner) == 0 {
				continue
			}
			c = &schema.ModifyTable{T: m.T, Changes: inner}
		}
		// the case's views differ in their indexes only: a ModifyView left empty disappears as well
		if m, ok := c.(*schema.ModifyView); ok {
			inner := filterChanges(m.Changes, skip)
			if len(inner) == 0 {
				continue
			}
			c = &schema.ModifyView{From: m.From, To: m.To, Changes: inner}
		}
		out = append(out, c)
	}
	return out
}

func walk(cs []schema.Change, f func(schema.Change)) {
	for _, c := range cs {
		f(c)
		if m, ok := c.(*schema.ModifyTable); ok {
			walk(m.Changes, f)
		}
		if m, ok := c.(*schema.ModifyView); ok {
			walk(m.Changes, f)
		}
	}
}

type SkipOutcome struct {
	Full, Kept int
}

func checkSkip(c SkipCase) (SkipOutcome, error) {
	var out SkipOutcome
	base := c02.Base(c.Dialect)
	edited := base.Clone()
	for _, e := range c.Edits {
		if _, err := c02.Apply(c.Dialect, &edited, e); err != nil {
			return out, err
		}
	}
	build := func() (*schema.Schema, *schema.Schema, error) {
		a, err := gm.Build(c.Dialect, base)
		if err != nil {
			return nil, nil, err
		}
		b, err := gm.Build(c.Dialect, edited)
		if err == nil {
			addViews(a, 0, c.View)
			addViews(b, 1, c.View)
		}
		return a, b, err
	}
	a, b, err := build()
	if err != nil {
		return out, fmt.Errorf("harness: %v", err)
	}
	differ := gm.Differ(c.Dialect)
	full, err := differ.SchemaDiff(a, b, schema.DiffNormalized())
	if err != nil {
		return out, fmt.Errorf("harness: diff: %v", err)
	}
	var kinds []schema.Change
	skip := map[reflect.Type]bool{}
	for _, k := range c.Skip {
		kinds = append(kinds, SkipKinds[k])
		skip[reflect.TypeOf(SkipKinds[k])] = true
	}
	a2, b2, _ := build()
	got, err := differ.SchemaDiff(a2, b2, schema.DiffNormalized(), schema.DiffSkipChanges(kinds...))
	if err != nil {
		return out, fmt.Errorf("%s: diff with skip %v failed: %v", c.Dialect, c.Skip, err)
	}
	walk(full, func(schema.Change) { out.Full++ })
	var leaked []string
	walk(got, func(ch schema.Change) {
		out.Kept++
		if skip[reflect.TypeOf(ch)] {
			leaked = append(leaked, fmt.Sprintf("%T", ch))
		}
	})
	if len(leaked) > 0 {
		return out, fmt.Errorf("%s: skipped change kinds %v still appear in the change set: %v\n  edits: %+v\n  changes: %v", c.Dialect, c.Skip, leaked, c.Edits, c02.Describe("", got))
	}
	want := c02.Describe("", filterChanges(full, skip))
	have := c02.Describe("", got)
	sort.Strings(want)
	sort.Strings(have)
	if strings.Join(want, "\n") != strings.Join(have, "\n") {
		return out, fmt.Errorf("%s: diff with skip %v is not the full diff minus the skipped kinds\n  edits: %+v\n  got:\n    %s\n  want:\n    %s", c.Dialect, c.Skip, c.Edits, strings.Join(have, "\n    "), strings.Join(want, "\n    "))
	}
	return out, nil
}
