package c05

import (
	"fmt"
	"strings"
	"testing"

	"pgregory.net/rapid"

	"verif/ev"
	"verif/model"
	"verif/sqliteref"
)

var known = ev.Matcher[Case]{}

const rule = "populated SQLite databases: schemas from the harness model where every table carries a never-edited key column k; 0-6 rows per table with type-appropriate values " +
	"(NULLs where allowed, distinct values under keys/unique indexes, values satisfying the generated checks; foreign-key columns NULL or pointing at an existing parent row); desired = 1-4 random elementary edits " +
	"(add/drop/modify column incl. null->not-null with default, type change, defaults, generated columns, indexes, keys, FKs, checks, WITHOUT ROWID/STRICT toggles, add/drop table). " +
	"The CLI's diff/apply path runs on a real engine inside a transaction (2/3) or through Driver.ApplyChanges without one, foreign keys enforced (1/3). Oracle (independent connection): same key set per surviving table; every column present before and after with the same declared type " +
	"keeps quote(value) per row, except NULL -> new DEFAULT under a column that became NOT NULL; tables outside the change set keep sqlite_master.sql and rows including rowid. " +
	"Data-caused engine failures are counted as rejected. non-trivial = >=1 row in a modified table and the plan has a rebuild or ALTER; distinct key = (path, change kinds, edit kinds)"

func valueFor(t *rapid.T, col model.Column, strict bool, k int, unique bool) string {
	cls := sqliteref.TypeClass(col.Type)
	if strict {
		switch strings.ToLower(col.Type) {
		case "integer", "int":
			cls = "int"
		case "real":
			cls = "float"
		case "text":
			cls = "string"
		case "blob":
			cls = "blob"
		default:
			cls = "string"
		}
	}
	if !col.NotNull && !unique && rapid.IntRange(0, 3).Draw(t, "null") == 0 {
		return "NULL"
	}
	switch cls {
	case "int", "bool":
		if unique {
			return fmt.Sprint(100 + k)
		}
		if cls == "bool" {
			return rapid.SampledFrom([]string{"0", "1"}).Draw(t, "bv")
		}
		return rapid.SampledFrom([]string{"0", "1", "7", "-3", "123456789"}).Draw(t, "iv")
	case "float", "decimal":
		if unique {
			return fmt.Sprintf("%d.5", k)
		}
		return rapid.SampledFrom([]string{"0.5", "1.25", "-2.75", "3"}).Draw(t, "fv")
	case "blob":
		if unique {
			return fmt.Sprintf("x'%02X'", k)
		}
		return rapid.SampledFrom([]string{"x'00'", "x'CAFE'", "x''"}).Draw(t, "xv")
	case "time":
		return fmt.Sprintf("'2020-01-%02d'", k%28+1)
	case "json":
		return fmt.Sprintf(`'{"k":%d}'`, k)
	case "uuid":
		return fmt.Sprintf("'00000000-0000-0000-0000-%012d'", k)
	default:
		if unique {
			return fmt.Sprintf("'u%d'", k)
		}
		return rapid.SampledFrom([]string{"'v'", "''", "'it''s'", "'a b'", "'123'", "'ünï'"}).Draw(t, "sv")
	}
}

// dataFriendly adapts a schema so that rows can be generated without knowing the parents:
// foreign-key child columns are nullable and outside keys (they are populated with NULL).
func dataFriendly(s *model.Schema) {
	for ti := range s.Tables {
		tb := &s.Tables[ti]
		inKey := map[string]bool{}
		for _, p := range tb.PK {
			inKey[p] = true
		}
		for _, ix := range tb.Indexes {
			if ix.Unique {
				for _, p := range ix.Parts {
					inKey[p.Col] = true
				}
			}
		}
		var fks []model.FK
		for _, fk := range tb.FKs {
			ok := true
			for _, c := range fk.Cols {
				if col := tb.Col(c); col == nil || col.NotNull || inKey[c] || c == "k" {
					ok = false
				}
			}
			if ok {
				fks = append(fks, fk)
			}
		}
		tb.FKs = fks
	}
}

func genCase(t *rapid.T) Case {
	o := model.Opts{NoInlineUnique: true, WordNames: true, KeyColumn: true, SimpleDefaults: false}
	c := Case{A: model.GenSchema(t, 3, o), Rows: map[string][]Row{}}
	dataFriendly(&c.A)
	addParentLink(t, &c.A)
	protect := map[string]bool{"k": true}
	for _, tb := range c.A.Tables {
		fkCols := map[string]bool{}
		for _, fk := range tb.FKs {
			for _, col := range fk.Cols {
				fkCols[col] = true
			}
		}
		uniq := map[string]bool{"k": true}
		for _, p := range tb.PK {
			uniq[p] = true
		}
		for _, ix := range tb.Indexes {
			if ix.Unique {
				for _, p := range ix.Parts {
					if p.Col != "" {
						uniq[p.Col] = true
					} else {
						for _, col := range tb.Cols {
							if strings.Contains(p.Expr, `"`+col.Name+`"`) || strings.Contains(p.Expr, "["+col.Name+"]") {
								uniq[col.Name] = true
							}
						}
					}
				}
			}
		}
		n := rapid.IntRange(0, 6).Draw(t, "nrows")
		for k := 1; k <= n; k++ {
			r := Row{}
			for _, col := range tb.Cols {
				switch {
				case col.Gen != "":
				case col.Name == "k":
					r["k"] = fmt.Sprint(k)
				case tb.AutoInc && len(tb.PK) == 1 && tb.PK[0] == col.Name:
					r[col.Name] = fmt.Sprint(k * 10)
				case fkCols[col.Name]:
					r[col.Name] = "NULL"
				default:
					r[col.Name] = valueFor(t, col, tb.Strict, k, uniq[col.Name])
				}
			}
			c.Rows[tb.Name] = append(c.Rows[tb.Name], r)
		}
	}
	linkRows(t, &c)
	c.NoTx = rapid.IntRange(0, 2).Draw(t, "notx") == 0
	c.ViaHCL = rapid.IntRange(0, 2).Draw(t, "viahcl") == 0
	c.B = c.A.Clone()
	for n := rapid.IntRange(1, 4).Draw(t, "nedits"); n > 0; n-- {
		if k := model.Edit(t, &c.B, o, protect); k != "" {
			c.Edits = append(c.Edits, k)
		}
	}
	dataFriendly(&c.B)
	return c
}

// addParentLink gives (every second schema) one table a nullable column `pref` that references the single-column primary
// key of some table (possibly itself), with an ON DELETE action that would show in the child rows if parent rows were deleted.
func addParentLink(t *rapid.T, s *model.Schema) {
	if rapid.Bool().Draw(t, "parentlink") {
		return
	}
	ci := rapid.IntRange(0, len(s.Tables)-1).Draw(t, "linkchild")
	pi := rapid.IntRange(0, len(s.Tables)-1).Draw(t, "linkparent")
	child, parent := &s.Tables[ci], &s.Tables[pi]
	if len(parent.PK) != 1 || child.Col("pref") != nil {
		return
	}
	pk := parent.Col(parent.PK[0])
	if pk == nil || pk.Gen != "" {
		return
	}
	if child.Strict && !map[string]bool{"integer": true, "int": true, "real": true, "text": true, "blob": true, "any": true}[strings.ToLower(pk.Type)] {
		return // STRICT tables know five type names only
	}
	child.Cols = append(child.Cols, model.Column{Name: "pref", Type: pk.Type})
	child.FKs = append(child.FKs, model.FK{
		Name: "fk_" + child.Name + "_pref", Cols: []string{"pref"}, RefTable: parent.Name, RefCols: []string{pk.Name},
		OnDelete: rapid.SampledFrom([]string{"CASCADE", "CASCADE", "SET NULL", "SET DEFAULT", ""}).Draw(t, "linkdel"),
		OnUpdate: rapid.SampledFrom([]string{"CASCADE", "SET NULL", ""}).Draw(t, "linkupd"),
	})
}

// linkRows points foreign-key columns of child rows at existing parent rows (2 of 3 rows per key), so that a parent row
// that is deleted or rewritten by the migration shows in the children through the key's ON DELETE / ON UPDATE action.
func linkRows(t *rapid.T, c *Case) {
	for _, tb := range c.A.Tables {
		for _, fk := range tb.FKs {
			parent := c.A.Table(fk.RefTable)
			if parent == nil {
				continue
			}
			sameTypes := true
			for i, cn := range fk.Cols {
				pc := parent.Col(fk.RefCols[i])
				// a STRICT child only stores values of its own type; elsewhere SQLite compares with the parent's affinity
				if cc := tb.Col(cn); pc == nil || cc == nil || tb.Strict && !strings.EqualFold(pc.Type, cc.Type) {
					sameTypes = false
				}
			}
			if !sameTypes {
				continue
			}
			for ri, r := range c.Rows[tb.Name] {
				cands := c.Rows[fk.RefTable]
				if fk.RefTable == tb.Name {
					cands = cands[:ri] // a self reference points at an earlier row
				}
				if len(cands) == 0 || rapid.IntRange(0, 2).Draw(t, "link") == 0 {
					continue
				}
				pr := cands[rapid.IntRange(0, len(cands)-1).Draw(t, "parent")]
				ok := true
				for _, rc := range fk.RefCols {
					if v, has := pr[rc]; !has || v == "NULL" {
						ok = false
					}
				}
				if !ok {
					continue
				}
				for i, cn := range fk.Cols {
					r[cn] = pr[fk.RefCols[i]]
				}
			}
		}
	}
}

func mkCheck(col *ev.Collector) func(Case) error {
	return func(c Case) error {
		out, err := checkCase(c)
		if out.Rejected != "" {
			col.Reject(out.Rejected)
			return err
		}
		col.Class("path/" + out.Path)
		for _, e := range c.Edits {
			col.Class("edit/" + e)
		}
		if out.RowsIn > 0 {
			col.Class("rows-in-modified-table")
		}
		if c.NoTx {
			col.Class("apply/no-transaction")
		} else {
			col.Class("apply/transaction")
		}
		if linked(c) {
			col.Class("child-rows-reference-parent-rows")
		}
		if out.RowsIn > 0 && out.Path != "none" {
			col.NonTrivial(fmt.Sprintf("%s|%s|%s", out.Path, strings.Join(out.Kinds, ","), strings.Join(c.Edits, ",")))
		}
		col.Sample("path/"+out.Path, c)
		return err
	}
}

func linked(c Case) bool {
	for _, tb := range c.A.Tables {
		for _, fk := range tb.FKs {
			for _, r := range c.Rows[tb.Name] {
				if v, ok := r[fk.Cols[0]]; ok && v != "NULL" {
					return true
				}
			}
		}
	}
	return false
}

func TestCheck(t *testing.T) {
	col := ev.New("C05", "exploration", rule)
	defer col.Finish()
	// a nullable column with NULLs becomes NOT NULL: the NULLs take the column's default - for every shape of default x
	// a few column types x desired state as an inspected database and as an HCL document (where string defaults arrive unquoted)
	check := mkCheck(col)
	strs := []string{"'x'", "''", "'it''s'", "'007'", "'1.50'", "'+5'", "'0x1F'", "'1e3'", "' 12'", "'true'", "'NULL'", `"plain text"`, "CURRENT_TIMESTAMP", "(lower('A'))"}
	grid := map[string][]string{
		"text": strs, "varchar(255)": strs, "character(20)": strs, "json": strs, "uuid": strs, "datetime": strs,
		"blob": {"x'0A'", "'b'", "'007'"}, "integer": {"7", "-1", "0"}, "real": {"7", "1.5"}, "numeric(10,2)": {"7", "1.5"}, "bool": {"TRUE", "false", "1"},
	}
	for _, typ := range []string{"text", "varchar(255)", "character(20)", "json", "uuid", "datetime", "blob", "integer", "real", "numeric(10,2)", "bool"} {
		for _, d := range grid[typ] {
			for _, via := range []bool{false, true} {
				a := model.Schema{Tables: []model.Table{{Name: "t1", Cols: []model.Column{{Name: "k", Type: "integer", NotNull: true}, {Name: "c", Type: typ, Default: d}}}}}
				c := Case{A: a, B: a.Clone(), ViaHCL: via, Edits: []string{"null-to-notnull-with-default"},
					Rows: map[string][]Row{"t1": {{"k": "1"}, {"k": "2", "c": "NULL"}, {"k": "3", "c": "'kept'"}}}}
				if typ != "text" && !strings.HasPrefix(typ, "var") && !strings.HasPrefix(typ, "char") {
					c.Rows["t1"][2]["c"] = "5"
				}
				c.B.Tables[0].Cols[1].NotNull = true
				if !ev.Each(col, "null-becomes-default", c, check, known) {
					return
				}
			}
		}
	}
	// the CLI route: a parent rebuilt under enforced foreign keys, the database named by either URL scheme
	for _, scheme := range []string{"sqlite", "libsql+file"} {
		for _, mode := range []string{"", "file"} {
			for _, act := range []string{"CASCADE", "SET NULL"} {
				c := UCase{Scheme: scheme, TxMode: mode, Action: act}
				if !ev.Each(col, "cli-parent-rebuild-url-schemes", c, func(c UCase) error {
					col.Class("cli/" + c.Scheme + "/parent-rebuild")
					col.NonTrivial(fmt.Sprintf("url|%s|%s|%s", c.Scheme, c.TxMode, c.Action))
					return checkURL(c)
				}, ev.Matcher[UCase]{}) {
					return
				}
			}
		}
	}
	ev.Rapid(t, col, "engine-data", col.N(4000, 600000), genCase, check, known)
}

func TestReplay(t *testing.T) {
	if strings.HasPrefix(ev.ReplaySub(), "cli-parent-rebuild") {
		ev.ReplayFile(t, "C05", func(_ string, c UCase) error { return checkURL(c) })
		return
	}
	ev.ReplayFile(t, "C05", func(_ string, c Case) error { _, err := checkCase(c); return err })
}
