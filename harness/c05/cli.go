package c05

import (
	"fmt"
	"strings"

	"verif/cli"
	"verif/sqliteref"
)

// UCase: `atlas schema apply` on a populated database whose parent table has to be rebuilt, with foreign keys enforced
// (_fk=1) and child rows that would disappear (ON DELETE CASCADE) or change (SET NULL) if dropping the old parent fired
// the keys' actions. The database is named by a sqlite:// or a libsql+file:// URL (the same engine behind both).
type UCase struct {
	Scheme string `json:"scheme"`  // sqlite | libsql+file
	TxMode string `json:"tx_mode"` // "" (default) | file | none
	Action string `json:"action"`  // CASCADE | SET NULL
}

func checkURL(c UCase) error {
	sb, err := cli.NewSandbox()
	if err != nil {
		return fmt.Errorf("harness: %v", err)
	}
	defer sb.Close()
	dbp := sb.Path("app.db")
	db, err := sqliteref.OpenFile(dbp)
	if err != nil {
		return fmt.Errorf("harness: %v", err)
	}
	_, err = db.Exec("CREATE TABLE `parent` (`id` integer NOT NULL, `v` int NULL, PRIMARY KEY (`id`));" +
		"CREATE TABLE `child` (`k` integer NOT NULL, `pid` integer NULL, PRIMARY KEY (`k`), CONSTRAINT `fk_child_parent` FOREIGN KEY (`pid`) REFERENCES `parent` (`id`) ON UPDATE NO ACTION ON DELETE " + c.Action + ");" +
		"INSERT INTO parent VALUES (1, 10), (2, 20); INSERT INTO child VALUES (1, 1), (2, 2), (3, NULL)")
	if err != nil {
		db.Close()
		return fmt.Errorf("harness: %v", err)
	}
	before, err := sqliteref.QueryStrings(db, "SELECT k || ':' || IFNULL(pid, 'NULL') FROM child ORDER BY k")
	db.Close()
	if err != nil {
		return fmt.Errorf("harness: %v", err)
	}
	// the parent's column changes its type class (int -> text): not an ALTER TABLE case, the table is rebuilt
	sb.WriteFile("schema.sql", "CREATE TABLE `parent` (`id` integer NOT NULL, `v` text NULL, PRIMARY KEY (`id`));\n"+
		"CREATE TABLE `child` (`k` integer NOT NULL, `pid` integer NULL, PRIMARY KEY (`k`), CONSTRAINT `fk_child_parent` FOREIGN KEY (`pid`) REFERENCES `parent` (`id`) ON UPDATE NO ACTION ON DELETE "+c.Action+");\n")
	url := c.Scheme + "://" + dbp + "?_fk=1"
	args := []string{"schema", "apply", "--url", url, "--to", "file://schema.sql", "--dev-url", "sqlite://dev?mode=memory", "--auto-approve"}
	if c.TxMode != "" {
		args = append(args, "--tx-mode", c.TxMode)
	}
	r := sb.Run(args...)
	if r.Code != 0 {
		return fmt.Errorf("schema apply (%s, tx-mode %q) failed: %v", c.Scheme, c.TxMode, r)
	}
	if !strings.Contains(r.Stdout, "new_parent") {
		return fmt.Errorf("harness: the plan does not rebuild the parent table: %v", r)
	}
	db, err = sqliteref.OpenFile(dbp)
	if err != nil {
		return fmt.Errorf("harness: %v", err)
	}
	defer db.Close()
	after, err := sqliteref.QueryStrings(db, "SELECT k || ':' || IFNULL(pid, 'NULL') FROM child ORDER BY k")
	if err != nil {
		return fmt.Errorf("harness: %v", err)
	}
	prows, err := sqliteref.QueryStrings(db, "SELECT id || ':' || v FROM parent ORDER BY id")
	if err != nil {
		return fmt.Errorf("harness: %v", err)
	}
	if strings.Join(after, ",") != strings.Join(before, ",") || strings.Join(prows, ",") != "1:10,2:20" {
		return fmt.Errorf("schema apply (%s://...?_fk=1, tx-mode %q) rebuilt `parent`; table `child` (ON DELETE %s) is not part of the change set but its rows went from %v to %v; parent rows now %v\n%v", c.Scheme, c.TxMode, c.Action, before, after, prows, r)
	}
	return nil
}
