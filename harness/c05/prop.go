// Package c05: planned table changes never lose rows or values of columns that survive.
package c05

import (
	"context"
	"database/sql"
	"fmt"
	"regexp"
	"sort"
	"strings"

	"ariga.io/atlas/sql/schema"
	"ariga.io/atlas/sql/sqlite"

	"verif/eng"
	"verif/model"
	"verif/sqliteref"
)

// Row is one row: column name -> SQL literal text.
type Row map[string]string

type Case struct {
	A     model.Schema     `json:"a"`
	B     model.Schema     `json:"b"`
	Rows  map[string][]Row `json:"rows"` // table -> rows (every table has the key column k)
	Edits []string         `json:"edits"`
	NoTx  bool             `json:"no_tx,omitempty"` // apply through Driver.ApplyChanges without a transaction (foreign keys stay enforced)
	// ViaHCL: the desired state is a document: EvalHCL(MarshalHCL(inspect(reference))). String defaults arrive without
	// quotes that way ("007"), the planner has to write them as strings
	ViaHCL bool `json:"via_hcl,omitempty"`
}

type Outcome struct {
	Rejected string
	Path     string
	Kinds    []string
	RowsIn   int // rows in tables that are part of the change set
	Stmts    int
}

type snap struct {
	strict bool
	sql    string
	cols   map[string]colInfo
	rows   map[string]map[string]string // k -> col -> quote(value)
	full   []string                     // rows incl. rowid, for bystander tables
}

type colInfo struct {
	typ     string
	hidden  int
	notnull bool
	dflt    sql.NullString
	pk      int
	rowid   bool // the column is an alias of the rowid (sole INTEGER PRIMARY KEY of a rowid table): it cannot hold NULL
}

func snapshot(db *sql.DB) (map[string]*snap, error) {
	ms, err := sqliteref.ReadMaster(db)
	if err != nil {
		return nil, err
	}
	out := map[string]*snap{}
	for _, m := range ms {
		if m.Type != "table" {
			continue
		}
		s := &snap{sql: m.SQL, cols: map[string]colInfo{}, rows: map[string]map[string]string{}}
		rows, err := db.Query("SELECT name, lower(type), \"notnull\", dflt_value, hidden, pk FROM pragma_table_xinfo(?)", m.Name)
		if err != nil {
			return nil, err
		}
		var names []string
		for rows.Next() {
			var n string
			var ci colInfo
			var nn int
			if err := rows.Scan(&n, &ci.typ, &nn, &ci.dflt, &ci.hidden, &ci.pk); err != nil {
				rows.Close()
				return nil, err
			}
			ci.notnull = nn == 1
			s.cols[n] = ci
			names = append(names, n)
		}
		rows.Close()
		_ = db.QueryRow("SELECT strict FROM pragma_table_list WHERE name = ? AND schema = 'main'", m.Name).Scan(&s.strict)
		npk := 0
		for _, ci := range s.cols {
			if ci.pk > 0 {
				npk++
			}
		}
		for n, ci := range s.cols {
			if ci.pk == 1 && npk == 1 && ci.typ == "integer" && !strings.Contains(strings.ToUpper(m.SQL), "WITHOUT ROWID") {
				ci.rowid = true
				s.cols[n] = ci
			}
		}
		if _, ok := s.cols["k"]; ok {
			var sel []string
			for _, n := range names {
				sel = append(sel, "quote("+sqliteref.QuoteIdent(n)+")")
			}
			r, err := db.Query("SELECT " + strings.Join(sel, ", ") + " FROM " + sqliteref.QuoteIdent(m.Name))
			if err != nil {
				return nil, err
			}
			for r.Next() {
				vals := make([]sql.NullString, len(names))
				ptrs := make([]any, len(names))
				for i := range vals {
					ptrs[i] = &vals[i]
				}
				if err := r.Scan(ptrs...); err != nil {
					r.Close()
					return nil, err
				}
				row := map[string]string{}
				for i, n := range names {
					row[n] = vals[i].String
				}
				s.rows[row["k"]] = row
			}
			r.Close()
		}
		s.full, err = sqliteref.TableRows(db, m.Name, true)
		if err != nil {
			return nil, err
		}
		out[m.Name] = s
	}
	return out, nil
}

var reNotNull = regexp.MustCompile(`NOT NULL constraint failed: (\w+)\.(\w+)`)

var dataErrors = []string{"constraint failed", "NOT NULL", "UNIQUE", "CHECK", "FOREIGN KEY", "foreign key", "cannot store", "datatype mismatch", "Cannot add a", "cannot add a", "foreign-key violation", "violat", "foreign_key_check",
	// ALTER TABLE ADD COLUMN on a STRICT table checks the DEFAULT against the column type; CREATE TABLE does not. The
	// desired definition itself is unusable (its default can never be stored), the engine refuses it, nothing is lost.
	"type mismatch on DEFAULT"}

func isDataError(err error) bool {
	for _, s := range dataErrors {
		if strings.Contains(err.Error(), s) {
			return true
		}
	}
	return false
}

func changedTables(changes []schema.Change) map[string]bool {
	out := map[string]bool{}
	for _, c := range changes {
		switch c := c.(type) {
		case *schema.AddTable:
			out[c.T.Name] = true
		case *schema.DropTable:
			out[c.T.Name] = true
		case *schema.ModifyTable:
			out[c.T.Name] = true
		}
	}
	return out
}

func kindsOf(changes []schema.Change) []string {
	seen := map[string]bool{}
	var out []string
	var walk func([]schema.Change)
	walk = func(cs []schema.Change) {
		for _, c := range cs {
			k := strings.TrimPrefix(fmt.Sprintf("%T", c), "*schema.")
			if m, ok := c.(*schema.ModifyTable); ok {
				walk(m.Changes)
			}
			if !seen[k] {
				seen[k] = true
				out = append(out, k)
			}
		}
	}
	walk(changes)
	sort.Strings(out)
	return out
}

func checkCase(c Case) (Outcome, error) {
	model.SettleShortFKs(&c.A, &c.B)
	model.SettleShortFKs(&c.B, &c.A)
	var out Outcome
	ctx := context.Background()
	db, err := eng.New(ctx)
	if err != nil {
		return out, fmt.Errorf("harness: %v", err)
	}
	defer db.Close()
	if err := db.Exec(c.A.DDL(model.StyleNative)...); err != nil {
		return out, fmt.Errorf("harness: generated DDL rejected by SQLite: %v", err)
	}
	// rows are inserted with enforcement off so that children may be listed before their parents; every reference
	// the generator writes points at an existing parent row
	if err := db.Exec("PRAGMA foreign_keys = off"); err != nil {
		return out, fmt.Errorf("harness: %v", err)
	}
	for _, t := range c.A.Tables {
		for _, r := range c.Rows[t.Name] {
			var cols, vals []string
			for _, col := range t.Cols {
				if v, ok := r[col.Name]; ok {
					cols = append(cols, sqliteref.QuoteIdent(col.Name))
					vals = append(vals, v)
				}
			}
			q := fmt.Sprintf("INSERT INTO %s (%s) VALUES (%s)", sqliteref.QuoteIdent(t.Name), strings.Join(cols, ", "), strings.Join(vals, ", "))
			if err := db.Exec(q); err != nil {
				out.Rejected = "generated row rejected by the current schema"
				return out, nil
			}
		}
	}
	if err := db.Exec("PRAGMA foreign_keys = on"); err != nil {
		return out, fmt.Errorf("harness: %v", err)
	}
	ref, err := eng.New(ctx)
	if err != nil {
		return out, fmt.Errorf("harness: %v", err)
	}
	defer ref.Close()
	if err := ref.Exec(c.B.DDL(model.StyleAtlas)...); err != nil {
		return out, fmt.Errorf("harness: generated DDL rejected by SQLite: %v", err)
	}
	desired, err := ref.Inspect(ctx)
	if err != nil {
		return out, fmt.Errorf("inspect desired: %v", err)
	}
	if c.ViaHCL {
		h, err := sqlite.MarshalHCL(desired)
		if err != nil {
			return out, fmt.Errorf("MarshalHCL(desired): %v", err)
		}
		desired = &schema.Realm{}
		if err := sqlite.EvalHCLBytes(h, desired, nil); err != nil {
			return out, fmt.Errorf("EvalHCLBytes of the marshalled desired state: %v\n%s", err, h)
		}
	}
	cur, err := db.Inspect(ctx)
	if err != nil {
		return out, fmt.Errorf("inspect current: %v", err)
	}
	changes, err := db.Diff(cur, desired)
	if err != nil {
		return out, fmt.Errorf("diff: %v", err)
	}
	out.Kinds = kindsOf(changes)
	plan, err := db.Plan(ctx, changes)
	if err != nil {
		out.Rejected = "plan-time refusal"
		return out, nil
	}
	out.Stmts = len(plan.Changes)
	var ptxt strings.Builder
	rebuild := false
	for _, pc := range plan.Changes {
		ptxt.WriteString("    " + pc.Cmd + ";\n")
		if strings.Contains(pc.Cmd, "`new_") {
			rebuild = true
		}
	}
	touched := changedTables(changes)
	out.Path = "none"
	if len(touched) > 0 {
		out.Path = "alter"
		if rebuild {
			out.Path = "rebuild"
		}
	}
	before, err := snapshot(db.Raw)
	if err != nil {
		return out, fmt.Errorf("harness: %v", err)
	}
	for t := range touched {
		if s, ok := before[t]; ok {
			out.RowsIn += len(s.rows)
		}
	}
	apply := db.Apply
	if c.NoTx {
		apply = db.ApplyNoTx
	}
	if err := apply(ctx, changes); err != nil {
		// a NULL under a column that becomes NOT NULL is back-filled with the column's DEFAULT by the planner (IFNULL in the
		// copy, documented): when the desired column has a default, a NOT NULL failure on it is the planner's, not the data's
		if m := reNotNull.FindStringSubmatch(err.Error()); m != nil {
			if tb := c.B.Table(strings.TrimPrefix(m[1], "new_")); tb != nil {
				if col := tb.Col(m[2]); col != nil && col.Default != "" && col.Gen == "" {
					return out, fmt.Errorf("apply failed on a NOT NULL column that has a DEFAULT to back-fill with: %v\n  plan:\n%s", err, ptxt.String())
				}
			}
		}
		if isDataError(err) {
			out.Rejected = "data-caused engine failure"
			// all-or-nothing: the failed apply must not have changed anything (C13 looks at this through the CLI)
			return out, nil
		}
		return out, fmt.Errorf("apply failed: %v\n  plan:\n%s", err, ptxt.String())
	}
	after, err := snapshot(db.Raw)
	if err != nil {
		return out, fmt.Errorf("harness: %v", err)
	}
	for name, b := range before {
		a, ok := after[name]
		if !ok {
			if c.B.Table(name) == nil {
				continue // the table was dropped on purpose
			}
			return out, fmt.Errorf("table %q disappeared\n  plan:\n%s", name, ptxt.String())
		}
		if !touched[name] {
			// bystander: untouched, including rowids
			if a.sql != b.sql || strings.Join(a.full, "\n") != strings.Join(b.full, "\n") {
				return out, fmt.Errorf("table %q is not part of the change set but changed:\n before: %s\n %v\n after:  %s\n %v\n  plan:\n%s", name, b.sql, b.full, a.sql, a.full, ptxt.String())
			}
			continue
		}
		if len(a.rows) != len(b.rows) {
			return out, fmt.Errorf("table %q had %d rows, has %d after the migration\n  plan:\n%s", name, len(b.rows), len(a.rows), ptxt.String())
		}
		for k, brow := range b.rows {
			arow, ok := a.rows[k]
			if !ok {
				return out, fmt.Errorf("table %q: row k=%s is gone\n  plan:\n%s", name, k, ptxt.String())
			}
			for col, bi := range b.cols {
				ai, ok := a.cols[col]
				if !ok || ai.typ != bi.typ || ai.hidden != 0 || bi.hidden != 0 {
					continue // dropped, retyped or generated column: not covered by the property
				}
				if arow[col] == brow[col] {
					continue
				}
				// a column that became the rowid alias (sole INTEGER PRIMARY KEY) cannot hold NULL: SQLite assigns a rowid
				if brow[col] == "NULL" && ai.rowid && !bi.rowid && arow[col] != "NULL" {
					continue
				}
				// the documented transformation: NULL under a column that became NOT NULL DEFAULT d becomes d
				if brow[col] == "NULL" && ai.notnull && ai.dflt.Valid {
					// (the default as the desired model states it, not as the migrated table happens to carry it)
					dflt := ai.dflt.String
					if mt := c.B.Table(name); mt != nil {
						if mc := mt.Col(col); mc != nil && mc.Default != "" {
							dflt = mc.Default
							if strings.HasPrefix(dflt, `"`) { // a double-quoted text is a string literal only outside parentheses
								dflt = sqliteref.NormDefault(dflt)
							}
						}
					}
					want, err := defaultAs(db.Raw, ai.typ, dflt, a.strict)
					if err == nil && want == arow[col] {
						continue
					}
					// CURRENT_TIMESTAMP / CURRENT_DATE / CURRENT_TIME are evaluated when the statement runs: any non-NULL value is the default
					if err == nil && strings.Contains(strings.ToUpper(ai.dflt.String), "CURRENT_") && arow[col] != "NULL" {
						continue
					}
					return out, fmt.Errorf("table %q row k=%s column %q: NULL became %s, expected the new default %s (%v)\n  plan:\n%s", name, k, col, arow[col], want, err, ptxt.String())
				}
				return out, fmt.Errorf("table %q row k=%s column %q (type %s unchanged): value %s became %s\n  plan:\n%s", name, k, col, bi.typ, brow[col], arow[col], ptxt.String())
			}
		}
	}
	return out, nil
}

var tmpSeq int

// defaultAs evaluates a DEFAULT expression the way a column of the given declared type would store it.
func defaultAs(db *sql.DB, typ, dflt string, strict bool) (string, error) {
	tmpSeq++
	name := fmt.Sprintf("vtmp_%d", tmpSeq)
	opt := ""
	if strict {
		opt = " STRICT" // ANY keeps the value as written in a STRICT table and has NUMERIC affinity elsewhere
	}
	if _, err := db.Exec(fmt.Sprintf("CREATE TEMP TABLE %s (c %s DEFAULT (%s))%s", name, typ, dflt, opt)); err != nil {
		return "", err
	}
	defer db.Exec("DROP TABLE temp." + name)
	if _, err := db.Exec(fmt.Sprintf("INSERT INTO temp.%s DEFAULT VALUES", name)); err != nil {
		return "", err
	}
	var s string
	err := db.QueryRow(fmt.Sprintf("SELECT quote(c) FROM temp.%s", name)).Scan(&s)
	return s, err
}
