package c20

import (
	"context"
	"fmt"
	"os"
	"regexp"
	"sort"
	"strings"

	"ariga.io/atlas/sql/migrate"
	"ariga.io/atlas/sql/schema"
	"ariga.io/atlas/sql/sqlite"
	"github.com/hashicorp/hcl/v2/hclparse"

	"verif/cli"
	"verif/eng"
	"verif/model"
	"verif/sqliteref"
)

// PCase: processes and source-order permutations on SQLite.
type PCase struct {
	A    model.Schema `json:"a"`
	B    model.Schema `json:"b"`
	Perm int64        `json:"perm"`
	Split int         `json:"split"` // number of HCL files the blocks are spread over
}

var reBlockStart = regexp.MustCompile(`(?m)^(table|schema) "`)

// blocks splits an HCL document into its top-level blocks.
func blocks(h string) []string {
	idx := reBlockStart.FindAllStringIndex(h, -1)
	var out []string
	for i, m := range idx {
		end := len(h)
		if i+1 < len(idx) {
			end = idx[i+1][0]
		}
		out = append(out, h[m[0]:end])
	}
	return out
}

func shuffled(xs []string, seed int64) []string {
	out := append([]string{}, xs...)
	r := uint64(seed)*6364136223846793005 + 1442695040888963407
	for i := len(out) - 1; i > 0; i-- {
		r = r*6364136223846793005 + 1442695040888963407
		j := int((r >> 33) % uint64(i+1))
		out[i], out[j] = out[j], out[i]
	}
	return out
}

func evalFiles(files []string) (*schema.Realm, error) {
	return evalFilesNamed(files, "f%d.hcl")
}

// evalFilesNamed: the i-th file is given the name fmt.Sprintf(pattern, i), e.g. one base name in several directories.
func evalFilesNamed(files []string, pattern string) (*schema.Realm, error) {
	p := hclparse.NewParser()
	for i, f := range files {
		if _, diag := p.ParseHCL([]byte(f), fmt.Sprintf(pattern, i)); diag.HasErrors() {
			return nil, diag
		}
	}
	var r schema.Realm
	if err := sqlite.EvalHCL(p, &r, nil); err != nil {
		return nil, err
	}
	return &r, nil
}

func planStmts(ctx context.Context, db *eng.DB, desired *schema.Realm) ([]string, []schema.Change, error) {
	cur, err := db.Inspect(ctx)
	if err != nil {
		return nil, nil, err
	}
	changes, err := db.Diff(cur, desired)
	if err != nil {
		return nil, nil, err
	}
	plan, err := db.Plan(ctx, changes)
	if err != nil {
		return nil, nil, err
	}
	var out []string
	for _, c := range plan.Changes {
		out = append(out, c.Cmd)
	}
	return out, changes, nil
}

func checkPerm(c PCase) (int, error) {
	model.SettleShortFKs(&c.A, &c.B)
	model.SettleShortFKs(&c.B, &c.A)
	ctx := context.Background()
	ref, err := eng.New(ctx)
	if err != nil {
		return 0, fmt.Errorf("harness: %v", err)
	}
	defer ref.Close()
	if err := ref.Exec(c.B.DDL(model.StyleAtlas)...); err != nil {
		return 0, fmt.Errorf("harness: %v", err)
	}
	r, err := ref.Inspect(ctx)
	if err != nil {
		return 0, err
	}
	h, err := sqlite.MarshalHCL(r)
	if err != nil {
		return 0, err
	}
	bl := blocks(string(h))
	split := func(bs []string, n int) []string {
		if n < 1 {
			n = 1
		}
		files := make([]string, n)
		for i, b := range bs {
			files[i%n] += b
		}
		var out []string
		for _, f := range files {
			if strings.TrimSpace(f) != "" {
				out = append(out, f)
			}
		}
		return out
	}
	d1, err := evalFiles([]string{string(h)})
	if err != nil {
		return 0, fmt.Errorf("eval original order: %v", err)
	}
	d2, err := evalFiles(split(shuffled(bl, c.Perm), c.Split))
	if err != nil {
		return 0, fmt.Errorf("the same blocks in another order / spread over %d files do not evaluate: %v", c.Split, err)
	}
	// the same set of files evaluated again and again gives one outcome; the files also hold locals that build on a
	// local of another file, so the outcome depends on which file's references are resolved first
	if c.Split >= 2 {
		files := split(shuffled(bl, c.Perm), c.Split)
		if len(files) >= 2 {
			files[0] += "\nlocals {\n  base = \"x\"\n}\n"
			files[len(files)-1] += "\nlocals {\n  derived = \"${local.base}y\"\n}\n"
			// file names as given on a command line: distinct base names, and one base name in several directories
			for _, pattern := range []string{"f%d.hcl", "schema/part%d/tables.hcl"} {
				outcomes := map[string]int{}
				var order []string
				for i := 0; i < 24; i++ {
					o := ""
					if r, err := evalFilesNamed(files, pattern); err != nil {
						o = "error: " + err.Error()
					} else if b, err := sqlite.MarshalHCL(r); err != nil {
						o = "marshal error: " + err.Error()
					} else {
						o = string(b)
					}
					if outcomes[o] == 0 {
						order = append(order, o)
					}
					outcomes[o]++
				}
				if len(order) > 1 {
					return 0, fmt.Errorf("evaluating the same %d HCL files (named like %q) 24 times gives %d different outcomes (locals of one file building on a local of another):\n--- %d times:\n%s\n--- %d times:\n%s", len(files), pattern, len(order), outcomes[order[0]], clip(order[0]), outcomes[order[1]], clip(order[1]))
				}
			}
		}
	}
	var results [2][]string
	var cats [2]*sqliteref.Catalog
	for i, desired := range []*schema.Realm{d1, d2} {
		db, err := eng.New(ctx)
		if err != nil {
			return 0, fmt.Errorf("harness: %v", err)
		}
		if err := db.Exec(c.A.DDL(model.StyleAtlas)...); err != nil {
			db.Close()
			return 0, fmt.Errorf("harness: %v", err)
		}
		stmts, changes, err := planStmts(ctx, db, desired)
		if err != nil {
			db.Close()
			return 0, fmt.Errorf("plan (order %d): %v", i, err)
		}
		results[i] = stmts
		if err := db.Apply(ctx, changes); err != nil {
			db.Close()
			return 0, fmt.Errorf("apply (order %d): %v", i, err)
		}
		cats[i], err = db.Catalog()
		db.Close()
		if err != nil {
			return 0, fmt.Errorf("harness: %v", err)
		}
	}
	a, b := append([]string{}, results[0]...), append([]string{}, results[1]...)
	sort.Strings(a)
	sort.Strings(b)
	if strings.Join(a, "\n;;\n") != strings.Join(b, "\n;;\n") {
		return len(a), fmt.Errorf("permuting the declaration order of the HCL blocks (and splitting them over %d files) changes the content of the plan:\n--- original order:\n%s\n--- permuted:\n%s", c.Split, strings.Join(results[0], ";\n"), strings.Join(results[1], ";\n"))
	}
	if d := sqliteref.Diff(cats[0], cats[1]); len(d) > 0 {
		return len(a), fmt.Errorf("applying the plans of the two declaration orders yields different databases:\n  %s", strings.Join(d, "\n  "))
	}
	return len(a), nil
}

// checkProcesses: fresh processes of the real CLI give byte-identical `schema inspect`, `schema diff` and `migrate hash` output.
func checkProcesses(c PCase) error {
	model.SettleShortFKs(&c.A, &c.B)
	model.SettleShortFKs(&c.B, &c.A)
	sb, err := cli.NewSandbox()
	if err != nil {
		return fmt.Errorf("harness: %v", err)
	}
	defer sb.Close()
	exec := func(p string, stmts []string) error {
		db, err := sqliteref.OpenFile(p)
		if err != nil {
			return err
		}
		defer db.Close()
		for _, s := range append([]string{"PRAGMA user_version = 0"}, stmts...) {
			if _, err := db.Exec(s); err != nil {
				return err
			}
		}
		return nil
	}
	if err := exec(sb.Path("a.db"), c.A.DDL(model.StyleAtlas)); err != nil {
		return fmt.Errorf("harness: %v", err)
	}
	if err := exec(sb.Path("b.db"), c.B.DDL(model.StyleAtlas)); err != nil {
		return fmt.Errorf("harness: %v", err)
	}
	os.MkdirAll(sb.Path("m"), 0o755)
	sb.WriteFile("m/1_a.sql", strings.Join(c.A.DDL(model.StyleAtlas), ";\n")+";\n")
	sb.WriteFile("m/2_b.sql", "-- second\n"+strings.Join(c.B.DDL(model.StyleNative), ";\n")+";\n")
	cmds := [][]string{
		{"schema", "inspect", "--url", "sqlite://" + sb.Path("b.db")},
		{"schema", "inspect", "--url", "sqlite://" + sb.Path("b.db"), "--format", "{{ sql . }}"},
		{"schema", "diff", "--from", "sqlite://" + sb.Path("a.db"), "--to", "sqlite://" + sb.Path("b.db")},
	}
	for _, cmd := range cmds {
		first := sb.Run(cmd...)
		if first.Code != 0 {
			if strings.Contains(first.Stderr, "<unsupported>") {
				continue
			}
			return fmt.Errorf("%v failed: %v", cmd, first)
		}
		for i := 0; i < 4; i++ {
			again := sb.Run(cmd...)
			if again.Stdout != first.Stdout {
				return fmt.Errorf("two processes running `atlas %s` print different bytes:\n--- first:\n%s\n--- other:\n%s", strings.Join(cmd, " "), clip(first.Stdout), clip(again.Stdout))
			}
		}
	}
	var sums []string
	for i := 0; i < 4; i++ {
		os.Remove(sb.Path("m", migrate.HashFileName))
		if r := sb.Run("migrate", "hash", "--dir", "file://m"); r.Code != 0 {
			return fmt.Errorf("migrate hash failed: %v", r)
		}
		b, _ := os.ReadFile(sb.Path("m", migrate.HashFileName))
		sums = append(sums, string(b))
	}
	for _, s := range sums[1:] {
		if s != sums[0] {
			return fmt.Errorf("`migrate hash` in different processes writes different atlas.sum:\n%s\n---\n%s", sums[0], s)
		}
	}
	return nil
}
