package c20

import (
	"encoding/json"
	"fmt"
	"os"
	"os/exec"
	"sort"
	"strings"
	"testing"

	"pgregory.net/rapid"

	"verif/c02"
	"verif/ev"
	"verif/model"
)

var known = ev.Matcher[Case]{}
var knownP = ev.Matcher[PCase]{}

const rule = "(a) repetition: for MySQL/PostgreSQL/SQLite the plans (create all, modify by 0-6 catalogue edits, drop all; Cmd and reverse statements), DefaultFormatter files (fixed Version), the MemDir sum file and MarshalHCL bytes of the same inputs are computed 21 times in one process " +
	"(Go re-randomises map iteration on every range) and in 3 fresh child processes of the test binary; CLI: `schema inspect` (HCL and sql), `schema diff` and `migrate hash` 5 times each in fresh processes: all bytes identical. " +
	"History: MySQL cases write column character sets the short way on the desired side (CHARSET only / COLLATE only, resolved through lazily loaded driver tables), so the bytes computed after other cases in the same process are compared with processes that have no history. " +
	"(c) schedules: the same case 4x plus 4 unrelated cases run concurrently in goroutines under the race detector (the check is built with -race); results must equal the sequential ones and the detector must stay silent. " +
	"(b) permutation: tables and enum types listed in another order (API, all dialects) and the inspected HCL's top-level blocks permuted and spread over 1-3 files (SQLite, evaluated and applied on a real engine): the multiset of planned statements is identical and the resulting databases have equal catalogs. " +
	"non-trivial = >=2 tables with FKs / >=2 enum types / >=2 files in play and a plan with >=2 statements; distinct key = (operation, dialect, edit kinds, plan mode, permuted?)"

func genCase(t *rapid.T) Case {
	d := rapid.SampledFrom([]string{"mysql", "postgres", "sqlite"}).Draw(t, "dialect")
	c := Case{Dialect: d, Mode: rapid.IntRange(0, 3).Draw(t, "mode")}
	sites := c02.Sites(d, c02.Base(d))
	perm := rapid.Permutation(sites).Draw(t, "sites")
	n := rapid.IntRange(0, 6).Draw(t, "nedits")
	var chosen []c02.Site
	for _, s := range perm {
		if len(chosen) == n {
			break
		}
		ok := true
		for _, x := range chosen {
			if c02.Conflict(x, s) {
				ok = false
			}
		}
		if ok {
			chosen = append(chosen, s)
			c.Edits = append(c.Edits, s.E)
		}
	}
	if rapid.Bool().Draw(t, "permute") {
		c.Perm = int64(rapid.IntRange(1, 1<<30).Draw(t, "perm"))
	}
	if d == "mysql" {
		c.Short = rapid.IntRange(0, 3).Draw(t, "short")
	}
	return c
}

func genP(t *rapid.T) PCase {
	o := model.Opts{NoInlineUnique: true, WordNames: true}
	c := PCase{A: model.GenSchema(t, 3, o), Perm: int64(rapid.IntRange(1, 1<<30).Draw(t, "perm")), Split: rapid.IntRange(1, 3).Draw(t, "split")}
	c.B = c.A.Clone()
	for n := rapid.IntRange(1, 5).Draw(t, "nedits"); n > 0; n-- {
		model.Edit(t, &c.B, o, nil)
	}
	return c
}

// TestChild renders one case and prints its digest (used by the multi-process part).
func TestChild(t *testing.T) {
	in := os.Getenv("VERIF_C20_CHILD")
	if in == "" {
		t.Skip()
	}
	var c Case
	if err := json.Unmarshal([]byte(in), &c); err != nil {
		t.Fatal(err)
	}
	m, err := Render(c, 0)
	if err != nil {
		fmt.Printf("CHILD-DIGEST error %v\n", err)
		return
	}
	fmt.Printf("CHILD-DIGEST %s\n", digest(m))
}

func childDigest(c Case) (string, error) {
	b, _ := json.Marshal(c)
	cmd := exec.Command(os.Args[0], "-test.run", "^TestChild$", "-test.count", "1")
	cmd.Env = append(os.Environ(), "VERIF_C20_CHILD="+string(b))
	out, err := cmd.CombinedOutput()
	for _, l := range strings.Split(string(out), "\n") {
		if strings.HasPrefix(l, "CHILD-DIGEST ") {
			return strings.TrimPrefix(l, "CHILD-DIGEST "), nil
		}
	}
	return "", fmt.Errorf("child process gave no digest: %v\n%s", err, out)
}

func TestCheck(t *testing.T) {
	col := ev.New("C20", "exploration", rule)
	defer col.Finish()
	var pool []Case
	{
		// history independence: column character sets written the short way are resolved through driver tables that are
		// loaded lazily, once per driver; a case that needs one table runs after a case that needed the other, and both
		// are compared with fresh processes that have no history
		// (chosen by kind, not by position: the catalogue grows)
		first := func(kind string) c02.EditRef {
			for _, s := range c02.Sites("mysql", c02.Base("mysql")) {
				if s.E.Kind == kind {
					return s.E
				}
			}
			panic("no site of kind " + kind)
		}
		pool = append(pool, Case{Dialect: "mysql", Short: 2, Edits: []c02.EditRef{first("add-column")}}, Case{Dialect: "mysql", Short: 1, Edits: []c02.EditRef{first("add-column")}},
			Case{Dialect: "mysql", Short: 3, Edits: []c02.EditRef{first("drop-indexed-column")}})
	}
	for _, d := range []string{"mysql", "postgres", "sqlite"} {
		sites := c02.Sites(d, c02.Base(d))
		pool = append(pool, Case{Dialect: d}, Case{Dialect: d, Edits: []c02.EditRef{sites[1].E, sites[len(sites)/2].E}, Mode: 2})
	}
	nchild := 0
	check := func(c Case) error {
		others := []Case{pool[(len(c.Edits))%len(pool)], pool[(len(c.Edits)+1)%len(pool)], pool[(len(c.Edits)+2)%len(pool)], pool[(len(c.Edits)+3)%len(pool)]}
		out, err := checkCase(c, others)
		if err != nil {
			return err
		}
		var ks []string
		for _, e := range c.Edits {
			ks = append(ks, e.Kind)
		}
		sort.Strings(ks)
		col.Class(c.Dialect + "/api")
		if out.Stmts >= 2 {
			col.NonTrivial(fmt.Sprintf("api|%s|%s|%d|%v|%d", c.Dialect, strings.Join(ks, ","), c.Mode, c.Perm != 0, c.Short))
		}
		col.Sample(c.Dialect+"/api", c)
		// multi-process: a sample of cases is re-rendered in 3 fresh processes
		if nchild < col.N(8, 300) && len(c.Edits) > 0 {
			nchild++
			ref, err := Render(c, 0)
			if err != nil {
				return err
			}
			for i := 0; i < 3; i++ {
				d, err := childDigest(c)
				if err != nil {
					return fmt.Errorf("harness: %v", err)
				}
				if d != digest(ref) {
					return fmt.Errorf("%s: a fresh process computes different bytes for the same inputs (digest %s vs %s)", c.Dialect, d, digest(ref))
				}
			}
			col.Class("multi-process")
		}
		return nil
	}
	for _, c := range pool {
		c.Perm = 5
		if !ev.Each(col, "api-fixed", c, check, known) {
			return
		}
	}
	// two edits of one table planned twice from the same change objects (what `schema apply` does: once to show the plan,
	// once to apply it): a dropped indexed column (the planner leaves the implied DROP INDEX out) next to each other index /
	// foreign-key change of that table
	for _, d := range []string{"mysql", "postgres", "sqlite"} {
		sites := c02.Sites(d, c02.Base(d))
		n := 0
		for _, a := range sites {
			if a.E.Kind != "drop-indexed-column" {
				continue
			}
			for _, b := range sites {
				k := b.E.Kind
				if b.E.Table != a.E.Table || c02.Conflict(a, b) || !(strings.Contains(k, "index") || strings.Contains(k, "fk")) || k == "drop-indexed-column" {
					continue
				}
				n++
				if !col.Thorough() && n%3 != 0 {
					continue
				}
				c := Case{Dialect: d, Edits: []c02.EditRef{a.E, b.E}}
				if !ev.Each(col, "plan-twice-edit-pairs", c, func(c Case) error {
					col.Class(c.Dialect + "/plan-twice-edit-pair")
					col.NonTrivial(fmt.Sprintf("pair|%s|%v", c.Dialect, c.Edits))
					_, err := Render(c, 0)
					return err
				}, known) {
					return
				}
			}
		}
	}
	if !ev.Rapid(t, col, "api-repeat-concurrent-permute", col.N(100, 20000), genCase, check, known) {
		return
	}
	checkP := func(c PCase) error {
		n, err := checkPerm(c)
		col.Class("sqlite/hcl-block-permutation")
		if n >= 2 {
			col.NonTrivial(fmt.Sprintf("perm|%d|%d|%s", c.Split, n, strings.Join(c.B.Features(), ",")))
		}
		col.Sample("sqlite/hcl-block-permutation", c)
		return err
	}
	if !ev.Rapid(t, col, "hcl-block-permutation", col.N(200, 60000), genP, checkP, knownP) {
		return
	}
	checkC := func(c PCase) error {
		err := checkProcesses(c)
		col.Class("cli/processes")
		col.NonTrivial(fmt.Sprintf("cli|%s", strings.Join(c.B.Features(), ",")))
		return err
	}
	ev.Rapid(t, col, "cli-processes", col.N(8, 600), genP, checkC, knownP)
}

func TestReplay(t *testing.T) {
	switch sub := ev.ReplaySub(); {
	case strings.HasPrefix(sub, "hcl"):
		ev.ReplayFile(t, "C20", func(_ string, c PCase) error { _, err := checkPerm(c); return err })
	case strings.HasPrefix(sub, "cli"):
		ev.ReplayFile(t, "C20", func(_ string, c PCase) error { return checkProcesses(c) })
	default:
		ev.ReplayFile(t, "C20", func(_ string, c Case) error { _, err := checkCase(c, nil); return err })
	}
}
