// Package c20: outputs are deterministic — same inputs give byte-identical plans, HCL and sums.
package c20

import (
	"context"
	"crypto/sha256"
	"fmt"
	"sort"
	"strings"
	"sync"

	"ariga.io/atlas/sql/migrate"
	"ariga.io/atlas/sql/mysql"
	"ariga.io/atlas/sql/postgres"
	"ariga.io/atlas/sql/schema"
	"ariga.io/atlas/sql/sqlite"

	"verif/c02"
	"verif/gm"
)

type Case struct {
	Dialect string        `json:"dialect"`
	Edits   []c02.EditRef `json:"edits"`
	Mode    int           `json:"mode"`
	Perm    int64         `json:"perm"` // permutation seed for the permutation relation (0 = none)
	Short   int           `json:"short,omitempty"` // MySQL: column character sets written the short way on the desired side (c02.Shorthand): resolved through lazily loaded driver tables
}

func planner(d string) migrate.PlanApplier {
	switch d {
	case "mysql":
		return mysql.DefaultPlan
	case "postgres":
		return postgres.DefaultPlan
	}
	return sqlite.DefaultPlan
}

// Render computes every output the property talks about for one case, as named byte strings.
func Render(c Case, perm int64) (map[string]string, error) {
	out := map[string]string{}
	base := c02.Base(c.Dialect)
	// a second, independent foreign-key chain (ledgers <- invoices <- payments) next to users <- posts <- tags,
	// a self reference and a join table with three parents, so that the order in which independent chains and the
	// neighbours of one node are visited matters
	it := c02.IntType(c.Dialect)
	base.Tables = append(base.Tables,
		gm.Table{Name: "ledgers", Cols: []gm.Col{{Name: "id", Type: it}}, PK: []gm.Part{{Col: "id"}}},
		gm.Table{Name: "invoices", Cols: []gm.Col{{Name: "id", Type: it}, {Name: "account_id", Type: it, Null: true}}, PK: []gm.Part{{Col: "id"}},
			Indexes: []gm.Index{{Name: "idx_invoices_account", Parts: []gm.Part{{Col: "account_id"}}}},
			FKs:     []gm.FK{{Name: "fk_invoices_account", Cols: []string{"account_id"}, RefTable: "ledgers", RefCols: []string{"id"}, OnDelete: "CASCADE", OnUpdate: "CASCADE"}}},
		gm.Table{Name: "payments", Cols: []gm.Col{{Name: "id", Type: it}, {Name: "invoice_id", Type: it, Null: true}}, PK: []gm.Part{{Col: "id"}},
			Indexes: []gm.Index{{Name: "idx_payments_invoice", Parts: []gm.Part{{Col: "invoice_id"}}}},
			FKs:     []gm.FK{{Name: "fk_payments_invoice", Cols: []string{"invoice_id"}, RefTable: "invoices", RefCols: []string{"id"}, OnDelete: "CASCADE", OnUpdate: "CASCADE"}}},
		gm.Table{Name: "zeta", Cols: []gm.Col{{Name: "id", Type: it}, {Name: "zid", Type: it, Null: true}}, PK: []gm.Part{{Col: "id"}},
			FKs: []gm.FK{{Name: "fk_zeta_self", Cols: []string{"zid"}, RefTable: "zeta", RefCols: []string{"id"}}}},
		gm.Table{Name: "aa_memberships", Cols: []gm.Col{{Name: "id", Type: it}, {Name: "user_id", Type: c02.Base(c.Dialect).Tables[0].Cols[0].Type, Null: true}, {Name: "ledger_id", Type: it, Null: true}, {Name: "zeta_id", Type: it, Null: true}},
			PK:      []gm.Part{{Col: "id"}},
			Indexes: []gm.Index{{Name: "idx_m_user", Parts: []gm.Part{{Col: "user_id"}}}, {Name: "idx_m_ledger", Parts: []gm.Part{{Col: "ledger_id"}}}, {Name: "idx_m_zeta", Parts: []gm.Part{{Col: "zeta_id"}}}},
			FKs: []gm.FK{{Name: "fk_m_zeta", Cols: []string{"zeta_id"}, RefTable: "zeta", RefCols: []string{"id"}},
				{Name: "fk_m_user", Cols: []string{"user_id"}, RefTable: "users", RefCols: []string{"id"}},
				{Name: "fk_m_ledger", Cols: []string{"ledger_id"}, RefTable: "ledgers", RefCols: []string{"id"}}}},
		gm.Table{Name: "alpha", Cols: []gm.Col{{Name: "id", Type: it}, {Name: "zeta_id", Type: it, Null: true}}, PK: []gm.Part{{Col: "id"}},
			FKs: []gm.FK{{Name: "fk_alpha_zeta", Cols: []string{"zeta_id"}, RefTable: "zeta", RefCols: []string{"id"}}}})
	if c.Dialect == "postgres" {
		// several tables use one enum: dropping everything orders the enum after each of them
		for _, tn := range []string{"ledgers", "zeta", "alpha"} {
			if tb := base.Table(tn); tb != nil {
				tb.Cols = append(tb.Cols, gm.Col{Name: "kind_of", Type: "enum:mood", Null: true})
			}
		}
	}
	edited := base.Clone()
	for _, e := range c.Edits {
		if _, err := c02.Apply(c.Dialect, &edited, e); err != nil {
			return nil, fmt.Errorf("harness: %v", err)
		}
	}
	if c.Dialect == "mysql" {
		c02.Shorthand(&edited, c.Short)
	}
	from, err := gm.Build(c.Dialect, base)
	if err != nil {
		return nil, fmt.Errorf("harness: %v", err)
	}
	to, err := gm.Build(c.Dialect, edited)
	if err != nil {
		return nil, fmt.Errorf("harness: %v", err)
	}
	if perm != 0 {
		permuteTop(from, perm)
		permuteTop(to, perm+1)
	}
	empty := gm.Empty(c.Dialect, base)
	differ := gm.Differ(c.Dialect)
	dir := &migrate.MemDir{}
	for i, pair := range [][2]*schema.Schema{{empty, to}, {from, to}, {from, empty}} {
		name := []string{"create", "modify", "drop"}[i]
		// diff normalisation mutates its inputs: rebuild for every use
		a, b := pair[0], pair[1]
		changes, err := differ.SchemaDiff(a, b, schema.DiffNormalized())
		if err != nil {
			return nil, fmt.Errorf("diff %s: %v", name, err)
		}
		plan, err := planner(c.Dialect).PlanChanges(context.Background(), "p", changes, func(o *migrate.PlanOptions) {
			o.Mode = migrate.PlanMode(c.Mode)
			o.SchemaQualifier = new(string)
			o.Indent = "  "
		})
		if err != nil {
			out["plan-"+name] = "error: " + err.Error()
			continue
		}
		var b2 strings.Builder
		for _, ch := range plan.Changes {
			b2.WriteString(ch.Cmd + "\n--\n")
			rs, _ := ch.ReverseStmts()
			b2.WriteString(strings.Join(rs, "\n") + "\n==\n")
		}
		out["plan-"+name] = b2.String()
		// the same change set planned a second time (what `schema apply` does: once to show the plan, once to apply it)
		again, err := planner(c.Dialect).PlanChanges(context.Background(), "p", changes, func(o *migrate.PlanOptions) {
			o.Mode = migrate.PlanMode(c.Mode)
			o.SchemaQualifier = new(string)
			o.Indent = "  "
		})
		if err != nil {
			return nil, fmt.Errorf("%s: planning the same change set a second time fails: %v", name, err)
		}
		var b3 strings.Builder
		for _, ch := range again.Changes {
			b3.WriteString(ch.Cmd + "\n--\n")
			rs, _ := ch.ReverseStmts()
			b3.WriteString(strings.Join(rs, "\n") + "\n==\n")
		}
		if b3.String() != b2.String() {
			return nil, fmt.Errorf("%s (%s): planning the same change set a second time gives different statements (the planner changed its input)\n first:\n%s\n second:\n%s", c.Dialect, name, b2.String(), b3.String())
		}
		plan.Version, plan.Name = fmt.Sprintf("%d", 100+i), name
		f, err := migrate.DefaultFormatter.FormatFile(plan)
		if err != nil {
			return nil, fmt.Errorf("format %s: %v", name, err)
		}
		out["file-"+name] = string(f.Bytes())
		if err := dir.WriteFile(f.Name(), f.Bytes()); err != nil {
			return nil, err
		}
	}
	// more files that share a version with a plan file (only the names tell them apart), and one without a version
	for _, n := range []string{"100_aa_more.sql", "100_zz_more.sql", "101_b.sql", "101.sql", "seed.sql"} {
		if err := dir.WriteFile(n, []byte("SELECT 1;\n")); err != nil {
			return nil, err
		}
	}
	hf, err := dir.Checksum()
	if err != nil {
		return nil, err
	}
	sum, err := hf.MarshalText()
	if err != nil {
		return nil, err
	}
	out["atlas.sum"] = string(sum)
	fresh, _ := gm.Build(c.Dialect, edited)
	if perm != 0 {
		permuteTop(fresh, perm+1)
	}
	h, err := gm.MarshalHCL(c.Dialect, fresh)
	if err != nil {
		return nil, fmt.Errorf("MarshalHCL: %v", err)
	}
	out["hcl"] = string(h)
	return out, nil
}

// permuteTop reorders the top-level objects only (tables, enum types) — the declaration order of source blocks.
func permuteTop(s *schema.Schema, seed int64) {
	r := uint64(seed)*6364136223846793005 + 1442695040888963407
	next := func(n int) int {
		r = r*6364136223846793005 + 1442695040888963407
		return int((r >> 33) % uint64(n))
	}
	for i := len(s.Tables) - 1; i > 0; i-- {
		j := next(i + 1)
		s.Tables[i], s.Tables[j] = s.Tables[j], s.Tables[i]
	}
	for i := len(s.Objects) - 1; i > 0; i-- {
		j := next(i + 1)
		s.Objects[i], s.Objects[j] = s.Objects[j], s.Objects[i]
	}
}

func digest(m map[string]string) string {
	var ks []string
	for k := range m {
		ks = append(ks, k)
	}
	sort.Strings(ks)
	h := sha256.New()
	for _, k := range ks {
		fmt.Fprintf(h, "%s\x00%d\x00%s\x00", k, len(m[k]), m[k])
	}
	return fmt.Sprintf("%x", h.Sum(nil))
}

func firstDiff(a, b map[string]string) string {
	for k, v := range a {
		if b[k] != v {
			return fmt.Sprintf("output %q differs:\n--- first:\n%s\n--- second:\n%s", k, clip(v), clip(b[k]))
		}
	}
	return "different key sets"
}

func clip(s string) string {
	if len(s) > 1500 {
		return s[:1500] + "…"
	}
	return s
}

// stmtMultiset splits a rendered plan into its statements, sorted.
func stmtMultiset(plan string) string {
	parts := strings.Split(plan, "\n==\n")
	sort.Strings(parts)
	return strings.Join(parts, "\n==\n")
}

type Outcome struct {
	Stmts int
}

// checkCase: (a) 20 repetitions give identical bytes; (c) the same under concurrency with unrelated work;
// (b) a permuted declaration order changes at most the order of statements.
func checkCase(c Case, others []Case) (Outcome, error) {
	var out Outcome
	ref, err := Render(c, 0)
	if err != nil {
		return out, err
	}
	out.Stmts = strings.Count(ref["plan-create"]+ref["plan-modify"]+ref["plan-drop"], "\n==\n")
	for i := 0; i < 20; i++ {
		again, err := Render(c, 0)
		if err != nil {
			return out, err
		}
		if digest(again) != digest(ref) {
			return out, fmt.Errorf("%s: repetition %d of the same planning/marshalling/formatting/hashing gives different bytes: %s", c.Dialect, i+2, firstDiff(ref, again))
		}
	}
	// an unrelated operation of another kind: a driver connected to another server (MySQL 5.7, whose default collation of
	// utf8mb4 is utf8mb4_general_ci) compares two tables; what it learned from that server must not leak into this plan
	if err := otherServerWork(); err != nil {
		return out, fmt.Errorf("harness: %v", err)
	}
	if again, err := Render(c, 0); err != nil {
		return out, err
	} else if digest(again) != digest(ref) {
		return out, fmt.Errorf("%s: after a driver connected to another server did unrelated work in the process, the same planning/marshalling/formatting/hashing gives different bytes: %s", c.Dialect, firstDiff(ref, again))
	}
	// concurrency: this case 4x plus unrelated cases, all at once
	var wg sync.WaitGroup
	res := make([]map[string]string, 4+len(others))
	errs := make([]error, 4+len(others))
	for i := range res {
		wg.Add(1)
		go func(i int) {
			defer wg.Done()
			if i < 4 {
				res[i], errs[i] = Render(c, 0)
			} else {
				res[i], errs[i] = Render(others[i-4], 0)
			}
		}(i)
	}
	wg.Wait()
	for i := 0; i < 4; i++ {
		if errs[i] != nil {
			return out, fmt.Errorf("concurrent run failed: %v", errs[i])
		}
		if digest(res[i]) != digest(ref) {
			return out, fmt.Errorf("%s: running concurrently with unrelated operations changes the output: %s", c.Dialect, firstDiff(ref, res[i]))
		}
	}
	for i, o := range others {
		seq, err := Render(o, 0)
		if err != nil || errs[4+i] != nil {
			continue
		}
		if digest(seq) != digest(res[4+i]) {
			return out, fmt.Errorf("%s: an unrelated operation run concurrently differs from its sequential result: %s", o.Dialect, firstDiff(seq, res[4+i]))
		}
	}
	if c.Perm != 0 {
		p, err := Render(c, c.Perm)
		if err != nil {
			return out, err
		}
		for _, k := range []string{"plan-create", "plan-modify", "plan-drop"} {
			if strings.HasPrefix(ref[k], "error:") || strings.HasPrefix(p[k], "error:") {
				continue
			}
			if stmtMultiset(ref[k]) != stmtMultiset(p[k]) {
				return out, fmt.Errorf("%s: listing the same objects in another order changes the content of the planned statements (%s):\n--- declared order:\n%s\n--- permuted:\n%s", c.Dialect, k, clip(ref[k]), clip(p[k]))
			}
		}
	}
	return out, nil
}

// otherServerWork diffs two tables through a driver connected to a (mocked) MySQL 5.7 server.
func otherServerWork() error {
	drv, err := gm.OpenMySQLServer("5.7.44", map[string]string{"utf8mb4": "utf8mb4_general_ci", "utf8": "utf8_general_ci", "latin1": "latin1_swedish_ci", "verif_cs": "verif_cs_ci"})
	if err != nil {
		return err
	}
	mk := func(collate string) *schema.Schema {
		t := schema.NewTable("u").AddColumns(schema.NewIntColumn("id", "int"), schema.NewStringColumn("s", "varchar", schema.StringSize(10))).SetCharset("utf8mb4")
		if collate != "" {
			t.SetCollation(collate)
		}
		return schema.New("elsewhere").SetCharset("utf8mb4").SetCollation("utf8mb4_general_ci").AddTables(t)
	}
	if _, err := drv.SchemaDiff(mk(""), mk("utf8mb4_bin")); err != nil {
		return err
	}
	_, err = drv.SchemaDiff(mk("utf8mb4_bin"), mk(""))
	return err
}
