// Package c14: the dev database is never damaged — refused if not empty, always handed back empty.
package c14

import (
	"crypto/sha256"
	"fmt"
	"os"
	"path/filepath"
	"sort"
	"strings"

	"verif/cli"
	"verif/sqliteref"
)

type Case struct {
	Cmd    string `json:"cmd"`    // migrate-diff | migrate-validate | migrate-lint | schema-apply | schema-diff
	Dev    string `json:"dev"`    // empty | tables | view | trigger | lookalike | libsql-lookalike | virtual | memory
	Files  []int  `json:"files"`  // statements per migration file (directory commands) / statements of the SQL schema
	FailAt int    `json:"fail_at"` // global index of the failing statement (-1 = none)
	Style  int    `json:"style"`   // 0 tables+indexes; 1 views first (view-only prefixes / end states); 2 tables, views on them and triggers
	Ckpt   int    `json:"ckpt,omitempty"`   // directory commands: 1-based index of the file that is a checkpoint (0 = none); replay starts there
	Latest int    `json:"latest,omitempty"` // migrate lint: --latest N (0 = 1)
	// FailKind: 0 the failing statement is rejected by the engine; 1 it executes but leaves a state that cannot be inspected
	// (foreign key to a column that does not exist); 2 it opens its own transaction and fails inside it
	FailKind int `json:"fail_kind,omitempty"`
	// ViaEnv: the dev database is named by the selected env of a project file (dev = "...") instead of --dev-url
	ViaEnv bool `json:"via_env,omitempty"`
}

func stmtsFor(c Case) [][]string {
	var out [][]string
	k := 0
	for f, n := range c.Files {
		var fs []string
		for j := 0; j < n; j++ {
			s := fmt.Sprintf("CREATE TABLE t%d_%d (id integer PRIMARY KEY AUTOINCREMENT, v text)", f, j)
			if j%2 == 1 {
				s = fmt.Sprintf("CREATE INDEX i%d_%d ON t%d_%d (v)", f, j, f, j-1)
			}
			switch c.Style {
			case 1: // views only in the first file, tables afterwards
				if f == 0 {
					s = fmt.Sprintf("CREATE VIEW v%d_%d AS SELECT %d AS one", f, j, k)
				}
			case 2:
				switch j % 3 {
				case 1:
					s = fmt.Sprintf("CREATE VIEW v%d_%d AS SELECT id, v FROM t%d_%d", f, j, f, j-1)
				case 2:
					s = fmt.Sprintf("CREATE TRIGGER g%d_%d AFTER INSERT ON t%d_%d BEGIN SELECT 1; END", f, j, f, j-2)
				}
			}
			if k == c.FailAt {
				s = fmt.Sprintf("CREATE INDEX broken_%d ON no_such_table_%d (v)", k, k)
				switch c.FailKind {
				case 1:
					// executes fine, but the state cannot be read back afterwards: the referenced column does not exist
					s = fmt.Sprintf("CREATE TABLE dangling_%d (id integer, p integer REFERENCES dangling_%d (nope))", k, k)
				case 2:
					// the file opens a transaction itself and fails inside it
					s = fmt.Sprintf("BEGIN;\nCREATE TABLE intx_%d (id integer);\nINSERT INTO no_such_table_%d VALUES (1);\nCOMMIT", k, k)
				}
			}
			fs = append(fs, s)
			k++
		}
		out = append(out, fs)
	}
	return out
}

func dirState(dir string) (map[string]string, error) {
	out := map[string]string{}
	ents, err := os.ReadDir(dir)
	if err != nil {
		return nil, err
	}
	for _, e := range ents {
		b, err := os.ReadFile(filepath.Join(dir, e.Name()))
		if err != nil {
			return nil, err
		}
		out[e.Name()] = fmt.Sprintf("%x", sha256.Sum256(b))
	}
	return out, nil
}

func fmtState(m map[string]string) string {
	var ks []string
	for k, v := range m {
		ks = append(ks, k+"="+v[:8])
	}
	sort.Strings(ks)
	return strings.Join(ks, " ")
}

func devDump(path string) (string, error) {
	db, err := sqliteref.OpenFile(path)
	if err != nil {
		return "", err
	}
	defer db.Close()
	d, err := sqliteref.DataDump(db, sqliteref.DataDumpOptions{Rowid: true})
	if err != nil {
		return "", err
	}
	// internal bookkeeping tables (sqlite_sequence) too
	extra, err := sqliteref.QueryStrings(db, "SELECT type || ' ' || name || ' ' || IFNULL(sql,'') FROM sqlite_master WHERE name LIKE 'sqlite_%' ORDER BY name")
	if err != nil {
		return "", err
	}
	return d + strings.Join(extra, "\n"), nil
}

type Outcome struct {
	Refused  bool
	Executed int // statements the replay executed on the dev database before the end / the failure
	Exit     int
}

func checkCase(c Case) (Outcome, error) {
	var out Outcome
	sb, err := cli.NewSandbox()
	if err != nil {
		return out, fmt.Errorf("harness: %v", err)
	}
	defer sb.Close()
	devPath := sb.Path("dev.db")
	devURL := "sqlite://" + devPath
	if c.Dev == "memory" {
		devURL = "sqlite://dev?mode=memory"
	} else {
		db, err := sqliteref.OpenFile(devPath)
		if err != nil {
			return out, fmt.Errorf("harness: %v", err)
		}
		setup := []string{"PRAGMA user_version = 0"}
		switch c.Dev {
		case "tables":
			setup = append(setup, "CREATE TABLE precious (id integer PRIMARY KEY, note text)", "INSERT INTO precious VALUES (1, 'keep me'), (2, 'and me')", "CREATE INDEX precious_note ON precious (note)")
		case "view":
			setup = append(setup, "CREATE VIEW precious_view AS SELECT 1 AS one")
		case "lookalike":
			// a user table whose name merely starts like SQLite's internal tables (sqlite_...): `_` is a LIKE wildcard
			setup = append(setup, "CREATE TABLE sqlitex (id integer PRIMARY KEY, note text)", "INSERT INTO sqlitex VALUES (1, 'keep me')")
		case "virtual":
			// only a virtual table (full-text index) with its shadow tables and a document
			setup = append(setup, "CREATE VIRTUAL TABLE docs USING fts4(body)", "INSERT INTO docs (body) VALUES ('keep me')")
		case "libsql-lookalike":
			// a user table of a plain SQLite database whose name starts like the internal tables of libSQL servers
			setup = append(setup, "CREATE TABLE libsql_notes (id integer PRIMARY KEY, note text)", "INSERT INTO libsql_notes VALUES (1, 'keep me')", "CREATE INDEX libsql_notes_note ON libsql_notes (note)")
		case "trigger":
			setup = append(setup, "CREATE TABLE precious (id integer)", "CREATE TRIGGER precious_trg AFTER INSERT ON precious BEGIN SELECT 1; END")
		}
		for _, s := range setup {
			if _, err := db.Exec(s); err != nil {
				db.Close()
				return out, fmt.Errorf("harness: %v", err)
			}
		}
		db.Close()
	}
	stmts := stmtsFor(c)
	total := 0
	for _, fs := range stmts {
		total += len(fs)
	}
	out.Executed = total
	if c.FailAt >= 0 && c.FailAt < total {
		out.Executed = c.FailAt
	}
	os.MkdirAll(sb.Path("m"), 0o755)
	var args []string
	switch c.Cmd {
	case "migrate-diff", "migrate-validate", "migrate-lint":
		for f, fs := range stmts {
			hdr := ""
			if c.Ckpt == f+1 {
				hdr = "-- atlas:checkpoint\n\n"
			}
			sb.WriteFile(fmt.Sprintf("m/%d_f.sql", f+1), hdr+strings.Join(fs, ";\n")+";\n")
		}
		if r := sb.Run("migrate", "hash", "--dir", "file://m"); r.Code != 0 {
			return out, fmt.Errorf("harness: %v", r)
		}
		switch c.Cmd {
		case "migrate-diff":
			sb.WriteFile("schema.sql", "CREATE TABLE brand_new (id integer);\n")
			args = []string{"migrate", "diff", "next", "--dir", "file://m", "--dev-url", devURL, "--to", "file://schema.sql"}
		case "migrate-validate":
			args = []string{"migrate", "validate", "--dir", "file://m", "--dev-url", devURL}
		default:
			args = []string{"migrate", "lint", "--dir", "file://m", "--dev-url", devURL, "--latest", fmt.Sprint(max(c.Latest, 1))}
		}
	case "schema-apply":
		var all []string
		for _, fs := range stmts {
			all = append(all, fs...)
		}
		sb.WriteFile("schema.sql", strings.Join(all, ";\n")+";\n")
		tdb, _ := sqliteref.OpenFile(sb.Path("target.db"))
		tdb.Exec("PRAGMA user_version = 0")
		tdb.Close()
		args = []string{"schema", "apply", "--url", "sqlite://" + sb.Path("target.db"), "--to", "file://schema.sql", "--dev-url", devURL, "--auto-approve"}
	case "schema-diff":
		var all []string
		for _, fs := range stmts {
			all = append(all, fs...)
		}
		sb.WriteFile("a.sql", "CREATE TABLE base_t (id integer);\n")
		sb.WriteFile("schema.sql", strings.Join(all, ";\n")+";\n")
		args = []string{"schema", "diff", "--from", "file://a.sql", "--to", "file://schema.sql", "--dev-url", devURL}
	default:
		return out, fmt.Errorf("harness: cmd %q", c.Cmd)
	}
	dirBefore, err := dirState(sb.Path("m"))
	if err != nil {
		return out, fmt.Errorf("harness: %v", err)
	}
	var devBefore string
	if c.Dev != "memory" {
		if devBefore, err = devDump(devPath); err != nil {
			return out, fmt.Errorf("harness: %v", err)
		}
	}
	if c.ViaEnv {
		var a2 []string
		for i := 0; i < len(args); i++ {
			if args[i] == "--dev-url" {
				sb.WriteFile("atlas.hcl", fmt.Sprintf("env \"x\" {\n  dev = %q\n}\n", args[i+1]))
				a2 = append(a2, "--env", "x", "-c", "file://atlas.hcl")
				i++
				continue
			}
			a2 = append(a2, args[i])
		}
		args = a2
	}
	r := sb.Run(args...)
	out.Exit = r.Code
	dirAfter, err := dirState(sb.Path("m"))
	if err != nil {
		return out, fmt.Errorf("harness: %v", err)
	}
	// the migration directory: untouched, except that `migrate diff` may add one file and rewrite atlas.sum
	for n, h := range dirBefore {
		if n == "atlas.sum" && c.Cmd == "migrate-diff" {
			continue
		}
		if dirAfter[n] != h {
			return out, fmt.Errorf("%s changed or removed migration directory file %q\n before: %s\n after:  %s\n%v", c.Cmd, n, fmtState(dirBefore), fmtState(dirAfter), r)
		}
	}
	added := 0
	for n := range dirAfter {
		if _, ok := dirBefore[n]; !ok {
			added++
		}
	}
	if added > 0 && (c.Cmd != "migrate-diff" || added > 1) {
		return out, fmt.Errorf("%s added %d files to the migration directory\n before: %s\n after:  %s", c.Cmd, added, fmtState(dirBefore), fmtState(dirAfter))
	}
	if c.Dev == "memory" {
		return out, nil
	}
	devAfter, err := devDump(devPath)
	if err != nil {
		return out, fmt.Errorf("harness: %v", err)
	}
	switch c.Dev {
	case "tables", "view", "trigger", "lookalike", "libsql-lookalike", "virtual":
		out.Refused = r.Code != 0
		if devAfter != devBefore {
			return out, fmt.Errorf("%s on a non-empty dev database (%s) modified it (exit %d):\n before:\n%s\n after:\n%s\n%v", c.Cmd, c.Dev, r.Code, devBefore, devAfter, r)
		}
		if r.Code == 0 {
			return out, fmt.Errorf("%s accepted a dev database that is not empty (%s): %v", c.Cmd, c.Dev, r)
		}
		if !strings.Contains(r.Stderr+r.Stdout, "clean") {
			return out, fmt.Errorf("%s refused the non-empty dev database without saying it is not clean: %v", c.Cmd, r)
		}
	default: // empty: handed back empty, success or failure
		if devAfter != devBefore {
			return out, fmt.Errorf("%s (exit %d, failing statement index %d) did not hand the dev database back empty:\n%s\n%v", c.Cmd, r.Code, c.FailAt, devAfter, r)
		}
		// a statement in a file that precedes the checkpoint is never replayed
		skipped := 0
		if c.Ckpt > 1 && (c.Cmd == "migrate-diff" || c.Cmd == "migrate-validate") {
			for f := 0; f < c.Ckpt-1 && f < len(stmts); f++ {
				skipped += len(stmts[f])
			}
		}
		if c.FailAt >= skipped && c.FailAt < total && r.Code == 0 && c.Cmd != "migrate-lint" && c.FailKind == 0 {
			return out, fmt.Errorf("harness: %s was expected to fail at statement %d: %v", c.Cmd, c.FailAt, r)
		}
	}
	return out, nil
}
