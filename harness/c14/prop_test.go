package c14

import (
	"fmt"
	"strings"
	"testing"

	"pgregory.net/rapid"

	"verif/ev"
)

var known = ev.Matcher[Case]{
	// a migration file that opens a transaction itself and fails inside it: the pooled connection stays inside that
	// transaction, the restore's DELETE/VACUUM run in it ("cannot VACUUM from within a transaction") and what earlier
	// statements created stays in the dev database
	"file-opens-own-transaction-and-fails": func(c Case, err error) bool {
		return c.FailKind == 2 && c.FailAt >= 0 && c.Dev == "empty" && strings.Contains(err.Error(), "did not hand the dev database back empty")
	},
	// a plain SQLite dev database holding only libsql_* tables is taken for empty (the inspection hides those names on
	// every connection); since the repair it is handed back untouched, but it is not refused
	"libsql-named-tables-not-seen": func(c Case, err error) bool {
		return c.Dev == "libsql-lookalike" && (strings.Contains(err.Error(), "accepted a dev database that is not empty (libsql-lookalike)") ||
			strings.Contains(err.Error(), "refused the non-empty dev database without saying it is not clean")) // the replay ran and failed on its own statement
	},
}

const rule = "real CLI, SQLite: commands {migrate diff, migrate validate --dev-url, migrate lint, schema apply --to file://schema.sql --dev-url, schema diff file:// -> file://} " +
	"x dev database {empty file, file with tables+rows+index, file holding only a view, file with a table and a trigger, file holding a table named sqlitex, file holding a table named libsql_notes, file holding only a virtual (fts4) table, in-memory} x migration directories / SQL schemas of 1-3 files x 1-3 statements (tables with AUTOINCREMENT, indexes, views incl. view-only prefixes and end states, triggers) " +
	"with a failing statement at every position or none; directory commands also with one file being a checkpoint (replay starts there) and, for lint, every window --latest N. Oracle (independent connection, full dump incl. sqlite_master and sqlite_ bookkeeping tables, rows, rowids; directory listing + SHA-256 of every file): " +
	"non-empty dev => non-zero exit that says the database is not clean, dev dump unchanged; empty dev => dump after == dump before (no object left) whether the command succeeded or failed; " +
	"directory files unchanged, except that migrate diff may add one file and rewrite atlas.sum. " +
	"non-trivial = the replay executed >=1 statement on the dev database before the end/failure, or the dev database was non-empty; distinct key = (command, dev kind, shape, failure position)"

var cmds = []string{"migrate-diff", "migrate-validate", "migrate-lint", "schema-apply", "schema-diff"}
var devs = []string{"empty", "tables", "view", "trigger", "lookalike", "libsql-lookalike", "virtual", "memory"}

func TestCheck(t *testing.T) {
	col := ev.New("C14", "exploration", rule)
	defer col.Finish()
	check := func(c Case) error {
		out, err := checkCase(c)
		col.Class(fmt.Sprintf("%s/dev=%s/exit=%v", c.Cmd, c.Dev, out.Exit != 0))
		if c.Ckpt > 0 {
			col.Class(c.Cmd + "/with-checkpoint-file")
		}
		if c.FailKind > 0 && c.FailAt >= 0 {
			col.Class(fmt.Sprintf("%s/fail-kind=%d", c.Cmd, c.FailKind))
		}
		if out.Executed > 0 || (c.Dev != "empty" && c.Dev != "memory") {
			col.NonTrivial(fmt.Sprintf("%s|%s|%v|%d|%d|%d|%d|%d", c.Cmd, c.Dev, c.Files, c.FailAt, c.Style, c.Ckpt, c.Latest, c.FailKind)+fmt.Sprint(c.ViaEnv))
		}
		col.Sample(c.Cmd+"/"+c.Dev, c)
		return err
	}
	shapes := [][]int{{2}, {2, 1}}
	if col.Thorough() {
		shapes = [][]int{{1}, {2}, {3}, {2, 1}, {1, 3}, {2, 2, 2}, {3, 3, 3}}
	}
	i := 0
	for _, cmd := range cmds {
		for _, dev := range devs {
			for _, sh := range shapes {
				total := 0
				for _, n := range sh {
					total += n
				}
				for style := 0; style < 3; style++ {
					if style > 0 && dev != "empty" && !col.Thorough() {
						continue
					}
					for fail := -1; fail < total; fail++ {
						if dev != "empty" && fail > 0 && !col.Thorough() {
							continue // non-empty dev: the command must refuse before replaying anything
						}
						i++
						if !col.Mine(i) {
							continue
						}
						if !ev.Each(col, "enumerated", Case{Cmd: cmd, Dev: dev, Files: sh, FailAt: fail, Style: style, ViaEnv: i%4 == 0}, check, known) {
							return
						}
						// other ways to fail: a state that cannot be read back, a file that opens its own transaction
						if dev == "empty" && style == 0 && fail >= 0 {
							for fk := 1; fk <= 2; fk++ {
								if !ev.Each(col, "enumerated", Case{Cmd: cmd, Dev: dev, Files: sh, FailAt: fail, FailKind: fk}, check, known) {
									return
								}
							}
						}
					}
				}
			}
		}
	}
	// directories with a checkpoint file: replay starts at the checkpoint; lint analyses the window --latest N, which may
	// hold the checkpoint file
	ckShapes := [][]int{{2, 2}, {2, 1, 2}}
	if col.Thorough() {
		ckShapes = append(ckShapes, []int{1, 2, 3}, []int{2, 2, 2, 2})
	}
	for _, cmd := range []string{"migrate-lint", "migrate-validate", "migrate-diff"} {
		for _, sh := range ckShapes {
			total := 0
			for _, n := range sh {
				total += n
			}
			for ck := 1; ck <= len(sh); ck++ {
				for latest := 1; latest <= len(sh); latest++ {
					if cmd != "migrate-lint" && latest > 1 {
						continue
					}
					for fail := -1; fail < total; fail++ {
						i++
						if !col.Mine(i) {
							continue
						}
						if !ev.Each(col, "enumerated-checkpoint", Case{Cmd: cmd, Dev: "empty", Files: sh, FailAt: fail, Ckpt: ck, Latest: latest}, check, known) {
							return
						}
					}
				}
			}
		}
	}
	gen := func(t *rapid.T) Case {
		c := Case{Cmd: rapid.SampledFrom(cmds).Draw(t, "cmd"), Dev: rapid.SampledFrom(devs).Draw(t, "dev")}
		total := 0
		for n := rapid.IntRange(1, 3).Draw(t, "files"); n > 0; n-- {
			k := rapid.IntRange(1, 4).Draw(t, "stmts")
			c.Files = append(c.Files, k)
			total += k
		}
		c.FailAt = rapid.IntRange(-1, total-1).Draw(t, "fail")
		c.Style = rapid.IntRange(0, 2).Draw(t, "style")
		c.FailKind = rapid.SampledFrom([]int{0, 0, 1, 2}).Draw(t, "failkind")
		c.ViaEnv = rapid.IntRange(0, 2).Draw(t, "viaenv") == 0
		if c.Dev == "libsql-lookalike" && c.FailKind == 2 {
			c.FailKind = 0 // the two recorded findings are kept apart: this dev database is not refused, so the replay runs on it
		}
		if strings.HasPrefix(c.Cmd, "migrate-") && rapid.IntRange(0, 2).Draw(t, "withckpt") == 0 {
			c.Ckpt = rapid.IntRange(1, len(c.Files)).Draw(t, "ckpt")
			c.Latest = rapid.IntRange(1, len(c.Files)).Draw(t, "latest")
		}
		return c
	}
	ev.Rapid(t, col, "random", col.N(30, 4000), gen, check, known)
}

func TestReplay(t *testing.T) {
	ev.ReplayFile(t, "C14", func(_ string, c Case) error { _, err := checkCase(c); return err })
}
