// Package cli runs the real atlas binary (built by the driver from /repo's current tree with
// -tags verif) as a subprocess with a scrubbed environment.
package cli

import (
	"bytes"
	"context"
	"errors"
	"fmt"
	"os"
	"os/exec"
	"path/filepath"
	"strings"
	"syscall"
	"time"
)

// Bin returns the path of the atlas binary under test.
func Bin() string {
	if b := os.Getenv("VERIF_ATLAS_BIN"); b != "" {
		return b
	}
	return "/verif/.work/bin/atlas"
}

// Result of one CLI invocation.
type Result struct {
	Args   []string `json:"args"`
	Stdout string   `json:"stdout"`
	Stderr string   `json:"stderr"`
	Code   int      `json:"code"` // exit status; -1 = killed by the per-invocation watchdog
}

func (r Result) String() string {
	return fmt.Sprintf("atlas %s\n  exit=%d\n  stdout: %s\n  stderr: %s", strings.Join(r.Args, " "), r.Code, clip(r.Stdout), clip(r.Stderr))
}

func clip(s string) string {
	if len(s) > 1500 {
		return s[:1500] + "…"
	}
	return s
}

// Sandbox is a per-case scratch directory: HOME and TMPDIR of every invocation live inside it,
// so the SQLite driver's lock files (os.TempDir) never leak between cases or parallel workers.
type Sandbox struct {
	Dir string
	Env []string // extra KEY=VALUE
}

// NewSandbox creates a scratch directory under base (a directory that the caller removes).
func NewSandbox() (*Sandbox, error) {
	base := os.Getenv("VERIF_SCRATCH")
	if base == "" {
		base = os.TempDir()
	}
	d, err := os.MkdirTemp(base, "vcase")
	if err != nil {
		return nil, err
	}
	for _, s := range []string{"home", "tmp"} {
		if err := os.Mkdir(filepath.Join(d, s), 0o755); err != nil {
			return nil, err
		}
	}
	return &Sandbox{Dir: d}, nil
}

func (s *Sandbox) Close() { os.RemoveAll(s.Dir) }

// Path joins a name under the sandbox.
func (s *Sandbox) Path(elem ...string) string {
	return filepath.Join(append([]string{s.Dir}, elem...)...)
}

// ClearLocks removes lock files a killed process left in the sandbox TMPDIR.
func (s *Sandbox) ClearLocks() {
	m, _ := filepath.Glob(filepath.Join(s.Dir, "tmp", "*"))
	for _, f := range m {
		os.RemoveAll(f)
	}
}

// Run executes atlas with args, cwd = sandbox dir.
func (s *Sandbox) Run(args ...string) Result { return s.RunEnv(nil, args...) }

// RunEnv is Run with extra environment entries.
func (s *Sandbox) RunEnv(env []string, args ...string) Result { return s.RunIn("", env, args...) }

// RunIn is RunEnv with the given text piped to the command's standard input.
func (s *Sandbox) RunIn(stdin string, env []string, args ...string) Result {
	ctx, cancel := context.WithTimeout(context.Background(), 300*time.Second)
	defer cancel()
	cmd := exec.CommandContext(ctx, Bin(), args...)
	cmd.Dir = s.Dir
	cmd.Env = append([]string{
		"HOME=" + filepath.Join(s.Dir, "home"),
		"TMPDIR=" + filepath.Join(s.Dir, "tmp"),
		"PATH=/usr/bin:/bin",
		"ATLAS_NO_UPDATE_NOTIFIER=1",
		"ATLAS_NO_UPGRADE_SUGGESTIONS=1",
		"NO_COLOR=1",
		"TERM=dumb",
	}, s.Env...)
	cmd.Env = append(cmd.Env, env...)
	var so, se bytes.Buffer
	cmd.Stdout, cmd.Stderr = &so, &se
	if stdin != "" {
		cmd.Stdin = strings.NewReader(stdin)
	}
	cmd.SysProcAttr = &syscall.SysProcAttr{Setpgid: true}
	err := cmd.Run()
	r := Result{Args: args, Stdout: so.String(), Stderr: se.String()}
	var ee *exec.ExitError
	switch {
	case err == nil:
	case ctx.Err() != nil:
		r.Code = -1
	case errors.As(err, &ee):
		r.Code = ee.ExitCode()
	default:
		r.Code = -2
		r.Stderr += "\nexec error: " + err.Error()
	}
	return r
}

// WriteFile writes a file below the sandbox (creating parents).
func (s *Sandbox) WriteFile(rel string, data string) error {
	p := s.Path(rel)
	if err := os.MkdirAll(filepath.Dir(p), 0o755); err != nil {
		return err
	}
	return os.WriteFile(p, []byte(data), 0o644)
}
