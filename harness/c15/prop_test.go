package c15

import (
	"regexp"
	"fmt"
	"reflect"
	"sort"
	"strings"
	"testing"

	"ariga.io/atlas/schemahcl"
	"pgregory.net/rapid"

	"verif/c02"
	"verif/ev"
	"verif/gm"
)

var knownT = ev.Matcher[TCase]{}
var knownS = ev.Matcher[SCase]{
	// a string default whose text itself starts and ends with a double quote: evaluation hands string defaults over
	// without their SQL quotes and every later stage takes outer double quotes for quoting
	"string-default-wrapped-in-double-quotes": func(c SCase, err error) bool {
		ms := reChangedDefault.FindAllStringSubmatch(err.Error(), -1)
		if len(ms) == 0 || !strings.Contains(err.Error(), "is not empty: *schema.ModifyTable(alltypes){") {
			return false
		}
		wrapped := map[string]bool{}
		for _, t := range c.S.Tables {
			if t.Name == "alltypes" {
				for _, col := range t.Cols {
					wrapped[col.Name] = strings.HasPrefix(col.Default, `'"`) && strings.HasSuffix(col.Default, `"'`)
				}
			}
		}
		head := err.Error()
		if i := strings.Index(head, "\n"); i > 0 {
			head = head[:i]
		}
		if strings.Count(head, "*schema.Modify") != 1+len(reChangedDefault.FindAllString(head, -1)) || strings.Contains(head, "*schema.Add") || strings.Contains(head, "*schema.Drop") {
			return false
		}
		for _, m := range ms {
			if !wrapped[m[1]] {
				return false
			}
		}
		return true
	},
}

func init() {
	// MySQL: a check carrying Enforced{V: false} (what inspection sets for NOT ENFORCED) is written as enforced = true
	knownS["mysql-not-enforced-check-written-as-enforced"] = func(c SCase, err error) bool {
		head := err.Error()
		if i := strings.Index(head, "\n"); i > 0 {
			head = head[:i]
		}
		const pre = "mysql: diff(original, EvalHCL(MarshalHCL(original))) is not empty: *schema.ModifyTable(features){"
		if c.Dialect != "mysql" || !strings.HasPrefix(head, pre) || !strings.HasSuffix(head, "}") {
			return false
		}
		no := 0
		for _, t := range c.S.Tables {
			if t.Name == "features" {
				for _, ck := range t.Checks {
					if ck.Enforced == "no" {
						no++
					}
				}
			}
		}
		n := 0
		for _, k := range strings.Split(strings.TrimSuffix(strings.TrimPrefix(head, pre), "}"), ", ") {
			switch k {
			case "*schema.DropCheck", "*schema.ModifyCheck":
				n++
			case "*schema.AddCheck":
			default:
				return false
			}
		}
		return no > 0 && n == no
	}
}

var reChangedDefault = regexp.MustCompile(`\*schema\.ModifyColumn\((c\d+), ChangeDefault\)`)

const rule = "(a) type grid, exhaustive: every TypeSpec of mysql/postgres/sqlite.TypeRegistry x a parameter grid per attribute (size/len {absent,0,1,255}, numeric precision {absent,0,10,38} x scale {absent,0,2}, " +
	"time/interval precision {absent,0,3,6}, float precision {absent,24,53}, unsigned {false,true}, enum/set value lists incl. quotes and commas): Format(Parse(Format(t))) == Format(t) and the type comes back unchanged through TypeRegistry.Convert/Type (the HCL form). " +
	"(b) schemas: the feature-rich per-dialect base (keys, typed/prefix/partial/include/DESC indexes, checks, FKs, generated column, comments, defaults, engine/auto_increment, enums, WITHOUT ROWID) plus an `alltypes` table holding one column per grid type (random subset, random null/default/comment), " +
	"optionally reduced: MarshalHCL -> EvalHCLBytes -> SchemaDiff empty in both directions (DiffNormalized) and MarshalHCL again gives identical bytes. " +
	"non-trivial = a type with >=1 parameter / a schema column with >=1 optional attribute; distinct key = (dialect, spec, which parameters are absent/zero/set) resp. (dialect, sorted column types)"

func gridFor(d string, spec *schemahcl.TypeSpec) []map[string]string {
	grids := [][]string{}
	names := []string{}
	timeLike := strings.Contains(spec.T, "time") || strings.Contains(spec.T, "interval") || strings.Contains(spec.T, "second") || spec.T == "year"
	floatLike := spec.T == "float" && d == "postgres"
	for _, a := range spec.Attributes {
		names = append(names, a.Name)
		switch {
		case a.Kind == reflect.Bool:
			grids = append(grids, []string{"", "true"})
		case a.Kind == reflect.Slice:
			grids = append(grids, []string{"a", "a,b c,it's", "x,y,z"})
		case a.Name == "precision" && timeLike:
			grids = append(grids, []string{"", "0", "3", "6"})
		case a.Name == "precision" && floatLike:
			grids = append(grids, []string{"", "24", "53"})
		case a.Name == "precision":
			grids = append(grids, []string{"", "0", "10", "38"})
		case a.Name == "scale":
			grids = append(grids, []string{"", "0", "2"})
		default: // size, len
			g := []string{"", "0", "1", "255"}
			if a.Required {
				g = g[1:]
			}
			grids = append(grids, g)
		}
	}
	out := []map[string]string{{}}
	for i, g := range grids {
		var next []map[string]string
		for _, m := range out {
			for _, v := range g {
				n := map[string]string{}
				for k, x := range m {
					n[k] = x
				}
				n[names[i]] = v
				next = append(next, n)
			}
		}
		out = next
	}
	// a scale without a precision is not expressible
	var ok []map[string]string
	for _, m := range out {
		if m["scale"] != "" && m["precision"] == "" {
			continue
		}
		ok = append(ok, m)
	}
	return ok
}

func paramKey(m map[string]string) string {
	var ks []string
	for k, v := range m {
		cls := "set"
		switch v {
		case "":
			cls = "absent"
		case "0":
			cls = "zero"
		}
		ks = append(ks, k+"="+cls)
	}
	sort.Strings(ks)
	return strings.Join(ks, ",")
}

// formattedTypes collects the SQL form of every grid type that formats (used to build the alltypes table).
func formattedTypes(d string) []string {
	seen := map[string]bool{}
	var out []string
	for _, spec := range Registry(d).Specs() {
		for _, p := range gridFor(d, spec) {
			o, err := checkType(TCase{Dialect: d, Spec: spec.T, Params: p})
			if err == nil && o.Rejected == "" && o.Formatted != "" && !seen[o.Formatted] {
				seen[o.Formatted] = true
				out = append(out, o.Formatted)
			}
		}
	}
	return out
}

// base is the C02 base without the MySQL table-level AUTO_INCREMENT start value: Atlas deliberately does not
// export it ("this attribute cannot be maintained in users schema and used to set up only the initial value").
func base(d string) gm.Schema {
	s := c02.Base(d)
	for i := range s.Tables {
		s.Tables[i].AutoIncStart = 0
	}
	inherit(&s)
	return s
}

// genFeatures draws a table whose keys and indexes cover the part and index attributes the dialect can express:
// composite / DESC / prefix (MySQL) primary-key parts, index parts with DESC, prefix and expressions, index type,
// predicate, INCLUDE, uniqueness, comments; named and unnamed checks; a foreign key with every pair of actions.
func genFeatures(t *rapid.T, d string) gm.Table {
	ty := map[string][4]string{
		"mysql":    {"bigint", "int", "varchar(255)", "text"},
		"postgres": {"bigint", "integer", "character varying(255)", "text"},
		"sqlite":   {"integer", "int", "varchar(255)", "text"},
	}[d]
	tb := gm.Table{Name: "features", Cols: []gm.Col{
		{Name: "fid", Type: ty[0]}, {Name: "fa", Type: ty[1]}, {Name: "fb", Type: ty[0], Null: true},
		{Name: "fs", Type: ty[2]}, {Name: "ftxt", Type: ty[3]},
	}}
	part := func(label string, cols []string) gm.Part {
		c := rapid.SampledFrom(cols).Draw(t, label+"col")
		p := gm.Part{Col: c, Desc: rapid.IntRange(0, 2).Draw(t, label+"desc") == 0}
		if d == "mysql" && (c == "ftxt" || c == "fs" && rapid.Bool().Draw(t, label+"pfx")) {
			p.Prefix = rapid.SampledFrom([]int{1, 10, 32}).Draw(t, label+"len") // a TEXT key part needs a prefix length
		}
		return p
	}
	distinct := func(label string, n int, cols []string) []gm.Part {
		var out []gm.Part
		used := map[string]bool{}
		for i := 0; i < n; i++ {
			p := part(fmt.Sprintf("%s%d", label, i), cols)
			if !used[p.Col] {
				used[p.Col] = true
				out = append(out, p)
			}
		}
		return out
	}
	pkCols := []string{"fid", "fa", "fs"}
	if d == "mysql" {
		pkCols = append(pkCols, "ftxt")
	}
	if d != "mysql" {
		// PostgreSQL and SQLite primary keys have no per-part options in Atlas' model (the HCL primary_key block lists
		// columns only and neither inspector ever produces DESC or prefix parts for them)
		for _, p := range distinct("pk", rapid.IntRange(1, 2).Draw(t, "npk"), pkCols) {
			tb.PK = append(tb.PK, gm.Part{Col: p.Col})
		}
	} else {
		tb.PK = distinct("pk", rapid.IntRange(1, 3).Draw(t, "npk"), pkCols)
	}
	q := func(c string) string {
		if d == "mysql" {
			return "`" + c + "`"
		}
		return `"` + c + `"`
	}
	for i, n := 0, rapid.IntRange(0, 3).Draw(t, "nidx"); i < n; i++ {
		ix := gm.Index{Name: fmt.Sprintf("fidx%d", i), Unique: rapid.IntRange(0, 2).Draw(t, "uniq") == 0}
		ix.Parts = distinct(fmt.Sprintf("i%dp", i), rapid.IntRange(1, 3).Draw(t, "nparts"), []string{"fid", "fa", "fb", "fs", "ftxt"})
		if d != "mysql" {
			// TEXT columns are indexable without a prefix outside MySQL
		}
		if rapid.IntRange(0, 3).Draw(t, "expr") == 0 {
			ep := gm.Part{Expr: "(" + q("fa") + " + 1)", Desc: rapid.Bool().Draw(t, "exprdesc")}
			if d == "postgres" {
				// an expression part with an operator class and / or a NULLS ordering of its own
				ep.OpClass = rapid.SampledFrom([]string{"", "int4_ops", "int8_ops"}).Draw(t, "exprops")
				ep.NullsOther = rapid.Bool().Draw(t, "exprnulls")
			}
			ix.Parts = append(ix.Parts, ep)
		}
		if d == "postgres" && rapid.IntRange(0, 2).Draw(t, "colnulls") == 0 {
			ix.Parts[0].NullsOther = true
		}
		switch d {
		case "mysql":
			ix.Type = rapid.SampledFrom([]string{"", "", "BTREE", "HASH"}).Draw(t, "itype")
			if rapid.IntRange(0, 2).Draw(t, "icmt") == 0 {
				ix.Comment = "index comment"
			}
		case "postgres":
			ix.Type = rapid.SampledFrom([]string{"", "", "BTREE", "HASH", "BRIN", "GIST"}).Draw(t, "itype")
			if rapid.IntRange(0, 2).Draw(t, "where") == 0 {
				ix.Where = "(" + q("fa") + " > 0)"
			}
			if rapid.IntRange(0, 2).Draw(t, "incl") == 0 {
				ix.Include = []string{"fb"}
			}
			if rapid.IntRange(0, 2).Draw(t, "icmt") == 0 {
				ix.Comment = "index comment"
			}
		case "sqlite":
			if rapid.IntRange(0, 2).Draw(t, "where") == 0 {
				ix.Where = q("fa") + " > 0"
			}
		}
		tb.Indexes = append(tb.Indexes, ix)
	}
	for i, n := 0, rapid.IntRange(0, 2).Draw(t, "nchk"); i < n; i++ {
		ck := gm.Check{Expr: q("fa") + fmt.Sprintf(" > %d", i)}
		if rapid.Bool().Draw(t, "cknamed") {
			ck.Name = fmt.Sprintf("fck%d", i)
		}
		if d == "mysql" {
			ck.Enforced = rapid.SampledFrom([]string{"", "", "no", "yes"}).Draw(t, "enforced")
		}
		tb.Checks = append(tb.Checks, ck)
	}
	if rapid.Bool().Draw(t, "fk") {
		acts := []string{"", "NO ACTION", "RESTRICT", "CASCADE", "SET NULL", "SET DEFAULT"}
		tb.FKs = append(tb.FKs, gm.FK{Name: "ffk", Cols: []string{"fb"}, RefTable: "users", RefCols: []string{"id"},
			OnUpdate: rapid.SampledFrom(acts).Draw(t, "fkupd"), OnDelete: rapid.SampledFrom(acts).Draw(t, "fkdel")})
	}
	if d != "sqlite" && rapid.Bool().Draw(t, "tcmt") {
		tb.Comment = "features of keys and indexes"
	}
	if d == "postgres" && rapid.Bool().Draw(t, "identity") {
		tb.Cols[0].Identity = true
	}
	if d == "mysql" && rapid.IntRange(0, 2).Draw(t, "autoinc") == 0 && len(tb.PK) > 0 && tb.PK[0].Col == "fid" {
		tb.Cols[0].AutoInc = true
	}
	if d == "mysql" {
		// the table inherits the schema's character set; a column may state its own
		// (string, ENUM and SET columns all carry one)
		tb.Cols = append(tb.Cols, gm.Col{Name: "fen", Type: "enum('a','b')", Null: true}, gm.Col{Name: "fset", Type: "set('x','y')", Null: true})
		cc := &tb.Cols[rapid.SampledFrom([]int{3, 3, len(tb.Cols) - 2, len(tb.Cols) - 1}).Draw(t, "cscol")]
		switch rapid.IntRange(0, 3).Draw(t, "colcs") {
		case 0:
			cc.Charset, cc.Collation = "latin1", "latin1_bin"
		case 1:
			cc.Charset, cc.Collation = "utf8mb4", "utf8mb4_bin"
		}
		if rapid.IntRange(0, 3).Draw(t, "tblcs") == 0 {
			tb.Charset, tb.Collation = "latin1", "latin1_swedish_ci"
		}
		// both attributes are stated the way an inspected or normalised schema carries them; what equals the inherited
		// value is then removed like everywhere else in this check
		one := gm.Schema{Charset: "utf8mb4", Collation: "utf8mb4_0900_ai_ci", Tables: []gm.Table{tb}}
		inherit(&one)
		tb = one.Tables[0]
	}
	return tb
}

// inherit removes a character set / collation that is stated on a table or column although it equals what the element
// inherits from its parent: Atlas deliberately writes the attribute to HCL only when it differs from the parent's
// (sqlx.Charset: "needs to be defined explicitly ... in case the element charset is different from its parent charset"),
// so "stated but equal" and "inherited" are the same schema and only the latter survives the round trip.
func inherit(s *gm.Schema) {
	for i := range s.Tables {
		t := &s.Tables[i]
		if t.Charset == s.Charset {
			t.Charset = ""
		}
		if t.Collation == s.Collation {
			t.Collation = ""
		}
		tcs, tco := t.Charset, t.Collation
		if tcs == "" {
			tcs = s.Charset
		}
		if tco == "" {
			tco = s.Collation
		}
		for j := range t.Cols {
			c := &t.Cols[j]
			if c.Charset == tcs {
				c.Charset = ""
			}
			if c.Collation == tco {
				c.Collation = ""
			}
		}
	}
}

// rawTypes lists SQL type spellings per dialect, with their parameter forms, written out by hand.
func rawTypes() map[string][]string {
	out := map[string][]string{}
	for _, f := range []string{"", " year", " month", " day", " hour", " minute", " year to month", " day to hour", " day to minute", " hour to minute"} {
		out["postgres"] = append(out["postgres"], "interval"+f)
	}
	for _, f := range []string{"", " second", " day to second", " hour to second", " minute to second"} {
		out["postgres"] = append(out["postgres"], "interval"+f)
		for p := 0; p <= 6; p++ {
			out["postgres"] = append(out["postgres"], fmt.Sprintf("interval%s(%d)", f, p))
		}
	}
	for p := 0; p <= 6; p++ {
		for _, t := range []string{"timestamp(%d) with time zone", "timestamp(%d) without time zone", "time(%d) with time zone", "time(%d) without time zone", "timestamptz(%d)", "timetz(%d)"} {
			out["postgres"] = append(out["postgres"], fmt.Sprintf(t, p))
		}
		for _, t := range []string{"datetime(%d)", "timestamp(%d)", "time(%d)"} {
			out["mysql"] = append(out["mysql"], fmt.Sprintf(t, p))
		}
	}
	out["postgres"] = append(out["postgres"], "numeric", "numeric(10)", "numeric(10,2)", "numeric(10,0)", "decimal(5,5)", "character varying", "character varying(1)", "varchar(10)", "character(3)", "char", "bit", "bit(3)", "bit varying", "bit varying(5)",
		"float4", "float8", "real", "double precision", "float(10)", "float(40)", "smallint", "integer", "bigint", "int2", "int4", "int8", "serial", "bigserial", "smallserial", "boolean", "bytea", "date", "json", "jsonb", "uuid", "xml", "money",
		"inet", "cidr", "macaddr", "macaddr8", "point", "line", "lseg", "box", "path", "polygon", "circle", "tsvector", "tsquery", "int4range", "int8range", "numrange", "tsrange", "tstzrange", "daterange", "oid", "regclass",
		"integer[]", "text[]", "character varying(10)[]", "numeric(10,2)[]", "timestamp(3) with time zone[]")
	out["mysql"] = append(out["mysql"], "tinyint", "tinyint(1)", "tinyint unsigned", "smallint", "smallint unsigned", "mediumint", "int", "int unsigned", "int(11)", "bigint", "bigint unsigned", "bigint(20) unsigned zerofill",
		"decimal", "decimal(10)", "decimal(10,2)", "decimal(10,2) unsigned", "numeric(8,3)", "float", "float unsigned", "float(10,2)", "double", "double(10,2)", "double unsigned", "real", "bit", "bit(8)", "bool", "boolean",
		"char", "char(10)", "varchar(1)", "varchar(255)", "binary", "binary(4)", "varbinary(16)", "tinytext", "text", "mediumtext", "longtext", "tinyblob", "blob", "mediumblob", "longblob",
		"date", "year", "year(4)", "datetime", "timestamp", "time", "json", "enum('a','b')", "enum('it''s','x,y')", "set('a','b')", "geometry", "point", "linestring", "polygon", "multipoint", "geometrycollection")
	out["sqlite"] = append(out["sqlite"], "integer", "int", "tinyint", "smallint", "mediumint", "bigint", "unsigned big int", "int2", "int8", "real", "double", "double precision", "float", "text", "clob", "character(20)", "varchar(255)",
		"varying character(255)", "nchar(55)", "native character(70)", "nvarchar(100)", "blob", "numeric", "numeric(10,2)", "decimal(10,5)", "boolean", "date", "datetime", "json", "uuid", "MONEY", "Point2D", "VARCHAR2(10)")
	return out
}

func genSchema(types map[string][]string) func(t *rapid.T) SCase {
	return func(t *rapid.T) SCase {
		d := rapid.SampledFrom([]string{"mysql", "postgres", "sqlite"}).Draw(t, "dialect")
		s := base(d)
		// reduce
		if rapid.Bool().Draw(t, "droplogs") {
			s.Tables = s.Tables[:len(s.Tables)-1]
		}
		all := gm.Table{Name: "alltypes", Cols: []gm.Col{{Name: "id", Type: c02.IntType(d)}}, PK: []gm.Part{{Col: "id"}}}
		n := rapid.IntRange(1, 12).Draw(t, "ncols")
		for i := 0; i < n; i++ {
			typ := rapid.SampledFrom(types[d]).Draw(t, "type")
			c := gm.Col{Name: fmt.Sprintf("c%d", i), Type: typ, Null: rapid.Bool().Draw(t, "null")}
			if d != "sqlite" && rapid.IntRange(0, 3).Draw(t, "cmt") == 0 {
				c.Comment = rapid.SampledFrom([]string{"plain", "it's", `say "hi"`, "semi;colon", "back\\slash"}).Draw(t, "comment")
			}
			lt := strings.ToLower(typ)
			switch k := rapid.IntRange(0, 3).Draw(t, "dflt"); {
			case k != 0:
			case strings.Contains(lt, "int") || strings.HasPrefix(lt, "numeric") || strings.HasPrefix(lt, "decimal") || strings.HasPrefix(lt, "double") || lt == "real" || strings.HasPrefix(lt, "float"):
				c.Default = rapid.SampledFrom([]string{"0", "7", "-1", "3.5", "3.14159265358979", "1e5", "0.000001", "18446744073709551616", "1234567890.123456789", "0.1000000000000000055"}).Draw(t, "ndef")
			case strings.Contains(lt, "char") || strings.Contains(lt, "text"):
				c.Default = rapid.SampledFrom([]string{"'x'", "''", "'it''s'", "'a;b'", `'say "hi"'`, "'back\\slash'", "'true'", "'null'", "'1'", "'0x10'", `'"x"'`, "'1e5'", "'${x}'", "' '"}).Draw(t, "sdef")
			case strings.Contains(lt, "time") || strings.Contains(lt, "date"):
				c.Default, c.DefaultRaw = rapid.SampledFrom([]string{"CURRENT_TIMESTAMP", "now()"}).Draw(t, "tdef"), true
			}
			all.Cols = append(all.Cols, c)
		}
		feat := genFeatures(t, d)
		// the two recorded findings are kept apart so that each case shows at most one of them
		for _, c := range all.Cols {
			if strings.HasPrefix(c.Default, `'"`) {
				for i := range feat.Checks {
					feat.Checks[i].Enforced = ""
				}
			}
		}
		s.Tables = append(s.Tables, all, feat)
		if d != "sqlite" && rapid.IntRange(0, 3).Draw(t, "twin") == 0 {
			var twin []string
			for _, tb := range s.Tables {
				if rapid.Bool().Draw(t, "twinned") {
					twin = append(twin, tb.Name)
				}
			}
			// the recorded findings are shown by the one-schema cases; a realm case carries neither
			clean := true
			for _, c := range all.Cols {
				clean = clean && !strings.HasPrefix(c.Default, `'"`)
			}
			for _, ck := range feat.Checks {
				clean = clean && ck.Enforced != "no"
			}
			if clean {
				return SCase{Dialect: d, S: s, Twin: twin}
			}
		}
		return SCase{Dialect: d, S: s}
	}
}

func TestCheck(t *testing.T) {
	col := ev.New("C15", "exploration", rule)
	defer col.Finish()
	checkT := func(c TCase) error {
		out, err := checkType(c)
		if out.Rejected != "" {
			col.Reject(c.Dialect + ": " + out.Rejected)
			return err
		}
		cls := c.Dialect + "/type-grid"
		if out.ZeroParam {
			cls += "/zero-param"
		}
		col.Class(cls)
		if out.HasParam {
			col.NonTrivial(fmt.Sprintf("%s|%s|%s", c.Dialect, c.Spec, paramKey(c.Params)))
		}
		col.Sample(cls, c)
		return err
	}
	types := map[string][]string{}
	i := 0
	for _, d := range []string{"mysql", "postgres", "sqlite"} {
		for _, spec := range Registry(d).Specs() {
			for _, p := range gridFor(d, spec) {
				i++
				if !col.Mine(i) {
					continue
				}
				if !ev.Each(col, "type-grid", TCase{Dialect: d, Spec: spec.T, Params: p}, checkT, knownT) {
					return
				}
			}
		}
		types[d] = formattedTypes(d)
	}
	// PostgreSQL time types in the inspector's spelling x every precision
	for _, tn := range []string{"timestamp without time zone", "timestamp with time zone", "time without time zone", "time with time zone", "timestamp", "timestamptz", "time", "timetz"} {
		for p := -1; p <= 6; p++ {
			c := ICase{T: tn, Prec: p}
			ok := ev.Each(col, "inspected-spellings", c, func(c ICase) error {
				col.Class("postgres/inspected-time-spelling")
				col.NonTrivial(fmt.Sprintf("inspected|%s|%d", c.T, c.Prec))
				return checkInspected(c)
			}, ev.Matcher[ICase]{})
			if !ok {
				return
			}
		}
	}
	// raw SQL types written by hand (not derived from the registered specs): every spelling x parameter form
	raws := rawTypes()
	for _, d := range []string{"mysql", "postgres", "sqlite"} {
		for _, raw := range raws[d] {
			c := ICase{Dialect: d, Raw: raw}
			ok := ev.Each(col, "inspected-spellings", c, func(c ICase) error {
				col.Class(c.Dialect + "/raw-type")
				col.NonTrivial(fmt.Sprintf("raw|%s|%s", c.Dialect, c.Raw))
				return checkInspected(c)
			}, ev.Matcher[ICase]{})
			if !ok {
				return
			}
		}
	}
	col.Exhaustive = true
	col.ExhScope = "type grid: every TypeSpec of the three registries x the parameter grid stated in rule; PostgreSQL time types in the inspector's spelling x precision absent/0..6"
	checkS := func(c SCase) error {
		err := checkSchema(c)
		var ts []string
		for _, tb := range c.S.Tables {
			if tb.Name == "alltypes" {
				for _, cc := range tb.Cols {
					ts = append(ts, cc.Type)
				}
			}
		}
		sort.Strings(ts)
		col.Class(c.Dialect + "/schema")
		if len(c.Twin) > 0 {
			col.Class(c.Dialect + "/realm-of-two-schemas-with-same-named-tables")
		}
		if ft := c.S.Table("features"); ft != nil {
			for _, p := range ft.PK {
				if p.Prefix > 0 {
					col.Class(c.Dialect + "/pk-prefix-part")
				}
				if p.Desc {
					col.Class(c.Dialect + "/pk-desc-part")
				}
			}
			for _, ix := range ft.Indexes {
				for _, p := range ix.Parts {
					switch {
					case p.Expr != "":
						col.Class(c.Dialect + "/index-expr-part")
					case p.Prefix > 0:
						col.Class(c.Dialect + "/index-prefix-part")
					case p.Desc:
						col.Class(c.Dialect + "/index-desc-part")
					}
				}
				if ix.Type != "" {
					col.Class(c.Dialect + "/index-type-" + ix.Type)
				}
			}
		}
		col.NonTrivial(fmt.Sprintf("%s|%s|%v", c.Dialect, strings.Join(ts, ","), c.Twin))
		col.Sample(c.Dialect+"/schema", SCase{Dialect: c.Dialect, S: gm.Schema{Tables: c.S.Tables[len(c.S.Tables)-1:]}})
		return err
	}
	// fixed bases first
	for _, d := range []string{"mysql", "postgres", "sqlite"} {
		if !ev.Each(col, "schema-base", SCase{Dialect: d, S: base(d)}, checkS, knownS) {
			return
		}
	}
	// realms of two schemas: the second schema holds a copy of every subset of the base tables, whose foreign keys keep
	// pointing at the (same-named) tables of the first schema
	for _, d := range []string{"mysql", "postgres"} {
		b := base(d)
		for mask := 1; mask < 1<<len(b.Tables); mask++ {
			var twin []string
			for i, tb := range b.Tables {
				if mask&(1<<i) != 0 {
					twin = append(twin, tb.Name)
				}
			}
			if !ev.Each(col, "realm-two-schemas", SCase{Dialect: d, S: b, Twin: twin}, checkS, knownS) {
				return
			}
		}
	}
	ev.Rapid(t, col, "schema-random", col.N(2500, 300000), genSchema(types), checkS, knownS)
}

func TestReplay(t *testing.T) {
	if strings.HasPrefix(ev.ReplaySub(), "inspected") {
		ev.ReplayFile(t, "C15", func(_ string, c ICase) error { return checkInspected(c) })
		return
	}
	if strings.HasPrefix(ev.ReplaySub(), "type") {
		ev.ReplayFile(t, "C15", func(_ string, c TCase) error { _, err := checkType(c); return err })
		return
	}
	ev.ReplayFile(t, "C15", func(_ string, c SCase) error { return checkSchema(c) })
}
