package c15

import (
	"fmt"
	"reflect"
	"sort"
	"strings"
	"testing"

	"ariga.io/atlas/schemahcl"
	"pgregory.net/rapid"

	"verif/c02"
	"verif/ev"
	"verif/gm"
)

var knownT = ev.Matcher[TCase]{}
var knownS = ev.Matcher[SCase]{}

const rule = "(a) type grid, exhaustive: every TypeSpec of mysql/postgres/sqlite.TypeRegistry x a parameter grid per attribute (size/len {absent,0,1,255}, numeric precision {absent,0,10,38} x scale {absent,0,2}, " +
	"time/interval precision {absent,0,3,6}, float precision {absent,24,53}, unsigned {false,true}, enum/set value lists incl. quotes and commas): Format(Parse(Format(t))) == Format(t) and the type comes back unchanged through TypeRegistry.Convert/Type (the HCL form). " +
	"(b) schemas: the feature-rich per-dialect base (keys, typed/prefix/partial/include/DESC indexes, checks, FKs, generated column, comments, defaults, engine/auto_increment, enums, WITHOUT ROWID) plus an `alltypes` table holding one column per grid type (random subset, random null/default/comment), " +
	"optionally reduced: MarshalHCL -> EvalHCLBytes -> SchemaDiff empty in both directions (DiffNormalized) and MarshalHCL again gives identical bytes. " +
	"non-trivial = a type with >=1 parameter / a schema column with >=1 optional attribute; distinct key = (dialect, spec, which parameters are absent/zero/set) resp. (dialect, sorted column types)"

func gridFor(d string, spec *schemahcl.TypeSpec) []map[string]string {
	grids := [][]string{}
	names := []string{}
	timeLike := strings.Contains(spec.T, "time") || strings.Contains(spec.T, "interval") || strings.Contains(spec.T, "second") || spec.T == "year"
	floatLike := spec.T == "float" && d == "postgres"
	for _, a := range spec.Attributes {
		names = append(names, a.Name)
		switch {
		case a.Kind == reflect.Bool:
			grids = append(grids, []string{"", "true"})
		case a.Kind == reflect.Slice:
			grids = append(grids, []string{"a", "a,b c,it's", "x,y,z"})
		case a.Name == "precision" && timeLike:
			grids = append(grids, []string{"", "0", "3", "6"})
		case a.Name == "precision" && floatLike:
			grids = append(grids, []string{"", "24", "53"})
		case a.Name == "precision":
			grids = append(grids, []string{"", "0", "10", "38"})
		case a.Name == "scale":
			grids = append(grids, []string{"", "0", "2"})
		default: // size, len
			g := []string{"", "0", "1", "255"}
			if a.Required {
				g = g[1:]
			}
			grids = append(grids, g)
		}
	}
	out := []map[string]string{{}}
	for i, g := range grids {
		var next []map[string]string
		for _, m := range out {
			for _, v := range g {
				n := map[string]string{}
				for k, x := range m {
					n[k] = x
				}
				n[names[i]] = v
				next = append(next, n)
			}
		}
		out = next
	}
	// a scale without a precision is not expressible
	var ok []map[string]string
	for _, m := range out {
		if m["scale"] != "" && m["precision"] == "" {
			continue
		}
		ok = append(ok, m)
	}
	return ok
}

func paramKey(m map[string]string) string {
	var ks []string
	for k, v := range m {
		cls := "set"
		switch v {
		case "":
			cls = "absent"
		case "0":
			cls = "zero"
		}
		ks = append(ks, k+"="+cls)
	}
	sort.Strings(ks)
	return strings.Join(ks, ",")
}

// formattedTypes collects the SQL form of every grid type that formats (used to build the alltypes table).
func formattedTypes(d string) []string {
	seen := map[string]bool{}
	var out []string
	for _, spec := range Registry(d).Specs() {
		for _, p := range gridFor(d, spec) {
			o, err := checkType(TCase{Dialect: d, Spec: spec.T, Params: p})
			if err == nil && o.Rejected == "" && o.Formatted != "" && !seen[o.Formatted] {
				seen[o.Formatted] = true
				out = append(out, o.Formatted)
			}
		}
	}
	return out
}

// base is the C02 base without the MySQL table-level AUTO_INCREMENT start value: Atlas deliberately does not
// export it ("this attribute cannot be maintained in users schema and used to set up only the initial value").
func base(d string) gm.Schema {
	s := c02.Base(d)
	for i := range s.Tables {
		s.Tables[i].AutoIncStart = 0
	}
	return s
}

func genSchema(types map[string][]string) func(t *rapid.T) SCase {
	return func(t *rapid.T) SCase {
		d := rapid.SampledFrom([]string{"mysql", "postgres", "sqlite"}).Draw(t, "dialect")
		s := base(d)
		// reduce
		if rapid.Bool().Draw(t, "droplogs") {
			s.Tables = s.Tables[:len(s.Tables)-1]
		}
		all := gm.Table{Name: "alltypes", Cols: []gm.Col{{Name: "id", Type: c02.IntType(d)}}, PK: []gm.Part{{Col: "id"}}}
		n := rapid.IntRange(1, 12).Draw(t, "ncols")
		for i := 0; i < n; i++ {
			typ := rapid.SampledFrom(types[d]).Draw(t, "type")
			c := gm.Col{Name: fmt.Sprintf("c%d", i), Type: typ, Null: rapid.Bool().Draw(t, "null")}
			if d != "sqlite" && rapid.IntRange(0, 3).Draw(t, "cmt") == 0 {
				c.Comment = rapid.SampledFrom([]string{"plain", "it's", `say "hi"`, "semi;colon", "back\\slash"}).Draw(t, "comment")
			}
			lt := strings.ToLower(typ)
			switch k := rapid.IntRange(0, 3).Draw(t, "dflt"); {
			case k != 0:
			case strings.Contains(lt, "int") || strings.HasPrefix(lt, "numeric") || strings.HasPrefix(lt, "decimal") || strings.HasPrefix(lt, "double") || lt == "real" || strings.HasPrefix(lt, "float"):
				c.Default = rapid.SampledFrom([]string{"0", "7", "-1", "3.5"}).Draw(t, "ndef")
			case strings.Contains(lt, "char") || strings.Contains(lt, "text"):
				c.Default = rapid.SampledFrom([]string{"'x'", "''", "'it''s'", "'a;b'", `'say "hi"'`, "'back\\slash'"}).Draw(t, "sdef")
			case strings.Contains(lt, "time") || strings.Contains(lt, "date"):
				c.Default, c.DefaultRaw = rapid.SampledFrom([]string{"CURRENT_TIMESTAMP", "now()"}).Draw(t, "tdef"), true
			}
			all.Cols = append(all.Cols, c)
		}
		s.Tables = append(s.Tables, all)
		return SCase{Dialect: d, S: s}
	}
}

func TestCheck(t *testing.T) {
	col := ev.New("C15", "exploration", rule)
	defer col.Finish()
	checkT := func(c TCase) error {
		out, err := checkType(c)
		if out.Rejected != "" {
			col.Reject(c.Dialect + ": " + out.Rejected)
			return err
		}
		cls := c.Dialect + "/type-grid"
		if out.ZeroParam {
			cls += "/zero-param"
		}
		col.Class(cls)
		if out.HasParam {
			col.NonTrivial(fmt.Sprintf("%s|%s|%s", c.Dialect, c.Spec, paramKey(c.Params)))
		}
		col.Sample(cls, c)
		return err
	}
	types := map[string][]string{}
	i := 0
	for _, d := range []string{"mysql", "postgres", "sqlite"} {
		for _, spec := range Registry(d).Specs() {
			for _, p := range gridFor(d, spec) {
				i++
				if !col.Mine(i) {
					continue
				}
				if !ev.Each(col, "type-grid", TCase{Dialect: d, Spec: spec.T, Params: p}, checkT, knownT) {
					return
				}
			}
		}
		types[d] = formattedTypes(d)
	}
	col.Exhaustive = true
	col.ExhScope = "type grid: every TypeSpec of the three registries x the parameter grid stated in rule"
	checkS := func(c SCase) error {
		err := checkSchema(c)
		var ts []string
		for _, tb := range c.S.Tables {
			if tb.Name == "alltypes" {
				for _, cc := range tb.Cols {
					ts = append(ts, cc.Type)
				}
			}
		}
		sort.Strings(ts)
		col.Class(c.Dialect + "/schema")
		col.NonTrivial(fmt.Sprintf("%s|%s", c.Dialect, strings.Join(ts, ",")))
		col.Sample(c.Dialect+"/schema", SCase{Dialect: c.Dialect, S: gm.Schema{Tables: c.S.Tables[len(c.S.Tables)-1:]}})
		return err
	}
	// fixed bases first
	for _, d := range []string{"mysql", "postgres", "sqlite"} {
		if !ev.Each(col, "schema-base", SCase{Dialect: d, S: base(d)}, checkS, knownS) {
			return
		}
	}
	ev.Rapid(t, col, "schema-random", col.N(2500, 300000), genSchema(types), checkS, knownS)
}

func TestReplay(t *testing.T) {
	if strings.HasPrefix(ev.ReplaySub(), "type") {
		ev.ReplayFile(t, "C15", func(_ string, c TCase) error { _, err := checkType(c); return err })
		return
	}
	ev.ReplayFile(t, "C15", func(_ string, c SCase) error { return checkSchema(c) })
}
