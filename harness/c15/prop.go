// Package c15: HCL round trip returns an equivalent schema, for every dialect and column type.
package c15

import (
	"bytes"
	"fmt"
	"reflect"
	"sort"
	"strings"

	"ariga.io/atlas/schemahcl"
	"ariga.io/atlas/sql/mysql"
	"ariga.io/atlas/sql/postgres"
	"ariga.io/atlas/sql/schema"
	"ariga.io/atlas/sql/sqlite"

	"verif/gm"
)

// TCase: one type spec with one parameter assignment.
type TCase struct {
	Dialect string            `json:"dialect"`
	Spec    string            `json:"spec"`   // TypeSpec.T
	Params  map[string]string `json:"params"` // attribute name -> value ("" = absent); values: "a,b" list
}

func Registry(d string) *schemahcl.TypeRegistry {
	switch d {
	case "mysql":
		return mysql.TypeRegistry
	case "postgres":
		return postgres.TypeRegistry
	}
	return sqlite.TypeRegistry
}

func (c TCase) hclType(spec *schemahcl.TypeSpec) *schemahcl.Type {
	t := &schemahcl.Type{T: spec.T}
	for _, a := range spec.Attributes {
		v, ok := c.Params[a.Name]
		if !ok || v == "" {
			continue
		}
		switch a.Kind {
		case reflect.Int, reflect.Int64:
			n := 0
			fmt.Sscanf(v, "%d", &n)
			if a.Kind == reflect.Int64 {
				t.Attrs = append(t.Attrs, schemahcl.Int64Attr(a.Name, int64(n)))
			} else {
				t.Attrs = append(t.Attrs, schemahcl.IntAttr(a.Name, n))
			}
		case reflect.Bool:
			t.Attrs = append(t.Attrs, schemahcl.BoolAttr(a.Name, v == "true"))
		case reflect.Slice:
			t.Attrs = append(t.Attrs, schemahcl.StringsAttr(a.Name, strings.Split(v, ",")...))
		case reflect.String:
			t.Attrs = append(t.Attrs, schemahcl.StringAttr(a.Name, v))
		}
	}
	return t
}

type TOutcome struct {
	Rejected  string
	Formatted string
	HasParam  bool
	ZeroParam bool
}

// checkType: Format(Parse(Format(t))) == Format(t), and the type survives Convert/Type (the HCL path) with all its parameters.
func checkType(c TCase) (TOutcome, error) {
	var out TOutcome
	reg := Registry(c.Dialect)
	var spec *schemahcl.TypeSpec
	for _, s := range reg.Specs() {
		if s.T == c.Spec {
			spec = s
		}
	}
	if spec == nil {
		return out, fmt.Errorf("harness: no spec %q", c.Spec)
	}
	for _, v := range c.Params {
		if v != "" {
			out.HasParam = true
		}
		if v == "0" {
			out.ZeroParam = true
		}
	}
	st, err := reg.Type(c.hclType(spec), nil)
	if err != nil {
		out.Rejected = "registry refuses the parameter combination"
		return out, nil
	}
	f1, err := gm.FormatType(c.Dialect, st)
	if err != nil {
		out.Rejected = "type has no SQL format (" + firstWords(err.Error()) + ")"
		return out, nil
	}
	out.Formatted = f1
	st2, err := gm.ParseType(c.Dialect, f1)
	if err != nil {
		return out, fmt.Errorf("%s: ParseType(FormatType(t)=%q) failed: %v", c.Dialect, f1, err)
	}
	f2, err := gm.FormatType(c.Dialect, st2)
	if err != nil {
		return out, fmt.Errorf("%s: FormatType(ParseType(%q)) failed: %v", c.Dialect, f1, err)
	}
	if f1 != f2 {
		return out, fmt.Errorf("%s: format/parse is not a fixpoint: %q -> parse -> %q", c.Dialect, f1, f2)
	}
	// the HCL path: schema.Type -> *schemahcl.Type -> schema.Type
	ht, err := reg.Convert(st2)
	if err != nil {
		return out, fmt.Errorf("%s: TypeRegistry.Convert(%q) failed: %v", c.Dialect, f1, err)
	}
	st3, err := reg.Type(ht, nil)
	if err != nil {
		printed, _ := reg.PrintType(ht)
		return out, fmt.Errorf("%s: the HCL form %q of type %q does not convert back: %v", c.Dialect, printed, f1, err)
	}
	f3, err := gm.FormatType(c.Dialect, st3)
	if err != nil {
		return out, fmt.Errorf("%s: FormatType after the HCL path of %q failed: %v", c.Dialect, f1, err)
	}
	if f3 != f1 {
		printed, _ := reg.PrintType(ht)
		return out, fmt.Errorf("%s: type %q written to HCL as %q comes back as %q", c.Dialect, f1, printed, f3)
	}
	return out, nil
}

func firstWords(s string) string {
	if len(s) > 50 {
		return s[:50]
	}
	return s
}

// SCase: a whole schema through MarshalHCL / EvalHCLBytes.
type SCase struct {
	Dialect string    `json:"dialect"`
	S       gm.Schema `json:"s"`
	// Twin (mysql, postgres): the document is a realm of two schemas; the second one ("crm") holds a copy of the tables
	// named here, and every foreign key of those copies that points at a table of this list keeps pointing into the
	// FIRST schema (a foreign key to a same-named table of another schema).
	Twin []string `json:"twin,omitempty"`
}

// realmOf builds the two-schema realm of a Twin case.
func realmOf(c SCase) (*schema.Realm, error) {
	s0, err := gm.Build(c.Dialect, c.S)
	if err != nil {
		return nil, err
	}
	s1, err := gm.Build(c.Dialect, c.S)
	if err != nil {
		return nil, err
	}
	s1.Name = "crm"
	keep := map[string]bool{}
	for _, n := range c.Twin {
		keep[n] = true
	}
	var ts []*schema.Table
	for _, t := range s1.Tables {
		if !keep[t.Name] {
			continue
		}
		var fks []*schema.ForeignKey
		for _, fk := range t.ForeignKeys {
			if !keep[fk.RefTable.Name] {
				continue // its parent has no copy
			}
			if fk.RefTable != t {
				o, ok := s0.Table(fk.RefTable.Name)
				if !ok {
					return nil, fmt.Errorf("harness: twin parent %s", fk.RefTable.Name)
				}
				fk.RefTable = o
				for i, rc := range fk.RefColumns {
					fk.RefColumns[i], _ = o.Column(rc.Name)
				}
			}
			fks = append(fks, fk)
		}
		t.ForeignKeys = fks
		ts = append(ts, t)
	}
	s1.Tables = ts
	s1.Objects = nil
	for _, t := range ts {
		for _, col := range t.Columns {
			if e, ok := col.Type.Type.(*schema.EnumType); ok && e.Schema == s1 {
				s1.Objects = append(s1.Objects, e)
			}
		}
	}
	return schema.NewRealm(s0, s1), nil
}

// fkTargets lists every foreign key of a realm with the schema-qualified table it points at.
func fkTargets(r *schema.Realm) string {
	var out []string
	for _, s := range r.Schemas {
		for _, t := range s.Tables {
			for _, fk := range t.ForeignKeys {
				rs := "?"
				if fk.RefTable != nil && fk.RefTable.Schema != nil {
					rs = fk.RefTable.Schema.Name
				}
				out = append(out, fmt.Sprintf("%s.%s.%s->%s.%s", s.Name, t.Name, fk.Symbol, rs, fk.RefTable.Name))
			}
		}
	}
	sort.Strings(out)
	return strings.Join(out, " ")
}

func checkRealm(c SCase) error {
	r0, err := realmOf(c)
	if err != nil {
		return fmt.Errorf("harness: %v", err)
	}
	h1, err := gm.MarshalHCL(c.Dialect, r0)
	if err != nil {
		return fmt.Errorf("%s: MarshalHCL(realm) failed: %v", c.Dialect, err)
	}
	r1, err := gm.EvalHCL(c.Dialect, h1)
	if err != nil {
		return fmt.Errorf("%s: the marshalled realm does not evaluate: %v\n%s", c.Dialect, err, h1)
	}
	if a, b := fkTargets(r0), fkTargets(r1); a != b {
		return fmt.Errorf("%s: foreign keys point elsewhere after the HCL round trip of a two-schema realm\n original:  %s\n evaluated: %s\nHCL:\n%s", c.Dialect, a, b, h1)
	}
	differ := gm.Differ(c.Dialect)
	fresh := func() *schema.Realm { r, _ := realmOf(c); return r }
	evald := func() *schema.Realm { r, _ := gm.EvalHCL(c.Dialect, h1); return r }
	if ch, err := differ.RealmDiff(fresh(), evald(), schema.DiffNormalized()); err != nil {
		return fmt.Errorf("%s: diff(original realm, evaluated) failed: %v\n%s", c.Dialect, err, h1)
	} else if len(ch) > 0 {
		return fmt.Errorf("%s: diff(original realm, EvalHCL(MarshalHCL(original))) is not empty: %s\nHCL:\n%s", c.Dialect, describe(ch), h1)
	}
	if ch, err := differ.RealmDiff(evald(), fresh(), schema.DiffNormalized()); err != nil {
		return fmt.Errorf("%s: diff(evaluated, original realm) failed: %v\n%s", c.Dialect, err, h1)
	} else if len(ch) > 0 {
		return fmt.Errorf("%s: diff(EvalHCL(MarshalHCL(original realm)), original) is not empty: %s\nHCL:\n%s", c.Dialect, describe(ch), h1)
	}
	h2, err := gm.MarshalHCL(c.Dialect, r1)
	if err != nil {
		return fmt.Errorf("%s: MarshalHCL of the evaluated realm failed: %v", c.Dialect, err)
	}
	if !bytes.Equal(h1, h2) {
		return fmt.Errorf("%s: marshalling the evaluated realm again gives different bytes:\n%s\n--- second:\n%s", c.Dialect, h1, h2)
	}
	return nil
}

func describe(cs []schema.Change) string {
	var out []string
	for _, c := range cs {
		s := fmt.Sprintf("%T", c)
		switch c := c.(type) {
		case *schema.ModifyTable:
			s += "(" + c.T.Name + "){" + describe(c.Changes) + "}"
		case *schema.ModifyColumn:
			s += fmt.Sprintf("(%s, %s)", c.To.Name, c.Change)
		case *schema.ModifyIndex:
			s += fmt.Sprintf("(%s, %s)", c.To.Name, c.Change)
		case *schema.ModifyForeignKey:
			s += fmt.Sprintf("(%s, %s)", c.To.Symbol, c.Change)
		case *schema.ModifyAttr:
			s += fmt.Sprintf("(%T %+v -> %+v)", c.To, c.From, c.To)
		case *schema.AddAttr:
			s += fmt.Sprintf("(%T %+v)", c.A, c.A)
		case *schema.DropAttr:
			s += fmt.Sprintf("(%T %+v)", c.A, c.A)
		case *schema.AddTable:
			s += "(" + c.T.Name + ")"
		case *schema.DropTable:
			s += "(" + c.T.Name + ")"
		}
		out = append(out, s)
	}
	return strings.Join(out, ", ")
}

// ICase: a PostgreSQL time type in the spelling the inspector yields (information_schema's data_type: "timestamp with
// time zone", not the alias ParseType and the HCL use), with every precision. Such a type is not a registered spec name,
// so MarshalHCL writes it through the dialect's fallback spec function.
type ICase struct {
	T    string `json:"t"`
	Prec int    `json:"prec"` // -1 = not set
	// Raw: instead of a hand-built time type, a raw SQL type (of Dialect) parsed with the dialect's ParseType. The list of
	// raw types is written by hand, independently of the registered type specs the grid is derived from.
	Raw     string `json:"raw,omitempty"`
	Dialect string `json:"dialect,omitempty"`
}

var timeAlias = map[string]string{"timestamp without time zone": "timestamp", "timestamp with time zone": "timestamptz",
	"time without time zone": "time", "time with time zone": "timetz", "timestamp": "timestamp", "timestamptz": "timestamptz", "time": "time", "timetz": "timetz"}

func timeKey(t schema.Type) string {
	tt, ok := t.(*schema.TimeType)
	if !ok {
		return fmt.Sprintf("%T", t)
	}
	p := 6 // PostgreSQL's default
	if tt.Precision != nil {
		p = *tt.Precision
	}
	return fmt.Sprintf("%s(%d)", timeAlias[strings.ToLower(tt.T)], p)
}

func checkRaw(c ICase) error {
	build := func() (*schema.Schema, error) {
		ty, err := gm.ParseType(c.Dialect, c.Raw)
		if err != nil {
			return nil, err
		}
		s := schema.New("app")
		schema.NewRealm(s)
		s.AddTables(schema.NewTable("t").AddColumns(schema.NewColumn("c").SetType(ty)))
		return s, nil
	}
	s0, err := build()
	if err != nil {
		return nil // not a type of this dialect: nothing to round-trip
	}
	f0, err := gm.FormatType(c.Dialect, s0.Tables[0].Columns[0].Type.Type)
	if err != nil {
		return nil
	}
	h1, err := gm.MarshalHCL(c.Dialect, s0)
	if err != nil {
		return fmt.Errorf("%s: MarshalHCL of a column of type %q failed: %v", c.Dialect, c.Raw, err)
	}
	r1, err := gm.EvalHCL(c.Dialect, h1)
	if err != nil {
		return fmt.Errorf("%s: the HCL written for type %q does not evaluate: %v\n%s", c.Dialect, c.Raw, err, h1)
	}
	col, ok := r1.Schemas[0].Tables[0].Column("c")
	if !ok {
		return fmt.Errorf("%s: column lost\n%s", c.Dialect, h1)
	}
	f1, err := gm.FormatType(c.Dialect, col.Type.Type)
	if err != nil || f1 != f0 {
		return fmt.Errorf("%s: type %q (formatted %q) comes back from the HCL round trip as %q (%v)\nHCL:\n%s", c.Dialect, c.Raw, f0, f1, err, h1)
	}
	for _, dir := range []string{"forward", "backward"} {
		a, _ := build()
		r2, _ := gm.EvalHCL(c.Dialect, h1)
		b := r2.Schemas[0]
		if dir == "backward" {
			a, b = b, a
		}
		ch, err := gm.Differ(c.Dialect).SchemaDiff(a, b, schema.DiffNormalized())
		if err != nil {
			return fmt.Errorf("%s: diff failed: %v", c.Dialect, err)
		}
		if len(ch) > 0 {
			return fmt.Errorf("%s: %s diff between a column of type %q and its HCL round trip is not empty: %s\nHCL:\n%s", c.Dialect, dir, c.Raw, describe(ch), h1)
		}
	}
	return nil
}

func checkInspected(c ICase) error {
	if c.Raw != "" {
		return checkRaw(c)
	}
	build := func() *schema.Schema {
		s := schema.New("app")
		schema.NewRealm(s)
		tt := &schema.TimeType{T: c.T}
		if c.Prec >= 0 {
			p := c.Prec
			tt.Precision = &p
		}
		s.AddTables(schema.NewTable("t").AddColumns(schema.NewColumn("c").SetType(tt)))
		return s
	}
	s0 := build()
	h1, err := gm.MarshalHCL("postgres", s0)
	if err != nil {
		return fmt.Errorf("postgres: MarshalHCL failed: %v", err)
	}
	r1, err := gm.EvalHCL("postgres", h1)
	if err != nil {
		return fmt.Errorf("postgres: the marshalled HCL does not evaluate: %v\n%s", err, h1)
	}
	col, ok := r1.Schemas[0].Tables[0].Column("c")
	if !ok {
		return fmt.Errorf("postgres: column lost\n%s", h1)
	}
	if a, b := timeKey(s0.Tables[0].Columns[0].Type.Type), timeKey(col.Type.Type); a != b {
		return fmt.Errorf("postgres: inspected type %q (precision %d) is %s, after the HCL round trip it is %s\nHCL:\n%s", c.T, c.Prec, a, b, h1)
	}
	differ := gm.Differ("postgres")
	for _, dir := range []string{"forward", "backward"} {
		r2, _ := gm.EvalHCL("postgres", h1)
		a, b := build(), r2.Schemas[0]
		if dir == "backward" {
			a, b = b, a
		}
		ch, err := differ.SchemaDiff(a, b, schema.DiffNormalized())
		if err != nil {
			return fmt.Errorf("postgres: diff failed: %v", err)
		}
		if len(ch) > 0 {
			return fmt.Errorf("postgres: %s diff between the inspected-form schema and its HCL round trip is not empty: %s\nHCL:\n%s", dir, describe(ch), h1)
		}
	}
	h2, err := gm.MarshalHCL("postgres", r1.Schemas[0])
	if err != nil || !bytes.Equal(h1, h2) {
		return fmt.Errorf("postgres: marshalling the evaluated schema again gives different bytes (%v):\n%s\n--- second:\n%s", err, h1, h2)
	}
	return nil
}

// effectiveCharsets lists, per table and string column, the character set and collation in force (own, else the parent's).
func effectiveCharsets(s *schema.Schema) string {
	get := func(attrs []schema.Attr, cs, co string) (string, string) {
		for _, a := range attrs {
			switch a := a.(type) {
			case *schema.Charset:
				cs = a.V
			case *schema.Collation:
				co = a.V
			}
		}
		return cs, co
	}
	var out []string
	scs, sco := get(s.Attrs, "", "")
	for _, t := range s.Tables {
		tcs, tco := get(t.Attrs, scs, sco)
		out = append(out, fmt.Sprintf("%s=%s/%s", t.Name, tcs, tco))
		for _, c := range t.Columns {
			switch c.Type.Type.(type) {
			case *schema.StringType, *schema.EnumType, *mysql.SetType:
			default:
				continue
			}
			own := false
			for _, a := range c.Attrs {
				switch a.(type) {
				case *schema.Charset, *schema.Collation:
					own = true
				}
			}
			if own {
				ccs, cco := get(c.Attrs, "", "")
				out = append(out, fmt.Sprintf("%s.%s=%s/%s", t.Name, c.Name, ccs, cco))
			}
		}
	}
	sort.Strings(out)
	return strings.Join(out, " ")
}

func checkSchema(c SCase) error {
	if len(c.Twin) > 0 {
		return checkRealm(c)
	}
	s0, err := gm.Build(c.Dialect, c.S)
	if err != nil {
		return fmt.Errorf("harness: %v", err)
	}
	h1, err := gm.MarshalHCL(c.Dialect, s0)
	if err != nil {
		return fmt.Errorf("%s: MarshalHCL failed: %v", c.Dialect, err)
	}
	r1, err := gm.EvalHCL(c.Dialect, h1)
	if err != nil {
		return fmt.Errorf("%s: the marshalled HCL does not evaluate: %v\n%s", c.Dialect, err, h1)
	}
	if len(r1.Schemas) != 1 {
		return fmt.Errorf("%s: evaluated HCL has %d schemas", c.Dialect, len(r1.Schemas))
	}
	// the differ cannot see a character set that was lost together with every ancestor's: compare the effective
	// (stated or inherited) character set and collation of every table and column directly
	if c.Dialect == "mysql" {
		if a, b := effectiveCharsets(s0), effectiveCharsets(r1.Schemas[0]); a != b {
			return fmt.Errorf("mysql: character sets / collations differ after the HCL round trip\n original:  %s\n evaluated: %s\nHCL:\n%s", a, b, h1)
		}
	}
	differ := gm.Differ(c.Dialect)
	fresh := func() *schema.Schema { s, _ := gm.Build(c.Dialect, c.S); return s }
	evald := func() *schema.Schema { r, _ := gm.EvalHCL(c.Dialect, h1); return r.Schemas[0] }
	if ch, err := differ.SchemaDiff(fresh(), evald(), schema.DiffNormalized()); err != nil {
		return fmt.Errorf("%s: diff(original, evaluated) failed: %v\n%s", c.Dialect, err, h1)
	} else if len(ch) > 0 {
		return fmt.Errorf("%s: diff(original, EvalHCL(MarshalHCL(original))) is not empty: %s\nHCL:\n%s", c.Dialect, describe(ch), h1)
	}
	if ch, err := differ.SchemaDiff(evald(), fresh(), schema.DiffNormalized()); err != nil {
		return fmt.Errorf("%s: diff(evaluated, original) failed: %v\n%s", c.Dialect, err, h1)
	} else if len(ch) > 0 {
		return fmt.Errorf("%s: diff(EvalHCL(MarshalHCL(original)), original) is not empty: %s\nHCL:\n%s", c.Dialect, describe(ch), h1)
	}
	h2, err := gm.MarshalHCL(c.Dialect, r1.Schemas[0])
	if err != nil {
		return fmt.Errorf("%s: MarshalHCL of the evaluated schema failed: %v", c.Dialect, err)
	}
	if !bytes.Equal(h1, h2) {
		return fmt.Errorf("%s: marshalling the evaluated schema again gives different bytes:\n%s\n--- second:\n%s", c.Dialect, h1, h2)
	}
	return nil
}
