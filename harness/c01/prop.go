// Package c01: declarative apply converges — one plan takes any database to the desired schema.
package c01

import (
	"context"
	"fmt"
	"strings"

	"ariga.io/atlas/sql/schema"
	"ariga.io/atlas/sql/sqlite"

	"verif/eng"
	"verif/model"
	"verif/sqliteref"
)

type Case struct {
	A      model.Schema `json:"a"`       // current database
	B      model.Schema `json:"b"`       // desired schema
	RouteA int          `json:"route_a"` // how A is materialised: 0 native DDL, 1 atlas-style DDL, 2 Atlas apply(empty -> A)
	StyleB int          `json:"style_b"` // DDL style of the reference database B is inspected from
	Hand   bool         `json:"hand,omitempty"` // with ViaHCL: the document is shaped the way a person writes it (CHECK expressions without the clause's own parentheses)
	ViaHCL bool         `json:"via_hcl"` // desired = EvalHCL(MarshalHCL(inspect(ref))) instead of inspect(ref) (a second live database)
	Edits  []string     `json:"edits"`   // how B was derived from A (informational)
}

// Outcome feeds classification.
type Outcome struct {
	Rejected string
	Kinds    []string
	Path     string
	Stmts    int
}

func kindsOf(changes []schema.Change) []string {
	seen := map[string]bool{}
	var out []string
	var walk func(cs []schema.Change)
	walk = func(cs []schema.Change) {
		for _, c := range cs {
			k := strings.TrimPrefix(fmt.Sprintf("%T", c), "*schema.")
			if m, ok := c.(*schema.ModifyTable); ok {
				walk(m.Changes)
			}
			if m, ok := c.(*schema.ModifyColumn); ok {
				k += fmt.Sprintf("(%s)", changeKinds(m.Change))
			}
			if m, ok := c.(*schema.ModifyIndex); ok {
				k += fmt.Sprintf("(%s)", changeKinds(m.Change))
			}
			if !seen[k] {
				seen[k] = true
				out = append(out, k)
			}
		}
	}
	walk(changes)
	return out
}

func changeKinds(k schema.ChangeKind) string {
	var s []string
	for _, x := range []struct {
		k schema.ChangeKind
		n string
	}{{schema.ChangeNull, "null"}, {schema.ChangeType, "type"}, {schema.ChangeDefault, "default"}, {schema.ChangeGenerated, "generated"},
		{schema.ChangeUnique, "unique"}, {schema.ChangeParts, "parts"}, {schema.ChangeAttr, "attr"}, {schema.ChangeColumn, "column"},
		{schema.ChangeRefColumn, "refcolumn"}, {schema.ChangeRefTable, "reftable"}, {schema.ChangeUpdateAction, "onupdate"}, {schema.ChangeDeleteAction, "ondelete"}} {
		if k.Is(x.k) {
			s = append(s, x.n)
		}
	}
	return strings.Join(s, "+")
}

func build(ctx context.Context, s model.Schema, route int) (*eng.DB, error) {
	db, err := eng.New(ctx)
	if err != nil {
		return nil, fmt.Errorf("harness: %v", err)
	}
	switch route {
	case 0, 1:
		if err := db.Exec(s.DDL(model.Style(1 - route))...); err != nil {
			db.Close()
			return nil, fmt.Errorf("harness: generated DDL rejected by SQLite: %v", err)
		}
	default:
		src, err := build(ctx, s, 0)
		if err != nil {
			db.Close()
			return nil, err
		}
		defer src.Close()
		desired, err := src.Inspect(ctx)
		if err != nil {
			db.Close()
			return nil, fmt.Errorf("inspect: %v", err)
		}
		cur, err := db.Inspect(ctx)
		if err != nil {
			db.Close()
			return nil, fmt.Errorf("inspect: %v", err)
		}
		changes, err := db.Diff(cur, desired)
		if err == nil {
			err = db.Apply(ctx, changes)
		}
		if err != nil {
			db.Close()
			return nil, fmt.Errorf("building the current database through Atlas (empty -> A) failed: %v", err)
		}
	}
	return db, nil
}

func desiredOf(ctx context.Context, ref *eng.DB, viaHCL bool) (*schema.Realm, error) {
	r, err := ref.Inspect(ctx)
	if err != nil {
		return nil, fmt.Errorf("inspect reference: %v", err)
	}
	if !viaHCL {
		return r, nil
	}
	h, err := sqlite.MarshalHCL(r)
	if err != nil {
		return nil, fmt.Errorf("MarshalHCL(reference): %v", err)
	}
	var out schema.Realm
	if err := sqlite.EvalHCLBytes(h, &out, nil); err != nil {
		return nil, fmt.Errorf("EvalHCLBytes of the marshalled reference: %v\n%s", err, h)
	}
	return &out, nil
}

// oneGroup reports whether s is enclosed by one pair of parentheses (SQLite quoting: '...', "...", `...`, [...]).
func oneGroup(s string) bool {
	if len(s) < 2 || s[0] != '(' || s[len(s)-1] != ')' {
		return false
	}
	depth := 0
	for i := 0; i < len(s); i++ {
		switch c := s[i]; c {
		case '\'', '"', '`', '[':
			end := c
			if c == '[' {
				end = ']'
			}
			j := strings.IndexByte(s[i+1:], end)
			if j == -1 {
				return false
			}
			i += j + 1
		case '(':
			depth++
		case ')':
			depth--
			if depth == 0 && i != len(s)-1 {
				return false
			}
		}
	}
	return depth == 0
}

// handWritten rewrites a desired realm the way a person writes the document: CHECK expressions without the parentheses
// of the CHECK clause itself (the inspector keeps them), expression defaults inside the parentheses of the DEFAULT clause (the inspector drops them).
func handWritten(r *schema.Realm) {
	for _, s := range r.Schemas {
		for _, t := range s.Tables {
			for _, a := range t.Attrs {
				if ck, ok := a.(*schema.Check); ok && oneGroup(ck.Expr) {
					ck.Expr = strings.TrimSpace(ck.Expr[1 : len(ck.Expr)-1])
				}
			}
			// expression defaults with the parentheses SQLite's DEFAULT clause demands: default = sql("(lower('A'))")
			for _, c := range t.Columns {
				if x, ok := c.Default.(*schema.RawExpr); ok && !oneGroup(x.X) && strings.ContainsAny(x.X, "( +|") {
					x.X = "(" + x.X + ")"
				}
			}
		}
	}
}

func planText(db *eng.DB, ctx context.Context, changes []schema.Change) string {
	p, err := db.Plan(ctx, changes)
	if err != nil {
		return "plan error: " + err.Error()
	}
	var b strings.Builder
	for _, c := range p.Changes {
		b.WriteString("    " + c.Cmd + ";\n")
	}
	return b.String()
}

func checkCase(c Case) (Outcome, error) {
	model.SettleShortFKs(&c.A, &c.B)
	model.SettleShortFKs(&c.B, &c.A)
	var out Outcome
	ctx := context.Background()
	db, err := build(ctx, c.A, c.RouteA)
	if err != nil {
		if strings.HasPrefix(err.Error(), "harness:") {
			out.Rejected = "generator produced DDL SQLite rejects"
			return out, err
		}
		return out, err
	}
	defer db.Close()
	ref, err := build(ctx, c.B, c.StyleB)
	if err != nil {
		return out, err
	}
	defer ref.Close()
	desired, err := desiredOf(ctx, ref, c.ViaHCL)
	if err != nil {
		return out, err
	}
	if c.ViaHCL && c.Hand {
		handWritten(desired)
	}
	cur, err := db.Inspect(ctx)
	if err != nil {
		return out, fmt.Errorf("inspect current: %v", err)
	}
	changes, err := db.Diff(cur, desired)
	if err != nil {
		return out, fmt.Errorf("diff(current, desired): %v", err)
	}
	out.Kinds = kindsOf(changes)
	plan, err := db.Plan(ctx, changes)
	if err != nil {
		// every schema of the model is within the supported feature set, and the SQLite planner has no refusal of its own
		// for such changes (its errors are all of the "unexpected / unsupported change" kind): no plan = no convergence
		return out, fmt.Errorf("PlanChanges failed for a change set between two supported schemas: %v (changes: %v)", err, out.Kinds)
	}
	out.Stmts = len(plan.Changes)
	out.Path = pathOf(changes, plan.Changes)
	var ptxt strings.Builder
	for _, pc := range plan.Changes {
		ptxt.WriteString("    " + pc.Cmd + ";\n")
	}
	// (1) every planned statement executes
	if err := db.Apply(ctx, changes); err != nil {
		return out, fmt.Errorf("planned statements failed on the engine: %v\n  plan:\n%s", err, ptxt.String())
	}
	// (2) a second plan right after the apply is empty
	cur2, err := db.Inspect(ctx)
	if err != nil {
		return out, fmt.Errorf("inspect after apply: %v", err)
	}
	desired2, err := desiredOf(ctx, ref, c.ViaHCL)
	if err != nil {
		return out, err
	}
	if c.ViaHCL && c.Hand {
		handWritten(desired2)
	}
	changes2, err := db.Diff(cur2, desired2)
	if err != nil {
		return out, fmt.Errorf("diff after apply: %v", err)
	}
	if len(changes2) > 0 {
		return out, fmt.Errorf("second plan is not empty: %v\n  first plan:\n%s  second plan:\n%s", kindsOf(changes2), ptxt.String(), planText(db, ctx, changes2))
	}
	// (3) independent oracle: the live catalog equals the reference catalog
	live, err := db.Catalog()
	if err != nil {
		return out, fmt.Errorf("harness: %v", err)
	}
	want, err := ref.Catalog()
	if err != nil {
		return out, fmt.Errorf("harness: %v", err)
	}
	if d := sqliteref.Diff(live, want); len(d) > 0 {
		return out, fmt.Errorf("Atlas reports the schemas as synced but the live database differs from the desired one:\n  %s\n  plan:\n%s", strings.Join(d, "\n  "), ptxt.String())
	}
	return out, nil
}

func firstWords(s string) string {
	if len(s) > 60 {
		s = s[:60]
	}
	return s
}

func pathOf(changes []schema.Change, plan []*migrateChange) string {
	p := map[string]bool{}
	for _, c := range changes {
		switch c.(type) {
		case *schema.AddTable:
			p["create"] = true
		case *schema.DropTable:
			p["drop"] = true
		case *schema.ModifyTable:
			p["alter"] = true
		}
	}
	for _, pc := range plan {
		if strings.Contains(pc.Cmd, "`new_") {
			delete(p, "alter")
			p["rebuild"] = true
		}
	}
	var out []string
	for _, k := range []string{"create", "drop", "alter", "rebuild"} {
		if p[k] {
			out = append(out, k)
		}
	}
	if len(out) == 0 {
		return "noop"
	}
	return strings.Join(out, "+")
}
