package c01

import (
	"fmt"
	"sort"
	"strings"
	"testing"

	"pgregory.net/rapid"

	"verif/ev"
	"verif/model"
)

// oracleLines extracts the lines of the independent catalog comparison from a failure message.
func oracleLines(err error) []string {
	m := err.Error()
	i := strings.Index(m, "differs from the desired one:\n")
	if i == -1 {
		return nil
	}
	m = m[i+len("differs from the desired one:\n"):]
	if j := strings.Index(m, "\n  plan:"); j != -1 {
		m = m[:j]
	}
	var out []string
	for _, l := range strings.Split(m, "\n") {
		if l = strings.TrimSpace(l); l != "" {
			out = append(out, l)
		}
	}
	return out
}

func allLines(err error, pred func(string) bool) bool {
	ls := oracleLines(err)
	if len(ls) == 0 {
		return false
	}
	for _, l := range ls {
		if !pred(l) {
			return false
		}
	}
	return true
}

var known = ev.Matcher[Case]{
	"only-autoincrement-differs": func(c Case, err error) bool {
		return allLines(err, func(l string) bool { return strings.Contains(l, ": AUTOINCREMENT ") })
	},
	// the inspector recovers expression parts with a regexp that only accepts \w+ table names
	"expr-index-nonword-table": func(c Case, err error) bool {
		if !strings.Contains(err.Error(), "<unsupported>") && !strings.Contains(err.Error(), `near "<": syntax error`) {
			return false
		}
		for _, s := range []model.Schema{c.A, c.B} {
			for _, t := range s.Tables {
				if strings.ContainsAny(t.Name, " -.") {
					for _, ix := range t.Indexes {
						for _, p := range ix.Parts {
							if p.Expr != "" {
								return true
							}
						}
					}
				}
			}
		}
		return false
	},
}

const rule = "pairs (A,B) of SQLite schemas from the harness model (1-4 tables over a small name pool; every type of sqlite.TypeRegistry; nullability; defaults incl. quotes/expressions; " +
	"generated columns; none/single/composite/autoincrement primary keys; named unique/multi-column/DESC/partial/expression indexes; named and unnamed checks; self/cross/cyclic foreign keys with every action; WITHOUT ROWID; STRICT). " +
	"B = 1-4 random elementary edits of A (p=0.8) or an independent schema. A is materialised on a real in-memory SQLite engine by native DDL, atlas-style DDL or Atlas apply(empty->A); " +
	"desired = Atlas inspection of a reference engine built from B with the harness' own DDL (optionally passed through MarshalHCL/EvalHCLBytes). " +
	"Oracle: plan executes; re-inspect + re-diff (DiffNormalized) empty; harness' PRAGMA-based catalog of live == catalog of reference. " +
	"non-trivial = plan has >=1 statement; distinct key = (sorted change kinds, path, features touched, routes)"

func genCase(t *rapid.T) Case {
	o := model.Opts{NoInlineUnique: true}
	c := Case{A: model.GenSchema(t, 3, o), RouteA: rapid.IntRange(0, 2).Draw(t, "routeA"), StyleB: rapid.IntRange(0, 1).Draw(t, "styleB"),
		ViaHCL: rapid.IntRange(0, 2).Draw(t, "viahcl") == 0}
	if rapid.IntRange(0, 4).Draw(t, "independent") == 0 {
		c.B = model.GenSchema(t, 3, o)
		c.Edits = []string{"independent"}
		return c
	}
	c.B = c.A.Clone()
	for n := rapid.IntRange(1, 4).Draw(t, "nedits"); n > 0; n-- {
		if k := model.Edit(t, &c.B, o, nil); k != "" {
			c.Edits = append(c.Edits, k)
		}
	}
	return c
}

func mkCheck(col *ev.Collector) func(Case) error {
	return func(c Case) error {
		out, err := checkCase(c)
		if out.Rejected != "" {
			col.Reject(out.Rejected)
			return err
		}
		route := []string{"native", "atlas-ddl", "atlas-apply"}[c.RouteA]
		col.Class("path/" + out.Path)
		col.Class("routeA/" + route)
		for _, e := range c.Edits {
			col.Class("edit/" + e)
		}
		if out.Stmts > 0 {
			k := append([]string{}, out.Kinds...)
			sort.Strings(k)
			col.NonTrivial(fmt.Sprintf("%s|%s|%s|%s|%v", strings.Join(k, ","), out.Path, strings.Join(c.B.Features(), ","), route, c.ViaHCL))
			has := func(s string) bool {
				for _, x := range out.Kinds {
					if strings.HasPrefix(x, s) {
						return true
					}
				}
				return false
			}
			if has("ModifyColumn") && has("AddIndex") && has("DropForeignKey") {
				col.Class("combo/modify-column+add-index+drop-fk")
			}
		}
		col.Sample("path/"+out.Path, c)
		return err
	}
}

func TestCheck(t *testing.T) {
	col := ev.New("C01", "exploration", rule)
	defer col.Finish()
	check := mkCheck(col)
	if !ev.Rapid(t, col, "engine-pairs", col.N(4000, 600000), genCase, check, known) {
		return
	}
	runCLI(t, col)
}

func TestReplay(t *testing.T) {
	if strings.HasPrefix(ev.ReplaySub(), "cli") {
		ev.ReplayFile(t, "C01", func(_ string, c CLICase) error { _, err := checkCLI(c); return err })
		return
	}
	ev.ReplayFile(t, "C01", func(_ string, c Case) error { _, err := checkCase(c); return err })
}
