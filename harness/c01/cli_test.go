package c01

import (
	"fmt"
	"strings"
	"testing"

	"pgregory.net/rapid"

	"verif/cli"
	"verif/ev"
	"verif/model"
	"verif/sqliteref"
)

// CLICase runs the same pair through the real binary: `schema apply --auto-approve` then `schema diff`.
type CLICase struct {
	A     model.Schema `json:"a"`
	B     model.Schema `json:"b"`
	To    string       `json:"to"` // hcl (inspected from a reference file) | sql (B's DDL as file://, with --dev-url) | url (a second live database)
	Edits []string     `json:"edits"`
}

func execFile(path string, stmts []string) error {
	db, err := sqliteref.OpenFile(path)
	if err != nil {
		return err
	}
	defer db.Close()
	for _, s := range stmts {
		if _, err := db.Exec(s); err != nil {
			return fmt.Errorf("%v in %s", err, s)
		}
	}
	return nil
}

func checkCLI(c CLICase) (string, error) {
	model.SettleShortFKs(&c.A, &c.B)
	model.SettleShortFKs(&c.B, &c.A)
	sb, err := cli.NewSandbox()
	if err != nil {
		return "", fmt.Errorf("harness: %v", err)
	}
	defer sb.Close()
	cur, ref := sb.Path("cur.db"), sb.Path("ref.db")
	if err := execFile(cur, append([]string{"PRAGMA user_version = 0"}, c.A.DDL(model.StyleNative)...)); err != nil {
		return "", fmt.Errorf("harness: %v", err)
	}
	if err := execFile(ref, append([]string{"PRAGMA user_version = 0"}, c.B.DDL(model.StyleAtlas)...)); err != nil {
		return "", fmt.Errorf("harness: %v", err)
	}
	var to []string
	switch c.To {
	case "hcl":
		r := sb.Run("schema", "inspect", "--url", "sqlite://"+ref)
		if r.Code != 0 {
			return "", fmt.Errorf("schema inspect failed: %v", r)
		}
		sb.WriteFile("schema.hcl", r.Stdout)
		to = []string{"--to", "file://schema.hcl"}
	case "sql":
		sb.WriteFile("schema.sql", strings.Join(c.B.DDL(model.StyleAtlas), ";\n")+";\n")
		to = []string{"--to", "file://schema.sql", "--dev-url", "sqlite://dev?mode=memory"}
	default:
		to = []string{"--to", "sqlite://" + ref}
	}
	args := append([]string{"schema", "apply", "--url", "sqlite://" + cur, "--auto-approve"}, to...)
	r := sb.Run(args...)
	if r.Code != 0 {
		if strings.Contains(r.Stderr, "<unsupported>") || strings.Contains(r.Stderr+r.Stdout, `near "<": syntax error`) {
			return "known-expr-index", nil
		}
		return "", fmt.Errorf("schema apply failed: %v", r)
	}
	dargs := append([]string{"schema", "diff", "--from", "sqlite://" + cur}, to...)
	if c.To != "sql" {
		dargs = append(dargs, "--dev-url", "sqlite://dev?mode=memory")
	}
	d := sb.Run(dargs...)
	if d.Code != 0 || !strings.Contains(d.Stdout, "Schemas are synced") {
		return "", fmt.Errorf("schema diff after apply is not empty: %v\n apply output: %s", d, r.Stdout)
	}
	ldb, err := sqliteref.OpenFile(cur)
	if err != nil {
		return "", fmt.Errorf("harness: %v", err)
	}
	defer ldb.Close()
	rdb, err := sqliteref.OpenFile(ref)
	if err != nil {
		return "", fmt.Errorf("harness: %v", err)
	}
	defer rdb.Close()
	live, err := sqliteref.Dump(ldb)
	if err != nil {
		return "", fmt.Errorf("harness: %v", err)
	}
	want, err := sqliteref.Dump(rdb)
	if err != nil {
		return "", fmt.Errorf("harness: %v", err)
	}
	if df := sqliteref.Diff(live, want); len(df) > 0 {
		onlyAuto := true
		for _, l := range df {
			if !strings.Contains(l, ": AUTOINCREMENT ") {
				onlyAuto = false
			}
		}
		if onlyAuto {
			return "known-autoincrement", nil
		}
		return "", fmt.Errorf("CLI reports the schemas as synced but the live database differs from the desired one:\n  %s\n apply output:\n%s", strings.Join(df, "\n  "), r.Stdout)
	}
	if strings.Contains(r.Stdout, "Schema is synced") {
		return "noop", nil
	}
	return "applied", nil
}

func genCLI(t *rapid.T) CLICase {
	o := model.Opts{NoInlineUnique: true, WordNames: true}
	c := CLICase{A: model.GenSchema(t, 3, o), To: rapid.SampledFrom([]string{"hcl", "hcl", "sql", "url"}).Draw(t, "to")}
	c.B = c.A.Clone()
	for n := rapid.IntRange(1, 4).Draw(t, "nedits"); n > 0; n-- {
		if k := model.Edit(t, &c.B, o, nil); k != "" {
			c.Edits = append(c.Edits, k)
		}
	}
	return c
}

func runCLI(t *testing.T, col *ev.Collector) {
	check := func(c CLICase) error {
		res, err := checkCLI(c)
		col.Class("cli/to=" + c.To + "/" + res)
		if res == "applied" {
			col.NonTrivial(fmt.Sprintf("cli|%s|%v|%s", c.To, c.Edits, strings.Join(c.B.Features(), ",")))
		}
		col.Sample("cli/"+c.To, c)
		return err
	}
	ev.Rapid(t, col, "cli-pairs", col.N(25, 4000), genCLI, check, ev.Matcher[CLICase]{})
}
