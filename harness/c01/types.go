package c01

import "ariga.io/atlas/sql/migrate"

type migrateChange = migrate.Change
