// Package c08: the statement scanner is total, lossless and position-accurate on arbitrary input.
package c08

import (
	"fmt"
	"regexp"
	"strings"
	"unicode"
	"unicode/utf8"

	"ariga.io/atlas/sql/migrate"
	"ariga.io/atlas/sql/mysql"
	"ariga.io/atlas/sql/postgres"
	"ariga.io/atlas/sql/sqlite"
)

// Case is one scanner input. Src is bytes (base64 in JSON) so invalid UTF-8 survives the replay file.
type Case struct {
	Src  []byte `json:"src"`
	Opt  int    `json:"opt"`  // 0 generic migrate.Stmts, 1 mysql, 2 postgres, 3 sqlite
	Text string `json:"text"` // %q rendering of Src for humans; not used by the check
}

var OptNames = []string{"generic", "mysql", "postgres", "sqlite"}

func scan(opt int, src string) ([]*migrate.Stmt, error) {
	switch opt {
	case 1:
		return (*mysql.Driver)(nil).ScanStmts(src)
	case 2:
		return (*postgres.Driver)(nil).ScanStmts(src)
	case 3:
		return (*sqlite.Driver)(nil).ScanStmts(src)
	default:
		return migrate.Stmts(src)
	}
}

// reHeader mirrors the documented directive format `-- atlas:delimiter <d>` on the first line.
var reHeader = regexp.MustCompile(`^([ -~]*)atlas:(\w+)(?: +([ -~]*))*`)

var unescape = strings.NewReplacer(`\n`, "\n", `\r`, "\r", `\t`, "\t")

// gapLexer is the harness' own tiny lexer for what may legitimately sit between statements:
// whitespace, comments, the current delimiter, DELIMITER command lines and the header directive.
type gapLexer struct {
	delim string
	hash  bool // '#' comments (MySQL)
}

// strip consumes trivia from gap and returns what is left (non-empty = SQL text outside any statement).
func (g *gapLexer) strip(gap string) string {
	for {
		switch r, w := utf8.DecodeRuneInString(gap); {
		case gap == "":
			return ""
		case len(gap) > len("delimiter") && strings.EqualFold(gap[:len("delimiter")], "delimiter") && gap[len("delimiter")] == ' ':
			line := gap
			if i := strings.Index(gap, "\n"); i != -1 {
				line, gap = gap[:i], gap[i:]
			} else {
				gap = ""
			}
			d := strings.TrimSpace(line[len("delimiter"):])
			if len(d) >= 2 && strings.HasPrefix(d, "'") && strings.HasSuffix(d, "'") {
				d = strings.ReplaceAll(d[1:len(d)-1], "''", "'")
			}
			if d != "" {
				g.delim = unescape.Replace(d)
			}
		case g.delim != "" && strings.HasPrefix(gap, g.delim):
			gap = gap[len(g.delim):]
		case unicode.IsSpace(r):
			gap = gap[w:]
		case strings.HasPrefix(gap, "--"), g.hash && strings.HasPrefix(gap, "#"):
			i := strings.Index(gap, "\n")
			if i == -1 {
				return ""
			}
			gap = gap[i+1:]
		case strings.HasPrefix(gap, "/*"):
			i := strings.Index(gap[2:], "*/")
			if i == -1 {
				return ""
			}
			gap = gap[2+i+2:]
		default:
			return gap
		}
	}
}

// Outcome feeds the classification.
type Outcome struct {
	Err   bool
	Stmts int
}

func checkCase(c Case) (Outcome, error) {
	src := string(c.Src)
	stmts, err := scan(c.Opt, src)
	if err != nil {
		return Outcome{Err: true}, nil // a clean error is a valid answer for any input
	}
	out := Outcome{Stmts: len(stmts)}
	g := &gapLexer{delim: ";", hash: c.Opt == 1}
	hdr := 0
	if m := reHeader.FindStringSubmatch(src); len(m) == 4 && m[1] == "-- " && m[2] == "delimiter" && m[3] != "" {
		g.delim = unescape.Replace(m[3])
		hdr = strings.Index(src, "\n") + 1 // the directive line itself
	}
	end := hdr // end of the previous statement in src
	for i, s := range stmts {
		if s.Pos < 0 || s.Pos > len(src) {
			return out, fmt.Errorf("stmt %d: Pos %d outside the input (len %d); text %q", i, s.Pos, len(src), s.Text)
		}
		if !strings.HasPrefix(src[s.Pos:], s.Text) {
			return out, fmt.Errorf("stmt %d: text %q is not found at its reported position %d (input there: %q)", i, s.Text, s.Pos, clip(src[s.Pos:]))
		}
		if s.Pos < end {
			return out, fmt.Errorf("stmt %d: Pos %d overlaps the previous statement which ends at %d", i, s.Pos, end)
		}
		gap := src[end:s.Pos]
		if rest := g.strip(gap); rest != "" {
			return out, fmt.Errorf("stmt %d (Pos %d): text between statements is neither whitespace, comment, delimiter nor delimiter command — silently dropped: %q", i, s.Pos, clip(rest))
		}
		for _, cm := range s.Comments {
			if !strings.Contains(gap, strings.TrimSpace(cm)) {
				return out, fmt.Errorf("stmt %d: comment %q is not in the text preceding the statement %q", i, cm, clip(gap))
			}
		}
		end = s.Pos + len(s.Text)
	}
	if rest := g.strip(src[end:]); rest != "" {
		return out, fmt.Errorf("text after the last statement (ends at %d) silently dropped: %q", end, clip(rest))
	}
	return out, nil
}

func firstLine(s string) string {
	if i := strings.Index(s, "\n"); i != -1 {
		return s[:i]
	}
	return s
}

func clip(s string) string {
	if len(s) > 80 {
		return s[:80] + "…"
	}
	return s
}
