// Package c08: the statement scanner is total, lossless and position-accurate on arbitrary input.
package c08

import (
	"fmt"
	"regexp"
	"strings"
	"unicode"
	"unicode/utf8"

	"ariga.io/atlas/sql/migrate"
	"ariga.io/atlas/sql/mysql"
	"ariga.io/atlas/sql/postgres"
	"ariga.io/atlas/sql/sqlite"
)

// Case is one scanner input. Src is bytes (base64 in JSON) so invalid UTF-8 survives the replay file.
type Case struct {
	Src  []byte `json:"src"`
	Opt  int    `json:"opt"`  // 0 generic migrate.Stmts, 1 mysql, 2 postgres, 3 sqlite
	Text string `json:"text"` // %q rendering of Src for humans; not used by the check
}

var OptNames = []string{"generic", "mysql", "postgres", "sqlite"}

func scan(opt int, src string) ([]*migrate.Stmt, error) {
	switch opt {
	case 1:
		return (*mysql.Driver)(nil).ScanStmts(src)
	case 2:
		return (*postgres.Driver)(nil).ScanStmts(src)
	case 3:
		return (*sqlite.Driver)(nil).ScanStmts(src)
	default:
		return migrate.Stmts(src)
	}
}

// reHeader mirrors the documented directive format `-- atlas:delimiter <d>` on the first line.
var reHeader = regexp.MustCompile(`^([ -~]*)atlas:(\w+)(?: +([ -~]*))*`)

var unescape = strings.NewReplacer(`\n`, "\n", `\r`, "\r", `\t`, "\t")

// gapLexer is the harness' own tiny lexer for what may legitimately sit between statements:
// whitespace, comments, the current delimiter, DELIMITER command lines and the header directive.
type gapLexer struct {
	delims map[string]bool // every delimiter that can be in force under some reading of the gaps so far
	hash   bool            // '#' comments (MySQL)
}

func newGapLexer(delim string, hash bool) *gapLexer {
	return &gapLexer{delims: map[string]bool{delim: true}, hash: hash}
}

// strip consumes trivia from gap and returns what is left (non-empty = SQL text outside any statement).
// A gap can be read in more than one way when the delimiter itself looks like trivia (a delimiter that starts with
// whitespace, "--" or the word DELIMITER): the gap is fine when some reading consumes all of it, and only readings
// made of trivia are tried, so SQL text is never excused. Every delimiter that a successful reading ends with is
// carried to the next gap. On failure the text at which the first dead end was met is returned.
func (g *gapLexer) strip(gap string) string {
	type key struct {
		off   int
		delim string
	}
	memo := map[key]map[string]bool{}
	firstRest := ""
	var walk func(off int, delim string) map[string]bool
	walk = func(off int, delim string) map[string]bool {
		rest := gap[off:]
		if rest == "" {
			return map[string]bool{delim: true}
		}
		k := key{off, delim}
		if r, ok := memo[k]; ok {
			return r
		}
		memo[k] = nil // every step advances, so there are no cycles; this only guards re-entry
		var next []key
		if len(rest) > len("delimiter") && strings.EqualFold(rest[:len("delimiter")], "delimiter") && rest[len("delimiter")] == ' ' {
			line, n := rest, len(rest)
			if i := strings.Index(rest, "\n"); i != -1 {
				line, n = rest[:i], i
			}
			d := strings.TrimSpace(line[len("delimiter"):])
			if len(d) >= 2 && strings.HasPrefix(d, "'") && strings.HasSuffix(d, "'") {
				d = strings.ReplaceAll(d[1:len(d)-1], "''", "'")
			}
			nd := delim
			if d != "" {
				nd = unescape.Replace(d)
			}
			next = append(next, key{off + n, nd})
		}
		if delim != "" && strings.HasPrefix(rest, delim) {
			next = append(next, key{off + len(delim), delim})
		}
		if r, w := utf8.DecodeRuneInString(rest); unicode.IsSpace(r) {
			next = append(next, key{off + w, delim})
		}
		if strings.HasPrefix(rest, "--") || g.hash && strings.HasPrefix(rest, "#") {
			if i := strings.Index(rest, "\n"); i == -1 {
				next = append(next, key{len(gap), delim})
			} else {
				next = append(next, key{off + i + 1, delim})
			}
		}
		if strings.HasPrefix(rest, "/*") {
			if i := strings.Index(rest[2:], "*/"); i == -1 {
				next = append(next, key{len(gap), delim})
			} else {
				next = append(next, key{off + 2 + i + 2, delim})
			}
		}
		if len(next) == 0 && firstRest == "" {
			firstRest = rest
		}
		res := map[string]bool{}
		for _, n := range next {
			for d := range walk(n.off, n.delim) {
				res[d] = true
			}
		}
		memo[k] = res
		return res
	}
	ends := map[string]bool{}
	for d := range g.delims {
		for e := range walk(0, d) {
			ends[e] = true
		}
	}
	if len(ends) > 0 {
		g.delims = ends
		return ""
	}
	if firstRest == "" {
		firstRest = gap
	}
	return firstRest
}

// Outcome feeds the classification.
type Outcome struct {
	Err   bool
	Stmts int
}

func checkCase(c Case) (Outcome, error) {
	src := string(c.Src)
	stmts, err := scan(c.Opt, src)
	if err != nil {
		return Outcome{Err: true}, nil // a clean error is a valid answer for any input
	}
	out := Outcome{Stmts: len(stmts)}
	g := newGapLexer(";", c.Opt == 1)
	hdr := 0
	if m := reHeader.FindStringSubmatch(src); len(m) == 4 && m[1] == "-- " && m[2] == "delimiter" && m[3] != "" {
		g = newGapLexer(unescape.Replace(m[3]), c.Opt == 1)
		hdr = strings.Index(src, "\n") + 1 // the directive line itself
	}
	end := hdr // end of the previous statement in src
	for i, s := range stmts {
		if s.Pos < 0 || s.Pos > len(src) {
			return out, fmt.Errorf("stmt %d: Pos %d outside the input (len %d); text %q", i, s.Pos, len(src), s.Text)
		}
		if !strings.HasPrefix(src[s.Pos:], s.Text) {
			return out, fmt.Errorf("stmt %d: text %q is not found at its reported position %d (input there: %q)", i, s.Text, s.Pos, clip(src[s.Pos:]))
		}
		if s.Pos < end {
			return out, fmt.Errorf("stmt %d: Pos %d overlaps the previous statement which ends at %d", i, s.Pos, end)
		}
		gap := src[end:s.Pos]
		if rest := g.strip(gap); rest != "" {
			return out, fmt.Errorf("stmt %d (Pos %d): text between statements is neither whitespace, comment, delimiter nor delimiter command — silently dropped: %q", i, s.Pos, clip(rest))
		}
		for _, cm := range s.Comments {
			if !strings.Contains(gap, strings.TrimSpace(cm)) {
				return out, fmt.Errorf("stmt %d: comment %q is not in the text preceding the statement %q", i, cm, clip(gap))
			}
		}
		end = s.Pos + len(s.Text)
	}
	if rest := g.strip(src[end:]); rest != "" {
		return out, fmt.Errorf("text after the last statement (ends at %d) silently dropped: %q", end, clip(rest))
	}
	return out, nil
}

func firstLine(s string) string {
	if i := strings.Index(s, "\n"); i != -1 {
		return s[:i]
	}
	return s
}

func clip(s string) string {
	if len(s) > 80 {
		return s[:80] + "…"
	}
	return s
}
