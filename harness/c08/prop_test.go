package c08

import (
	"time"
	"fmt"
	"os"
	"path/filepath"
	"sort"
	"strconv"
	"strings"
	"testing"

	"pgregory.net/rapid"

	"verif/ev"
)

var known = ev.Matcher[Case]{}

const rule = "grammar-based generation (rapid): files = optional `-- atlas:delimiter` header + 1..8 statements, each a token soup of identifiers, numbers, " +
	"the three quote kinds with doubled/backslash escapes, E'' strings, --, # and /* */ comments (closed, unclosed), balanced/unbalanced parentheses, $$ / $tag$ bodies, " +
	"BEGIN [ATOMIC] ... END blocks (nested, CASE..END inside), DELIMITER commands (quoted, multi-char, lone quote), multi-byte and invalid UTF-8, unicode spaces; " +
	"joined with the current delimiter; plus byte-level mutations of those; plus every file under sql/migrate/testdata/lex and a list of hostile constants; " +
	"each input is scanned with the 4 option sets real callers use (migrate.Stmts, mysql/postgres/sqlite Driver.ScanStmts). " +
	"thorough adds native coverage-guided fuzzing (FuzzScan) seeded with the same corpus. " +
	"non-trivial = scan succeeded with >=2 statements, or >=1 statement containing a quote, comment or block; distinct key = (option set, structural token classes present, #stmts bucket)"

// ---------- generator

var idents = []string{"a", "t1", "users", "SELECT", "insert", "INTO", "values", "CREATE", "TABLE", "x", "END", "end", "BEGIN", "begin", "CASE", "WHEN", "THEN", "ELSE", "IF", "LOOP",
	"ATOMIC", "atomic", "TRIGGER", "FOR", "EACH", "ROW", "FUNCTION", "RETURNS", "AS", "LANGUAGE", "sql", "E", "e", "delimiter", "DELIMITER", "GO", "TRY", "CATCH", "é", "日本", "1", "42", "3.14", ",", "=", "*", "+", ".", ":", "::"}

func genString(t *rapid.T, q string) string {
	n := rapid.IntRange(0, 4).Draw(t, "slen")
	var b strings.Builder
	b.WriteString(q)
	for i := 0; i < n; i++ {
		switch rapid.IntRange(0, 9).Draw(t, "sch") {
		case 0:
			b.WriteString(q + q) // doubled quote
		case 1:
			b.WriteString(`\` + q) // backslash-escaped quote (MySQL / E'')
		case 2:
			b.WriteString(`\\`)
		case 3:
			b.WriteString(";")
		case 4:
			b.WriteString("--")
		case 5:
			b.WriteString("/*")
		case 6:
			b.WriteString("\n")
		case 7:
			b.WriteString(rapid.SampledFrom([]string{"'", `"`, "`", "$$", "(", ")", "#"}).Draw(t, "sq"))
		default:
			b.WriteString(rapid.SampledFrom(idents).Draw(t, "sw"))
		}
	}
	if rapid.IntRange(0, 15).Draw(t, "unclosed") != 0 {
		b.WriteString(q)
	}
	return b.String()
}

func genToken(t *rapid.T, depth int) string {
	switch k := rapid.IntRange(0, 23).Draw(t, "tok"); {
	case k < 8:
		return rapid.SampledFrom(idents).Draw(t, "id")
	case k < 11:
		return genString(t, rapid.SampledFrom([]string{"'", "'", `"`, "`"}).Draw(t, "q"))
	case k == 11:
		return "E" + genString(t, "'")
	case k == 12:
		return "-- " + rapid.SampledFrom([]string{"c", "it's", "a;b", "/*", "atlas:nolint", `"q`}).Draw(t, "lc") + rapid.SampledFrom([]string{"\n", "\n", "\n\n", ""}).Draw(t, "lcend")
	case k == 13:
		return "/* " + rapid.SampledFrom([]string{"c", "it's", "a;b", "--", "\n", "multi\nline"}).Draw(t, "bc") + rapid.SampledFrom([]string{" */", " */", "*/", ""}).Draw(t, "bcend")
	case k == 14:
		return "# " + rapid.SampledFrom([]string{"c", "it's", "a;b"}).Draw(t, "hc") + rapid.SampledFrom([]string{"\n", ""}).Draw(t, "hcend")
	case k == 15 || k == 16:
		if depth > 2 {
			return "()"
		}
		n := rapid.IntRange(0, 3).Draw(t, "pn")
		parts := make([]string, n)
		for i := range parts {
			parts[i] = genToken(t, depth+1)
		}
		return "(" + strings.Join(parts, " ") + ")"
	case k == 17:
		return rapid.SampledFrom([]string{"(", ")", "((", "))"}).Draw(t, "paren")
	case k == 18:
		tag := rapid.SampledFrom([]string{"$$", "$$", "$fn$", "$_a1$", "$é$"}).Draw(t, "tag")
		body := rapid.SampledFrom([]string{"", "x", "a; b;", "it's", "BEGIN x; END", "$", "$other$ y $other$", "\n"}).Draw(t, "dbody")
		return tag + body + rapid.SampledFrom([]string{tag, tag, tag, ""}).Draw(t, "dend")
	case k == 19 || k == 20:
		if depth > 1 {
			return "BEGIN END"
		}
		n := rapid.IntRange(0, 3).Draw(t, "bn")
		var b strings.Builder
		b.WriteString(rapid.SampledFrom([]string{"BEGIN", "begin", "BEGIN ATOMIC", "BEGIN\n", "BEGIN TRY"}).Draw(t, "bkw") + " ")
		for i := 0; i < n; i++ {
			b.WriteString(genToken(t, depth+1) + " " + genToken(t, depth+1) + rapid.SampledFrom([]string{";", "; ", ";\n", ""}).Draw(t, "bsep"))
		}
		if rapid.IntRange(0, 4).Draw(t, "case") == 0 {
			b.WriteString(" CASE WHEN x THEN 1 END; ")
		}
		b.WriteString(rapid.SampledFrom([]string{"END", "END", "end", " END ", "END CATCH", ""}).Draw(t, "bend"))
		return b.String()
	case k == 21:
		return rapid.SampledFrom([]string{" ", " ", "\t", "\r\n", "\n", "\n\n", "\v", "\x85"}).Draw(t, "sp")
	case k == 22:
		return rapid.SampledFrom([]string{"\xff", "\xc3", "\xe2\x82", "\x00", "\U0001F600", "\ufeff"}).Draw(t, "bad")
	default:
		return rapid.SampledFrom([]string{"$", "$1", "-", "/", "*/", "\\", "#", "@", ";"}).Draw(t, "punct")
	}
}

var delims = []string{";", ";", ";", ";;", "$$", "//", `\n\n`, `\n\n\n`, "GO", "|", "'", "''", "' '", "';'", "-- ", "END", "\xff", "é", "§", "€€", "日本", "é;", ";é"}

func genDelimCmd(t *rapid.T) (line, delim string) {
	d := rapid.SampledFrom(delims).Draw(t, "delim")
	kw := rapid.SampledFrom([]string{"DELIMITER", "delimiter", "Delimiter"}).Draw(t, "dkw")
	sp := rapid.SampledFrom([]string{" ", " ", "  ", "\t", ""}).Draw(t, "dsp")
	return kw + sp + d + rapid.SampledFrom([]string{"\n", "\n", " \n", "\n\n", ""}).Draw(t, "dnl"), d
}

func genSrc(t *rapid.T) string {
	var b strings.Builder
	delim := ";"
	if rapid.IntRange(0, 4).Draw(t, "header") == 0 {
		d := rapid.SampledFrom([]string{";", ";;", "$$", `\n\n`, "//", "END", "", " "}).Draw(t, "hd")
		b.WriteString(rapid.SampledFrom([]string{"-- atlas:delimiter ", "-- atlas:delimiter ", "--atlas:delimiter ", "-- atlas:delimiter"}).Draw(t, "hkw") + d +
			rapid.SampledFrom([]string{"\n", "\n", "\n\n", "\r\n", ""}).Draw(t, "hnl"))
		if d != "" {
			delim = strings.NewReplacer(`\n`, "\n").Replace(d)
		}
	}
	n := rapid.IntRange(1, 8).Draw(t, "nstmts")
	for i := 0; i < n; i++ {
		if rapid.IntRange(0, 7).Draw(t, "delimcmd") == 0 {
			line, d := genDelimCmd(t)
			b.WriteString(line)
			if d != "" {
				delim = strings.NewReplacer(`\n`, "\n").Replace(d)
			}
			continue
		}
		nt := rapid.IntRange(0, 6).Draw(t, "ntok")
		for j := 0; j < nt; j++ {
			b.WriteString(genToken(t, 0))
			b.WriteString(rapid.SampledFrom([]string{" ", " ", " ", "", "\n", "  "}).Draw(t, "sep"))
		}
		switch rapid.IntRange(0, 9).Draw(t, "term") {
		case 0:
			// no delimiter
		case 1:
			b.WriteString(";")
		default:
			b.WriteString(delim)
		}
		b.WriteString(rapid.SampledFrom([]string{"\n", "\n", " ", "", "\n\n", "\r\n"}).Draw(t, "nl"))
	}
	return b.String()
}

// mutate applies a few byte-level edits (what a coverage-less fuzzer would do) to a grammar-generated input.
func mutate(t *rapid.T, s string) string {
	b := []byte(s)
	for k := rapid.IntRange(0, 3).Draw(t, "nmut"); k > 0 && len(b) > 0; k-- {
		i := rapid.IntRange(0, len(b)-1).Draw(t, "mi")
		switch rapid.IntRange(0, 3).Draw(t, "mk") {
		case 0:
			b = append(b[:i], b[i+1:]...)
		case 1:
			b = append(b[:i], append([]byte(rapid.SampledFrom([]string{"'", `"`, ";", "(", ")", "\n", "$$", "--", "/*", "*/", "\\", "`"}).Draw(t, "ins")), b[i:]...)...)
		case 2:
			b = b[:i]
		case 3:
			j := rapid.IntRange(0, len(b)-1).Draw(t, "mj")
			b[i], b[j] = b[j], b[i]
		}
	}
	return string(b)
}

// ---------- corpus

var hostile = []string{
	"", ";", ";;", " ", "\n", "(", ")", "'", `"`, "`", "$$", "$", "--", "-- ", "/*", "*/", "#",
	"DELIMITER", "DELIMITER ", "DELIMITER '", "DELIMITER ''", "DELIMITER ' '", "delimiter ;;\nselect 1;;\n", "DELIMITER \\n\\n\nselect 1\n\nselect 2\n",
	"DELIMITER $$\ncreate x $$\nDELIMITER ;\nselect 1;",
	"-- atlas:delimiter", "-- atlas:delimiter ", "-- atlas:delimiter \n", "-- atlas:delimiter ;;\nselect 1;;\nselect 2;;\n", "-- atlas:delimiter \\n\\n\n\nselect 1\n\nselect 2\n\n",
	"-- atlas:delimiter $$\n\n-- c\nselect 1$$ select '$$' $$",
	"select 1; -- trailing", "select 1; /* trailing", "select 1; /* c */ select 2", "-- c\n\nselect 1;", "-- c\nselect 1;", "/* c */\nselect 1;",
	"select 'a;b'; select \"a;b\"; select `a;b`;", "select 'it''s'; select 'a\\'; select 'b';", "select E'a\\'b;'; select 2;",
	"create function f() returns int as $$ begin return 1; end $$ language sql; select 2;",
	"create function f() begin atomic select 1; select 2; end; select 3;",
	"create trigger t begin select 1; end; select 2;", "begin; select 1; end;", "BEGIN\nselect case when 1 then 2 end;\nEND;\nselect 3;",
	"select (1;", "select 1);", "select ((1)); select 2", "\xff\xfe;", "select '\xff'; select 2;", "\ufeffselect 1;", "select 1; select 2;",
	"GO\n", "select 1\nGO\nselect 2\nGO 2\n", "delimiterx y;", "DELIMITER;", "DELIMITER\n;",
}

func corpus() []string {
	out := append([]string{}, hostile...)
	repo := os.Getenv("VERIF_REPO")
	if repo == "" {
		repo = "/repo"
	}
	files, _ := filepath.Glob(filepath.Join(repo, "sql/migrate/testdata/lex/*.sql"))
	sort.Strings(files)
	for _, f := range files {
		if b, err := os.ReadFile(f); err == nil {
			out = append(out, string(b))
		}
	}
	more, _ := filepath.Glob(filepath.Join(ev.Root(), "corpus", "C08", "*"))
	sort.Strings(more)
	for _, f := range more {
		if b, err := os.ReadFile(f); err == nil {
			out = append(out, string(b))
		}
	}
	return out
}

// ---------- classification

func features(src string) string {
	var fs []string
	for _, f := range []struct{ name, sub string }{
		{"sq", "'"}, {"dq", `"`}, {"bq", "`"}, {"lc", "--"}, {"bc", "/*"}, {"hash", "#"}, {"paren", "("}, {"dollar", "$"},
		{"begin", "BEGIN"}, {"begin", "begin"}, {"delimcmd", "DELIMITER "}, {"delimcmd", "delimiter "}, {"header", "atlas:delimiter"}, {"bs", `\`},
	} {
		if strings.Contains(src, f.sub) && (len(fs) == 0 || fs[len(fs)-1] != f.name) {
			fs = append(fs, f.name)
		}
	}
	return strings.Join(fs, ",")
}

func mkCheck(col *ev.Collector) func(Case) error {
	return func(c Case) error {
		out, err := checkCase(c)
		src := string(c.Src)
		f := features(src)
		switch {
		case out.Err:
			col.Class(OptNames[c.Opt] + "/scan-error")
		default:
			col.Class(fmt.Sprintf("%s/ok/stmts=%d", OptNames[c.Opt], min(out.Stmts, 4)))
			if out.Stmts >= 2 || (out.Stmts == 1 && f != "") {
				col.NonTrivial(fmt.Sprintf("%s|%s|%d", OptNames[c.Opt], f, min(out.Stmts, 6)))
			}
		}
		for _, x := range strings.Split(f, ",") {
			if x != "" && !out.Err {
				col.Class("feature/" + x)
			}
		}
		if !out.Err && out.Stmts >= 2 {
			col.Sample(OptNames[c.Opt]+"/"+f, Case{Opt: c.Opt, Text: src})
		}
		return err
	}
}

// GCase: a run of one unit repeated, scanned with one option set.
type GCase struct {
	Unit string `json:"unit"`
	Opt  int    `json:"opt"`
}

func checkGrowth(g GCase) error {
	timeOf := func(n int) time.Duration {
		best := time.Duration(1 << 62)
		for try := 0; try < 2; try++ {
			start := time.Now()
			scan(g.Opt, strings.Repeat(g.Unit, n))
			if d := time.Since(start); d < best {
				best = d
			}
			if best > 200*time.Millisecond {
				break
			}
		}
		return best
	}
	small := timeOf(10)
	floor := small
	if floor < 200*time.Microsecond {
		floor = 200 * time.Microsecond
	}
	// the run grows two words at a time so that an exploding scanner is reported after seconds instead of being waited for
	for n := 12; n <= 22; n += 2 {
		slow := func(d time.Duration) bool { return d > 1500*time.Millisecond && d > 300*floor }
		large := timeOf(n)
		for again := 0; again < 3 && slow(large); again++ { // a stalled machine is not an exploding scanner: only a run that is slow every time counts
			time.Sleep(2 * time.Second)
			if d := timeOf(n); d < large {
				large = d
			}
		}
		if slow(large) {
			return fmt.Errorf("%s: scanning %q repeated %d times takes %v, repeated 10 times %v: the running time explodes with the number of unterminated BEGIN words (does not terminate in practice for a few dozen)", OptNames[g.Opt], g.Unit, n, large, small)
		}
	}
	return nil
}

func mk(src string, opt int) Case { return Case{Src: []byte(src), Opt: opt, Text: fmt.Sprintf("%q", src)} }

func TestCheck(t *testing.T) {
	col := ev.New("C08", "exploration", rule)
	defer col.Finish()
	check := mkCheck(col)
	for _, src := range corpus() {
		for opt := 0; opt < 4; opt++ {
			if !ev.Each(col, "corpus", mk(src, opt), check, known) {
				return
			}
		}
	}
	// "terminates": the time to scan a run of unterminated BEGIN words must not explode with its length. The scanner is
	// timed on 10 and on 12..22 repetitions; a run that takes seconds AND hundreds of times the 10-run is reported
	// (doubling per extra word gives a factor of 4096; a linear or quadratic scanner stays below 10).
	for _, unit := range []string{"BEGIN ", "BEGIN x; ", "begin\n", "BEGIN ATOMIC ", "BEGIN ATOMIC x; ", "BEGIN ATOMIC BEGIN ", "begin atomic\nbegin\nbegin\n"} {
		for opt := 0; opt < 4; opt++ {
			g := GCase{Unit: unit, Opt: opt}
			if !ev.Each(col, "nesting-growth", g, func(g GCase) error {
				col.Class(OptNames[g.Opt] + "/nesting-growth")
				col.NonTrivial(fmt.Sprintf("growth|%s|%q", OptNames[g.Opt], g.Unit))
				return checkGrowth(g)
			}, ev.Matcher[GCase]{}) {
				return
			}
		}
	}
	gen := func(t *rapid.T) Case {
		return mk(genSrc(t), rapid.IntRange(0, 3).Draw(t, "opt"))
	}
	if !ev.Rapid(t, col, "grammar", col.N(60000, 4000000), gen, check, known) {
		return
	}
	genMut := func(t *rapid.T) Case {
		return mk(mutate(t, genSrc(t)), rapid.IntRange(0, 3).Draw(t, "opt"))
	}
	ev.Rapid(t, col, "grammar+mutation", col.N(30000, 2000000), genMut, check, known)
}

func TestReplay(t *testing.T) {
	if strings.HasPrefix(ev.ReplaySub(), "nesting") {
		ev.ReplayFile(t, "C08", func(_ string, g GCase) error { return checkGrowth(g) })
		return
	}
	ev.ReplayFile(t, "C08", func(_ string, c Case) error { _, err := checkCase(c); return err })
}

// FuzzScan is the coverage-guided target (thorough tier; `go test -fuzz=FuzzScan`).
func FuzzScan(f *testing.F) {
	for _, s := range corpus() {
		for opt := 0; opt < 4; opt++ {
			f.Add([]byte(s), uint8(opt))
		}
	}
	f.Fuzz(func(t *testing.T, data []byte, opt uint8) {
		c := mk(string(data), int(opt%4))
		if _, err := checkCase(c); err != nil {
			t.Fatalf("%v", err)
		}
	})
}

// TestFuzzCrashers turns crasher files written by `go test -fuzz` into replay files + VIOLATION lines.
func TestFuzzCrashers(t *testing.T) {
	dir := os.Getenv("VERIF_FUZZ_CRASHDIR")
	if dir == "" {
		t.Skip()
	}
	col := ev.New("C08", "exploration", rule)
	files, _ := filepath.Glob(filepath.Join(dir, "*"))
	for _, f := range files {
		b, err := os.ReadFile(f)
		if err != nil {
			continue
		}
		lines := strings.Split(string(b), "\n")
		if len(lines) < 3 {
			continue
		}
		lit := strings.TrimSuffix(strings.TrimPrefix(lines[1], "[]byte("), ")")
		data, err := strconv.Unquote(lit)
		if err != nil {
			fmt.Printf("HARNESS-ERROR cannot parse fuzz crasher %s: %v\n", f, err)
			continue
		}
		var opt int
		fmt.Sscanf(strings.TrimSuffix(strings.TrimPrefix(lines[2], "uint8("), ")"), "%v", &opt)
		if strings.HasPrefix(lines[2], "byte('") {
			r, _, _, _ := strconv.UnquoteChar(strings.TrimSuffix(strings.TrimPrefix(lines[2], "byte('"), "')"), '\'')
			opt = int(r)
		}
		ev.Each(col, "fuzz", mk(data, opt%4), func(c Case) error { _, err := checkCase(c); return err }, known)
	}
}
