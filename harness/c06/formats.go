package c06

import (
	"fmt"
	"strings"

	"ariga.io/atlas/sql/migrate"
	"ariga.io/atlas/sql/sqltool"

	"verif/cli"
)

// FCase: a project that keeps its migrations in another tool's layout plans a new version with `migrate diff`; the
// layout is named in the dir URL (?format=), or in the migration block of the project file, or by --dir-format next to
// a directory taken from the project file. Fresh: the directory is empty before; otherwise it holds one hashed version.
type FCase struct {
	Format string `json:"format"`
	Route  string `json:"route"` // url | env | flag-over-env
	Fresh  bool   `json:"fresh"`
}

func checkFormat(c FCase) error {
	sb, err := cli.NewSandbox()
	if err != nil {
		return fmt.Errorf("harness: %v", err)
	}
	defer sb.Close()
	dirURL := "file://g"
	if c.Format != "atlas" {
		dirURL += "?format=" + c.Format
	}
	sb.WriteFile("g/.keep", "")
	if !c.Fresh {
		up, down := "20240101000000_init.up.sql", "20240101000000_init.down.sql"
		upBody, downBody := "CREATE TABLE `t1` (`c` int NOT NULL);\n", "DROP TABLE `t1`;\n"
		switch c.Format {
		case "flyway":
			up, down = "V20240101000000__init.sql", "U20240101000000__init.sql"
		case "goose":
			up, down = "20240101000000_init.sql", ""
			upBody = "-- +goose Up\n" + upBody + "-- +goose Down\n" + downBody
		case "dbmate":
			up, down = "20240101000000_init.sql", ""
			upBody = "-- migrate:up\n" + upBody + "-- migrate:down\n" + downBody
		case "atlas":
			up, down = "20240101000000_init.sql", ""
		}
		sb.WriteFile("g/"+up, upBody)
		if down != "" {
			sb.WriteFile("g/"+down, downBody)
		}
		if r := sb.Run("migrate", "hash", "--dir", dirURL); r.Code != 0 {
			return fmt.Errorf("harness: %v", r)
		}
		if r := sb.Run("migrate", "validate", "--dir", dirURL); r.Code != 0 {
			return fmt.Errorf("the %s directory does not validate right after `migrate hash`: %v", c.Format, r)
		}
	}
	sb.WriteFile("schema.sql", "CREATE TABLE `t1` (`c` int NOT NULL);\nCREATE TABLE `t2` (`c` int NOT NULL);\n")
	dev := "sqlite://dev?mode=memory"
	var args []string
	switch c.Route {
	case "url":
		args = []string{"--dir", dirURL, "--dev-url", dev, "--to", "file://schema.sql"}
	case "env":
		fm := ""
		if c.Format != "atlas" {
			fm = fmt.Sprintf("    format = %q\n", c.Format)
		}
		sb.WriteFile("atlas.hcl", fmt.Sprintf("env \"x\" {\n  src = \"file://schema.sql\"\n  dev = %q\n  migration {\n    dir = \"file://g\"\n%s  }\n}\n", dev, fm))
		args = []string{"--env", "x", "-c", "file://atlas.hcl"}
	default: // the directory from the project file, the layout from the (deprecated, still accepted) flag
		sb.WriteFile("atlas.hcl", fmt.Sprintf("env \"x\" {\n  src = \"file://schema.sql\"\n  dev = %q\n  migration {\n    dir = \"file://g\"\n  }\n}\n", dev))
		args = []string{"--env", "x", "-c", "file://atlas.hcl"}
		if c.Format != "atlas" {
			args = append(args, "--dir-format", c.Format)
		}
	}
	r := sb.Run(append([]string{"migrate", "diff", "add_t2"}, args...)...)
	if r.Code != 0 {
		return fmt.Errorf("`migrate diff` on a valid %s directory (layout named by %s) fails: %v", c.Format, c.Route, r)
	}
	// nothing was touched since Atlas wrote to the directory: every consumer accepts it
	if r := sb.Run("migrate", "validate", "--dir", dirURL); r.Code != 0 {
		return fmt.Errorf("`migrate diff` (layout %s named by %s) left a directory that does not validate: %v", c.Format, c.Route, r)
	}
	var dir migrate.Dir
	switch c.Format {
	case "golang-migrate":
		dir, err = sqltool.NewGolangMigrateDir(sb.Path("g"))
	case "flyway":
		dir, err = sqltool.NewFlywayDir(sb.Path("g"))
	case "goose":
		dir, err = sqltool.NewGooseDir(sb.Path("g"))
	case "dbmate":
		dir, err = sqltool.NewDBMateDir(sb.Path("g"))
	default:
		dir, err = migrate.NewLocalDir(sb.Path("g"))
	}
	if err != nil {
		return fmt.Errorf("harness: %v", err)
	}
	if err := migrate.Validate(dir); err != nil {
		return fmt.Errorf("`migrate diff` (layout %s named by %s) left a directory that migrate.Validate rejects: %v", c.Format, c.Route, err)
	}
	files, err := dir.Files()
	if err != nil {
		return fmt.Errorf("harness: %v", err)
	}
	want := 2
	if c.Fresh {
		want = 1
	}
	if len(files) != want {
		var names []string
		for _, f := range files {
			names = append(names, f.Name())
		}
		return fmt.Errorf("after `migrate diff` the %s directory lists %d version(s) %v, want %d (the planned file is not part of the directory in its own layout)", c.Format, len(files), names, want)
	}
	// a second run has nothing to plan
	r2 := sb.Run(append([]string{"migrate", "diff", "again"}, args...)...)
	if r2.Code != 0 || !strings.Contains(r2.Stdout+r2.Stderr, "no changes") {
		return fmt.Errorf("a second `migrate diff` (layout %s named by %s) does not find the directory in sync with the desired state: %v", c.Format, c.Route, r2)
	}
	return nil
}
