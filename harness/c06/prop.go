// Package c06: directory integrity — any tampering is detected, an untouched directory validates.
package c06

import (
	"bytes"
	"crypto/sha256"
	"encoding/base64"
	"errors"
	"fmt"
	"os"
	"path/filepath"
	"reflect"
	"regexp"
	"sort"
	"strings"

	"ariga.io/atlas/sql/migrate"
)

type File struct {
	Name string `json:"name"`
	Data []byte `json:"data"`
	Text string `json:"text,omitempty"` // %q of Data for humans
}

// Edit of the directory or of atlas.sum.
type Edit struct {
	Kind string `json:"kind"` // add | remove | rename | swap | flip | insert | delete | sum-flip | sum-del-line | sum-dup-line | sum-swap-lines | sum-truncate | sum-remove | sum-shift | sum-join
	File int    `json:"file,omitempty"`
	Peer int    `json:"peer,omitempty"` // swap: other file; sum-swap-lines: other line
	Off  int    `json:"off,omitempty"`
	Byte byte   `json:"byte,omitempty"`
	Name string `json:"name,omitempty"`
	Data []byte `json:"data,omitempty"`
	// Rehash (sum-del-line / sum-dup-line / sum-swap-lines): the header line is recomputed over the edited lines, so the
	// sum file is consistent in itself and only disagrees with the directory
	Rehash bool `json:"rehash,omitempty"`
}

type Case struct {
	Files []File `json:"files"`
	Edits []Edit `json:"edits"`
	Local bool   `json:"local"` // LocalDir on disk instead of MemDir
}

// reDirective is the documented directive grammar (first line: printable prefix, atlas:<name> <args>).
var reDirective = regexp.MustCompile(`^([ -~]*)atlas:(\w+)(?: +([ -~]*))*`)

func sumIgnored(data []byte) bool {
	m := reDirective.FindStringSubmatch(string(data))
	return len(m) == 4 && m[2] == "sum" && m[3] == "ignore"
}

type item struct {
	kind string // N = name, C = content
	val  string
}

// protected is the reference model of what atlas.sum protects: the sorted .sql files; a file carrying
// `atlas:sum ignore` contributes only its name, and only if a protected file follows it (its name is
// folded into the cumulative hash of the next listed file); every other file contributes name and bytes.
func protected(files []File) []item {
	fs := sqlFiles(files)
	lastListed := -1
	for i, f := range fs {
		if !sumIgnored(f.Data) {
			lastListed = i
		}
	}
	var out []item
	for i, f := range fs {
		if i > lastListed {
			break
		}
		out = append(out, item{"N", f.Name})
		if !sumIgnored(f.Data) {
			out = append(out, item{"C", string(f.Data)})
		}
	}
	return out
}

func sqlFiles(files []File) []File {
	var fs []File
	for _, f := range files {
		if filepath.Ext(f.Name) == ".sql" {
			fs = append(fs, f)
		}
	}
	sort.Slice(fs, func(i, j int) bool { return fs[i].Name < fs[j].Name })
	return fs
}

// modelSum is an independent implementation of the documented atlas.sum format.
func modelSum(files []File) string {
	h := sha256.New()
	var lines []string
	all := sha256.New()
	for _, f := range sqlFiles(files) {
		h.Write([]byte(f.Name))
		if sumIgnored(f.Data) {
			continue
		}
		h.Write(f.Data)
		hs := base64.StdEncoding.EncodeToString(h.Sum(nil))
		all.Write([]byte(f.Name))
		all.Write([]byte(hs))
		lines = append(lines, f.Name+" h1:"+hs+"\n")
	}
	return "h1:" + base64.StdEncoding.EncodeToString(all.Sum(nil)) + "\n" + strings.Join(lines, "")
}

// hostileName reports names the sum-file *format* cannot represent faithfully.
func hostileName(n string) string {
	switch {
	case strings.Contains(n, "h1:"):
		return "name-contains-h1:"
	case strings.TrimSpace(n) != n:
		return "name-with-outer-space"
	case strings.ContainsAny(n, "\n\r"):
		return "name-with-newline"
	}
	return ""
}

type dirI interface {
	migrate.Dir
}

func applyDirEdit(files []File, e Edit) ([]File, error) {
	out := make([]File, len(files))
	copy(out, files)
	idx := func(i int) (int, error) {
		if i < 0 || i >= len(out) {
			return 0, fmt.Errorf("harness: edit %+v out of range", e)
		}
		return i, nil
	}
	switch e.Kind {
	case "add":
		for _, f := range out {
			if f.Name == e.Name {
				return nil, fmt.Errorf("harness: add of existing %q", e.Name)
			}
		}
		out = append(out, File{Name: e.Name, Data: e.Data})
	case "remove":
		i, err := idx(e.File)
		if err != nil {
			return nil, err
		}
		out = append(out[:i], out[i+1:]...)
	case "rename":
		i, err := idx(e.File)
		if err != nil {
			return nil, err
		}
		for _, f := range out {
			if f.Name == e.Name {
				return nil, fmt.Errorf("harness: rename onto existing %q", e.Name)
			}
		}
		out[i] = File{Name: e.Name, Data: out[i].Data}
	case "swap":
		i, err := idx(e.File)
		if err != nil {
			return nil, err
		}
		j, err := idx(e.Peer)
		if err != nil {
			return nil, err
		}
		out[i], out[j] = File{Name: out[i].Name, Data: out[j].Data}, File{Name: out[j].Name, Data: out[i].Data}
	case "flip", "insert", "delete":
		i, err := idx(e.File)
		if err != nil {
			return nil, err
		}
		d := append([]byte{}, out[i].Data...)
		switch e.Kind {
		case "flip":
			if e.Off >= len(d) {
				return nil, fmt.Errorf("harness: flip offset")
			}
			if d[e.Off] == e.Byte {
				e.Byte ^= 1
			}
			d[e.Off] = e.Byte
		case "insert":
			if e.Off > len(d) {
				return nil, fmt.Errorf("harness: insert offset")
			}
			d = append(d[:e.Off], append([]byte{e.Byte}, d[e.Off:]...)...)
		case "delete":
			if e.Off >= len(d) {
				return nil, fmt.Errorf("harness: delete offset")
			}
			d = append(d[:e.Off], d[e.Off+1:]...)
		}
		out[i] = File{Name: out[i].Name, Data: d}
	default:
		return nil, fmt.Errorf("harness: unknown dir edit %q", e.Kind)
	}
	return out, nil
}

// applySumEdit edits the sum text; every kind generated changes the file's meaning (must be detected).
// rehash recomputes the header line of a sum file from its file lines (name and hash back to back, as documented).
func rehash(sum string) string {
	lines := strings.SplitAfter(sum, "\n")
	all := sha256.New()
	for _, l := range lines[1:] {
		l = strings.TrimSuffix(l, "\n")
		i := strings.LastIndex(l, " h1:")
		if i == -1 {
			continue
		}
		all.Write([]byte(l[:i]))
		all.Write([]byte(l[i+4:]))
	}
	return "h1:" + base64.StdEncoding.EncodeToString(all.Sum(nil)) + "\n" + strings.Join(lines[1:], "")
}

func applySumEdit(sum string, e Edit) (string, bool) {
	if e.Rehash {
		e.Rehash = false
		s, ok := applySumEdit(sum, e)
		if !ok {
			return "", false
		}
		return rehash(s), true
	}
	lines := strings.SplitAfter(sum, "\n")
	if lines[len(lines)-1] == "" {
		lines = lines[:len(lines)-1]
	}
	switch e.Kind {
	case "sum-flip": // change one character of a hash or of a name (never whitespace or the "h1:" markers)
		b := []byte(sum)
		if e.Off >= len(b) {
			return "", false
		}
		c := b[e.Off]
		if c == '\n' || c == ' ' {
			return "", false
		}
		// keep "h1:" markers intact: they are syntax, not content
		for _, m := range reH1.FindAllStringIndex(sum, -1) {
			if e.Off >= m[0] && e.Off < m[1] {
				return "", false
			}
		}
		n := byte('A')
		if c == 'A' {
			n = 'B'
		}
		b[e.Off] = n
		return string(b), true
	case "sum-shift", "sum-join":
		// edits that keep the concatenation of names and hashes: the first character of a hash moves to the end of
		// the file name in front of it / two entry lines become one (File = line index >= 1)
		if e.File < 1 || e.File >= len(lines) {
			return "", false
		}
		l := lines[e.File]
		i := strings.LastIndex(l, " h1:")
		if i <= 0 || i+5 >= len(l) {
			return "", false
		}
		if e.Kind == "sum-shift" {
			lines[e.File] = l[:i] + l[i+4:i+5] + " h1:" + l[i+5:]
			return strings.Join(lines, ""), true
		}
		if e.File+1 >= len(lines) {
			return "", false
		}
		lines[e.File] = strings.TrimSuffix(l, "\n") + lines[e.File+1]
		return strings.Join(append(lines[:e.File+1], lines[e.File+2:]...), ""), true
	case "sum-del-line":
		if e.File < 1 || e.File >= len(lines) {
			return "", false
		}
		return strings.Join(append(append([]string{}, lines[:e.File]...), lines[e.File+1:]...), ""), true
	case "sum-dup-line":
		if e.File < 1 || e.File >= len(lines) {
			return "", false
		}
		return strings.Join(append(append(append([]string{}, lines[:e.File+1]...), lines[e.File]), lines[e.File+1:]...), ""), true
	case "sum-swap-lines":
		if e.File < 1 || e.Peer < 1 || e.File >= len(lines) || e.Peer >= len(lines) || lines[e.File] == lines[e.Peer] {
			return "", false
		}
		l := append([]string{}, lines...)
		l[e.File], l[e.Peer] = l[e.Peer], l[e.File]
		return strings.Join(l, ""), true
	case "sum-truncate":
		if e.Off >= len(sum) || len(lines) < 2 {
			return "", false
		}
		// cut inside the content part (not only the final newline)
		if e.Off == len(sum)-1 {
			return "", false
		}
		return sum[:e.Off], true
	}
	return "", false
}

var reH1 = regexp.MustCompile(`h1:`)

type realDir struct {
	dir   migrate.Dir
	path  string // LocalDir only
	local bool
}

func newDir(local bool) (*realDir, error) {
	if !local {
		return &realDir{dir: &migrate.MemDir{}}, nil
	}
	base := os.Getenv("VERIF_SCRATCH")
	if base == "" {
		base = os.TempDir()
	}
	p, err := os.MkdirTemp(base, "c06")
	if err != nil {
		return nil, err
	}
	d, err := migrate.NewLocalDir(p)
	if err != nil {
		return nil, err
	}
	return &realDir{dir: d, path: p, local: true}, nil
}

func (r *realDir) close() {
	if r.local {
		os.RemoveAll(r.path)
	}
}

// sync makes the real directory hold exactly files (+ the sum text, if any).
func (r *realDir) sync(files []File, sum *string) error {
	if r.local {
		ents, _ := os.ReadDir(r.path)
		for _, e := range ents {
			os.Remove(filepath.Join(r.path, e.Name()))
		}
	} else {
		r.dir.(*migrate.MemDir).Reset()
	}
	for _, f := range files {
		if err := r.dir.WriteFile(f.Name, f.Data); err != nil {
			return err
		}
	}
	if sum != nil {
		return r.dir.WriteFile(migrate.HashFileName, []byte(*sum))
	}
	return nil
}

// Outcome for classification.
type Outcome struct {
	MustFail bool
	Hostile  string
	Skipped  string
}

func isChecksumErr(err error) bool {
	return errors.Is(err, migrate.ErrChecksumMismatch) || errors.Is(err, migrate.ErrChecksumFormat) || errors.Is(err, migrate.ErrChecksumNotFound)
}

func checkCase(c Case) (Outcome, error) {
	var out Outcome
	for _, f := range c.Files {
		if h := hostileName(f.Name); h != "" {
			out.Hostile = h
		}
	}
	r, err := newDir(c.Local)
	if err != nil {
		return out, fmt.Errorf("harness: %v", err)
	}
	defer r.close()
	if err := r.sync(c.Files, nil); err != nil {
		out.Skipped = "filesystem refused a name"
		return out, nil
	}
	// 1. the writer: WriteSumFile(dir, dir.Checksum()) must produce the documented format ...
	hf, err := r.dir.Checksum()
	if err != nil {
		return out, fmt.Errorf("Checksum: %v", err)
	}
	if err := migrate.WriteSumFile(r.dir, hf); err != nil {
		return out, fmt.Errorf("WriteSumFile: %v", err)
	}
	f, err := r.dir.Open(migrate.HashFileName)
	if err != nil {
		return out, fmt.Errorf("open atlas.sum: %v", err)
	}
	var buf bytes.Buffer
	buf.ReadFrom(f)
	f.Close()
	sum := buf.String()
	if want := modelSum(c.Files); sum != want {
		return out, fmt.Errorf("atlas.sum differs from the documented format\n got:\n%s\n want:\n%s", sum, want)
	}
	// 2. ... and the untouched directory validates
	if err := migrate.Validate(r.dir); err != nil {
		return out, fmt.Errorf("untouched directory does not validate: %v (files %s)", err, names(c.Files))
	}
	// 3. edits
	files := c.Files
	sumText := sum
	sumEdited, sumRemoved := false, false
	for _, e := range c.Edits {
		switch {
		case e.Kind == "sum-remove":
			sumRemoved = true
		case strings.HasPrefix(e.Kind, "sum-"):
			s, ok := applySumEdit(sumText, e)
			if !ok {
				out.Skipped = "inapplicable sum edit"
				return out, nil
			}
			sumText, sumEdited = s, true
		default:
			fs, err := applyDirEdit(files, e)
			if err != nil {
				out.Skipped = "inapplicable dir edit"
				return out, nil
			}
			files = fs
		}
	}
	for _, f := range files {
		if h := hostileName(f.Name); h != "" {
			out.Hostile = h
		}
	}
	var sp *string
	if !sumRemoved {
		sp = &sumText
	}
	if err := r.sync(files, sp); err != nil {
		out.Skipped = "filesystem refused a name"
		return out, nil
	}
	switch {
	case sumRemoved:
		out.MustFail = len(sqlFiles(files)) > 0
	case sumEdited:
		out.MustFail = true
	default:
		out.MustFail = !reflect.DeepEqual(protected(files), protected(c.Files))
	}
	err = func() (err error) {
		defer func() {
			if p := recover(); p != nil {
				err = fmt.Errorf("PANIC in migrate.Validate: %v", p)
			}
		}()
		return migrate.Validate(r.dir)
	}()
	switch {
	case err != nil && strings.HasPrefix(err.Error(), "PANIC"):
		return out, fmt.Errorf("%v after %s\n files: %s", err, edits(c.Edits), describe(files))
	case out.MustFail && err == nil:
		return out, fmt.Errorf("tampering not detected: Validate returned nil after %s\n files before: %s\n files after:  %s", edits(c.Edits), describe(c.Files), describe(files))
	case out.MustFail && !isChecksumErr(err):
		return out, fmt.Errorf("tampering reported with a non-checksum error %T %v after %s", err, err, edits(c.Edits))
	case !out.MustFail && err != nil:
		return out, fmt.Errorf("protected content unchanged but Validate fails: %v after %s\n files before: %s\n files after:  %s", err, edits(c.Edits), describe(c.Files), describe(files))
	}
	return out, nil
}

func names(fs []File) string {
	var n []string
	for _, f := range fs {
		n = append(n, fmt.Sprintf("%q", f.Name))
	}
	return strings.Join(n, ",")
}

func describe(fs []File) string {
	var n []string
	for _, f := range sqlFiles(fs) {
		n = append(n, fmt.Sprintf("%q=%q", f.Name, f.Data))
	}
	return strings.Join(n, " ")
}

func edits(es []Edit) string {
	var n []string
	for _, e := range es {
		n = append(n, fmt.Sprintf("%s(file=%d off=%d byte=%q name=%q)", e.Kind, e.File, e.Off, e.Byte, e.Name))
	}
	return strings.Join(n, "+")
}
