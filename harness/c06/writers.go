package c06

import (
	"context"
	"fmt"
	"os"
	"path/filepath"
	"strings"

	"ariga.io/atlas/sql/migrate"

	"verif/cli"
	"verif/fake"
)

// WOp is one step of a history of directory writers and tamperings.
type WOp struct {
	Kind    string   `json:"kind"` // writeplan | checkpoint | copyfiles | new | hash | diff | import | tamper
	Version string   `json:"version,omitempty"`
	Name    string   `json:"name,omitempty"`
	Stmts   []string `json:"stmts,omitempty"`
	Tag     string   `json:"tag,omitempty"`
	File    int      `json:"file,omitempty"`
	Off     int      `json:"off,omitempty"`
	Tamper  string   `json:"tamper,omitempty"` // flip | append | remove | add
}

type WCase struct {
	Ops []WOp `json:"ops"`
	API bool  `json:"api,omitempty"` // library calls only (no CLI process): hash = Checksum + WriteSumFile, validation = migrate.Validate
}

type WOutcome struct {
	Classes []string
	Keys    []string
}

func checkWriters(c WCase) (WOutcome, error) {
	var out WOutcome
	sb, err := cli.NewSandbox()
	if err != nil {
		return out, fmt.Errorf("harness: %v", err)
	}
	defer sb.Close()
	mdir := sb.Path("m")
	os.MkdirAll(mdir, 0o755)
	dir, err := migrate.NewLocalDir(mdir)
	if err != nil {
		return out, fmt.Errorf("harness: %v", err)
	}
	valid := true // the model: is the directory in sync with its sum file?
	tables := 0
	sqlNames := func() []string {
		m, _ := filepath.Glob(filepath.Join(mdir, "*.sql"))
		return m
	}
	// refValid decides, with the harness' own implementation of the sum format, whether the files on disk match the sum file on disk
	refValid := func() bool {
		var fs []File
		for _, n := range sqlNames() {
			b, _ := os.ReadFile(n)
			fs = append(fs, File{Name: filepath.Base(n), Data: b})
		}
		sum, err := os.ReadFile(filepath.Join(mdir, "atlas.sum"))
		if os.IsNotExist(err) {
			return len(fs) == 0 // documented: no sum file and no migration files yet is fine
		}
		return err == nil && string(sum) == modelSum(fs)
	}
	for step, op := range c.Ops {
		switch op.Kind {
		case "writeplan", "checkpoint":
			if !valid {
				continue // writers re-hash whatever is there: covered by "hash"; keep the model simple
			}
			plan := &migrate.Plan{Version: op.Version, Name: op.Name}
			for _, s := range op.Stmts {
				plan.Changes = append(plan.Changes, &migrate.Change{Cmd: s, Comment: "c"})
			}
			p := migrate.NewPlanner(nil, dir)
			if op.Kind == "checkpoint" {
				err = p.WriteCheckpoint(plan, op.Tag)
			} else {
				err = p.WritePlan(plan)
			}
			if err != nil {
				return out, fmt.Errorf("step %d %s: %v", step, op.Kind, err)
			}
		case "copyfiles":
			if !valid {
				continue
			}
			files, err := dir.Files()
			if err != nil {
				return out, fmt.Errorf("harness: %v", err)
			}
			if op.File < len(files) {
				files = files[:op.File+1]
			}
			mem := &migrate.MemDir{}
			how := "into an empty directory"
			switch op.Off % 3 {
			case 1: // the target already holds a (hashed) file
				how = "into a directory that holds another file"
				if err := mem.WriteFile("0_pre.sql", []byte("select 0;\n")); err != nil {
					return out, fmt.Errorf("harness: %v", err)
				}
				if sum, err := mem.Checksum(); err != nil {
					return out, fmt.Errorf("harness: %v", err)
				} else if err := migrate.WriteSumFile(mem, sum); err != nil {
					return out, fmt.Errorf("harness: %v", err)
				}
			case 2: // the files are handed over in another order than the directory lists them
				how = "handed over in reverse order"
				for i, j := 0, len(files)-1; i < j; i, j = i+1, j-1 {
					files[i], files[j] = files[j], files[i]
				}
			}
			out.Classes = append(out.Classes, "writer/copyfiles/"+strings.ReplaceAll(how, " ", "-"))
			if err := mem.CopyFiles(files); err != nil {
				return out, fmt.Errorf("step %d CopyFiles: %v", step, err)
			}
			if err := migrate.Validate(mem); err != nil {
				return out, fmt.Errorf("step %d: MemDir after CopyFiles(%d files, %s) does not validate: %v", step, len(files), how, err)
			}
		case "new":
			r := sb.Run("migrate", "new", op.Name, "--dir", "file://m")
			if !valid {
				// `migrate new` validates first and must refuse a tampered directory
				if r.Code == 0 {
					return out, fmt.Errorf("step %d: `migrate new` accepted a tampered directory: %v", step, r)
				}
				out.Classes = append(out.Classes, "writers/refused-when-tampered")
				break
			}
			if r.Code != 0 {
				return out, fmt.Errorf("step %d: migrate new failed on a valid directory: %v", step, r)
			}
		case "hash":
			if c.API {
				// what `migrate hash` does
				sum, err := dir.Checksum()
				if err != nil {
					return out, fmt.Errorf("step %d: Checksum: %v", step, err)
				}
				if err := migrate.WriteSumFile(dir, sum); err != nil {
					return out, fmt.Errorf("step %d: WriteSumFile: %v", step, err)
				}
			} else if r := sb.Run("migrate", "hash", "--dir", "file://m"); r.Code != 0 {
				return out, fmt.Errorf("step %d: migrate hash failed: %v", step, r)
			}
			valid = true
		case "rewrite":
			// an Atlas writer replaces an existing file by a shorter one (LocalDir.WriteFile), then the directory is re-hashed
			names := sqlNames()
			if len(names) == 0 {
				continue
			}
			f := filepath.Base(names[op.File%len(names)])
			body := fmt.Sprintf("-- r%d\n", step)
			if err := dir.WriteFile(f, []byte(body)); err != nil {
				return out, fmt.Errorf("step %d: WriteFile: %v", step, err)
			}
			if b, _ := os.ReadFile(filepath.Join(mdir, f)); string(b) != body {
				return out, fmt.Errorf("step %d: LocalDir.WriteFile(%q, %q) left the file with content %q", step, f, body, b)
			}
			valid = refValid()
		case "diff":
			tables++
			schema := ""
			for i := 1; i <= tables; i++ {
				schema += fmt.Sprintf("CREATE TABLE t%d (id integer);\n", i)
			}
			sb.WriteFile("schema.sql", schema)
			r := sb.Run("migrate", "diff", op.Name, "--dir", "file://m", "--dev-url", "sqlite://dev?mode=memory", "--to", "file://schema.sql")
			if !valid {
				tables--
				if r.Code == 0 {
					return out, fmt.Errorf("step %d: `migrate diff` accepted a tampered directory: %v", step, r)
				}
				out.Classes = append(out.Classes, "writers/refused-when-tampered")
				break
			}
			if r.Code != 0 {
				// a directory holding arbitrary WritePlan statements may not replay; not this property's concern
				tables--
				out.Classes = append(out.Classes, "writers/diff-replay-failed")
				break
			}
		case "import":
			// import the current directory's statements from a golang-migrate layout into a fresh atlas directory
			src := sb.Path("src")
			dst := sb.Path("dst")
			os.RemoveAll(src)
			os.RemoveAll(dst)
			os.MkdirAll(src, 0o755)
			format := []string{"golang-migrate", "flyway", "goose", "dbmate"}[op.File%4]
			for i, s := range op.Stmts {
				switch format {
				case "golang-migrate":
					os.WriteFile(filepath.Join(src, fmt.Sprintf("%d_f.up.sql", i+1)), []byte(s+";\n"), 0o644)
					os.WriteFile(filepath.Join(src, fmt.Sprintf("%d_f.down.sql", i+1)), []byte("-- down\n"), 0o644)
				case "flyway":
					// versions whose numeric order differs from the byte order of the generated names (1, 2, 10), plus a repeatable
					v := []int{1, 2, 10, 11}[i%4]
					os.WriteFile(filepath.Join(src, fmt.Sprintf("V%d__f%d.sql", v, i)), []byte(s+";\n"), 0o644)
					if i == 1 {
						os.WriteFile(filepath.Join(src, "R__rep.sql"), []byte("SELECT 1;\n"), 0o644)
					}
				case "goose":
					os.WriteFile(filepath.Join(src, fmt.Sprintf("%d_f.sql", []int{1, 2, 10, 11}[i%4])), []byte("-- +goose Up\n"+s+";\n-- +goose Down\nSELECT 1;\n"), 0o644)
				case "dbmate":
					os.WriteFile(filepath.Join(src, fmt.Sprintf("%d_f.sql", []int{1, 2, 10, 11}[i%4])), []byte("-- migrate:up\n"+s+";\n-- migrate:down\nSELECT 1;\n"), 0o644)
				}
			}
			r := sb.Run("migrate", "import", "--from", "file://src?format="+format, "--to", "file://dst")
			if r.Code != 0 {
				return out, fmt.Errorf("step %d: migrate import failed: %v", step, r)
			}
			if len(op.Stmts) > 0 {
				d2, err := migrate.NewLocalDir(dst)
				if err != nil {
					return out, fmt.Errorf("step %d: import target missing: %v", step, err)
				}
				if err := migrate.Validate(d2); err != nil {
					return out, fmt.Errorf("step %d: directory imported from a %s source does not validate: %v", step, format, err)
				}
				out.Classes = append(out.Classes, "writers/import/"+format)
			}
		case "tamper":
			names := sqlNames()
			switch op.Tamper {
			case "add":
				os.WriteFile(filepath.Join(mdir, "0_sneaky.sql"), []byte("DROP TABLE x;\n"), 0o644)
				valid = refValid()
			default:
				if len(names) == 0 {
					continue
				}
				f := names[op.File%len(names)]
				b, _ := os.ReadFile(f)
				switch {
				case op.Tamper == "remove":
					os.Remove(f)
				case op.Tamper == "truncate":
					os.WriteFile(f, b[:len(b)/2], 0o644)
				case op.Tamper == "rename-shorter":
					os.Rename(f, filepath.Join(mdir, fmt.Sprintf("%d.sql", 900+op.Off)))
				case op.Tamper == "flip" && len(b) > 0:
					b[op.Off%len(b)] ^= 0x20
					os.WriteFile(f, b, 0o644)
				default:
					os.WriteFile(f, append(b, "-- x\n"...), 0o644)
				}
				// a tampering may be a no-op (truncating an empty file) or touch only what the sum file does not protect
				valid = refValid()
			}
			if b, err := os.ReadFile(filepath.Join(mdir, "0_sneaky.sql")); op.Tamper == "add" && (err != nil || len(b) == 0) {
				return out, fmt.Errorf("harness: tamper add")
			}
		default:
			return out, fmt.Errorf("harness: op %q", op.Kind)
		}
		out.Classes = append(out.Classes, "writers/op/"+op.Kind)
		// invariant after every step: API and CLI agree with the model
		err := migrate.Validate(dir)
		if valid && err != nil {
			return out, fmt.Errorf("step %d (%s): directory should be valid but Validate says %v", step, op.Kind, err)
		}
		if !valid && !isChecksumErr(err) {
			return out, fmt.Errorf("step %d (%s): directory was tampered with but Validate says %v", step, op.Kind, err)
		}
		if c.API {
			// a tampered directory is refused by the executor whatever the target: ExecuteTo(v) for every version of the
			// directory (a target in front of a checkpoint file takes another path) executes nothing
			if _, serr := os.Stat(filepath.Join(mdir, "atlas.sum")); !valid && serr == nil {
				fs, _ := dir.Files()
				for _, f := range fs {
					drv := &fake.Driver{}
					ex, err := migrate.NewExecutor(drv, dir, fake.NewRevs())
					if err != nil {
						return out, fmt.Errorf("harness: %v", err)
					}
					err = ex.ExecuteTo(context.Background(), f.Version())
					if len(drv.Log) > 0 || err == nil {
						return out, fmt.Errorf("step %d (%s): the directory was tampered with, but Executor.ExecuteTo(%q) returned %v and executed %d statements", step, op.Kind, f.Version(), err, len(drv.Log))
					}
					out.Keys = append(out.Keys, "api/tampered-executeto")
				}
			}
			if valid {
				out.Keys = append(out.Keys, "api/valid-after-"+op.Kind)
			} else {
				out.Keys = append(out.Keys, fmt.Sprintf("api/tampered-after-%s-%s", op.Kind, op.Tamper))
			}
			continue
		}
		r := sb.Run("migrate", "validate", "--dir", "file://m")
		if valid != (r.Code == 0) {
			return out, fmt.Errorf("step %d (%s): `migrate validate` exit %d, model valid=%v: %v", step, op.Kind, r.Code, valid, r)
		}
		if !valid {
			a := sb.Run("migrate", "apply", "--dir", "file://m", "--url", "sqlite://"+sb.Path("target.db"), "--dry-run")
			if a.Code == 0 {
				return out, fmt.Errorf("step %d: `migrate apply` accepted a tampered directory: %v", step, a)
			}
			// every other command that reads the directory refuses it too, however the directory is spelled
			abs := "file://" + filepath.ToSlash(mdir)
			readers := [][]string{
				{"migrate", "status", "--dir", "file://m", "--url", "sqlite://" + sb.Path("target.db")},
				{"migrate", "lint", "--dir", "file://m", "--dev-url", "sqlite://dev?mode=memory", "--latest", "1"},
				{"migrate", "diff", "x", "--dir", "file://m", "--dev-url", "sqlite://dev?mode=memory", "--to", "file://schema.sql"},
				{"schema", "diff", "--from", "sqlite://" + sb.Path("empty.db"), "--to", "file://m", "--dev-url", "sqlite://dev?mode=memory"},
				{"schema", "diff", "--from", "sqlite://" + sb.Path("empty.db"), "--to", abs, "--dev-url", "sqlite://dev?mode=memory"},
				{"schema", "diff", "--from", "file://./m", "--to", "sqlite://" + sb.Path("empty.db"), "--dev-url", "sqlite://dev?mode=memory"},
				{"schema", "apply", "--url", "sqlite://" + sb.Path("empty.db"), "--to", "file://m", "--dev-url", "sqlite://dev?mode=memory", "--dry-run"},
				{"schema", "inspect", "--url", "file://m", "--dev-url", "sqlite://dev?mode=memory"},
				{"migrate", "validate", "--dir", abs},
				{"migrate", "apply", "--dir", "file://./m", "--url", "sqlite://" + sb.Path("target.db"), "--dry-run"},
			}
			args := readers[(step+len(c.Ops))%len(readers)]
			if _, err := os.Stat(sb.Path("schema.sql")); err != nil {
				os.WriteFile(sb.Path("schema.sql"), []byte("CREATE TABLE t (id int);\n"), 0o644)
			}
			if _, err := os.Stat(filepath.Join(mdir, "atlas.sum")); err != nil {
				// without a sum file a directory given as a schema is a plain directory of SQL files, not a migration directory
				out.Keys = append(out.Keys, fmt.Sprintf("tampered-after-%s-%s", op.Kind, op.Tamper))
				continue
			}
			// a directory left without .sql files is refused as "neither SQL nor HCL" before it is read as a migration directory
			sqls, _ := filepath.Glob(filepath.Join(mdir, "*.sql"))
			if rr := sb.Run(args...); rr.Code == 0 || len(sqls) > 0 && !strings.Contains(rr.Stdout+rr.Stderr, "checksum") {
				return out, fmt.Errorf("step %d: `%s` does not refuse a tampered directory with a checksum error: %v", step, strings.Join(args[:2], " "), rr)
			}
			out.Classes = append(out.Classes, "writers/tampered-dir-read-by/"+strings.Join(args[:2], " "))
			out.Keys = append(out.Keys, fmt.Sprintf("tampered-after-%s-%s", op.Kind, op.Tamper))
		} else {
			out.Keys = append(out.Keys, "valid-after-"+op.Kind)
		}
	}
	_ = strings.Join
	return out, nil
}
