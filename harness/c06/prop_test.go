package c06

import (
	"fmt"
	"strings"
	"testing"

	"pgregory.net/rapid"

	"verif/ev"
)

// known findings are keyed by the offending file-name class; any other failure is a violation.
var known = ev.Matcher[Case]{
	"name-with-outer-space": func(c Case, err error) bool { return hostileIn(c, "name-with-outer-space") && nameRelated(err) },
	"name-with-newline":     func(c Case, err error) bool { return hostileIn(c, "name-with-newline") && nameRelated(err) },
}

func nameRelated(err error) bool {
	m := err.Error()
	return strings.Contains(m, "untouched directory does not validate") || strings.Contains(m, "protected content unchanged but Validate fails") ||
		strings.Contains(m, "atlas.sum differs from the documented format")
}

func hostileIn(c Case, class string) bool {
	names := []string{}
	for _, f := range c.Files {
		names = append(names, f.Name)
	}
	for _, e := range c.Edits {
		names = append(names, e.Name)
	}
	for _, n := range names {
		if hostileName(n) == class {
			return true
		}
	}
	return false
}

const rule = "directories of 0..5 files (names from a pool incl. surprising sort orders, non-.sql bystanders and, as separate classes, names the sum format cannot represent), " +
	"contents = small byte strings (empty, no trailing newline, CRLF, first-line `atlas:sum ignore` / `atlas:checkpoint` directives, near-miss directives); " +
	"sum written with WriteSumFile(dir, dir.Checksum()) and compared byte-for-byte with an independent implementation of the documented format; " +
	"edits: add at any sort position, remove, rename, swap contents, flip/insert/delete one byte at any offset, atlas.sum edits (change a hash/name character, delete/duplicate/swap lines, truncate, remove the file, move a character from a hash to the name in front of it, join two lines); " +
	"exhaustive slice = every file x every byte offset x {flip, insert, delete} and every remove/rename/add/sum edit on fixed small directories; random = 1..3 stacked directory edits. " +
	"Oracle: Validate fails with a checksum error iff the reference model's protected sequence changed (both directions), on MemDir and LocalDir. " +
	"Stateful part: Planner.WritePlan / WriteCheckpoint / MemDir.CopyFiles and the CLI (migrate new/hash/diff/import) leave the directory valid; tampering flips `migrate validate`/`migrate apply` until the next `migrate hash`. " +
	"non-trivial = the edit changes the protected sequence; distinct key = (edit kinds, file index, offset class, dir kind)"

var contents = []string{
	"", "x", "select 1;", "select 1;\n", "a;\r\nb;\r\n", "-- atlas:sum ignore\n", "-- atlas:sum ignore\nselect 1;\n", "-- atlas:checkpoint\n\nselect 1;\n",
	"-- atlas:sum ignored\nx", "--atlas:sum ignore\nx", "-- atlas:sum  ignore\nx", "# atlas:sum ignore\nx", "\n-- atlas:sum ignore\n", "\x00\xff", "1.sql", "h1:",
}

var namePool = []string{"1.sql", "2.sql", "3.sql", "10.sql", "1_a.sql", "1_b.sql", "2_a.sql", "001.sql", "a.sql", "_.sql", "A.sql", "1.sql.sql", "9_z.sql", "20240101_x.sql", "~.sql", "!.sql"}
var bystanders = []string{"README.md", "1.SQL", "x.txt", "1.sql.bak", "sql"}
var hostileNames = []string{" 1.sql", "1_h1:x.sql", "1\n2.sql", "\t.sql"}

func mkFile(n, d string) File { return File{Name: n, Data: []byte(d), Text: fmt.Sprintf("%q", d)} }

func genFiles(t *rapid.T, hostile bool) []File {
	n := rapid.IntRange(0, 5).Draw(t, "nfiles")
	seen := map[string]bool{}
	var fs []File
	for i := 0; i < n; i++ {
		pool := namePool
		if k := rapid.IntRange(0, 9).Draw(t, "npool"); k == 0 {
			pool = bystanders
		} else if hostile && k == 1 {
			pool = hostileNames
		}
		name := rapid.SampledFrom(pool).Draw(t, "name")
		if seen[name] {
			continue
		}
		seen[name] = true
		var data string
		if rapid.IntRange(0, 3).Draw(t, "ckind") == 0 {
			data = string(rapid.SliceOfN(rapid.Byte(), 0, 12).Draw(t, "bytes"))
		} else {
			data = rapid.SampledFrom(contents).Draw(t, "content")
		}
		fs = append(fs, mkFile(name, data))
	}
	return fs
}

func genDirEdit(t *rapid.T, files []File) Edit {
	kinds := []string{"add"}
	if len(files) > 0 {
		kinds = append(kinds, "remove", "rename", "flip", "insert", "delete", "flip", "insert")
	}
	if len(files) > 1 {
		kinds = append(kinds, "swap")
	}
	e := Edit{Kind: rapid.SampledFrom(kinds).Draw(t, "ekind")}
	if len(files) > 0 {
		e.File = rapid.IntRange(0, len(files)-1).Draw(t, "efile")
		e.Peer = rapid.IntRange(0, len(files)-1).Draw(t, "epeer")
		if n := len(files[e.File].Data); n > 0 {
			e.Off = rapid.IntRange(0, n).Draw(t, "eoff")
		}
	}
	e.Byte = rapid.SampledFrom([]byte{'x', ' ', '\n', ';', 'i', '-', 0}).Draw(t, "ebyte")
	e.Name = rapid.SampledFrom(append(append([]string{}, namePool...), bystanders...)).Draw(t, "ename")
	e.Data = []byte(rapid.SampledFrom(contents).Draw(t, "edata"))
	return e
}

func genCase(t *rapid.T) Case {
	c := Case{Files: genFiles(t, rapid.IntRange(0, 9).Draw(t, "hostile") == 0), Local: rapid.IntRange(0, 3).Draw(t, "local") == 0}
	cur := c.Files
	for k := rapid.IntRange(0, 3).Draw(t, "nedits"); k > 0; k-- {
		e := genDirEdit(t, cur)
		next, err := applyDirEdit(cur, e)
		if err != nil {
			continue
		}
		cur = next
		c.Edits = append(c.Edits, e)
	}
	return c
}

func genSumCase(t *rapid.T) Case {
	c := Case{Files: genFiles(t, false), Local: rapid.IntRange(0, 3).Draw(t, "local") == 0}
	sum := modelSum(c.Files)
	nl := strings.Count(sum, "\n")
	e := Edit{Kind: rapid.SampledFrom([]string{"sum-flip", "sum-flip", "sum-del-line", "sum-dup-line", "sum-swap-lines", "sum-truncate", "sum-remove", "sum-shift", "sum-join"}).Draw(t, "skind")}
	e.Off = rapid.IntRange(0, len(sum)-1).Draw(t, "soff")
	e.File = rapid.IntRange(0, nl).Draw(t, "sline")
	e.Peer = rapid.IntRange(0, nl).Draw(t, "speer")
	e.Rehash = (e.Kind == "sum-del-line" || e.Kind == "sum-dup-line" || e.Kind == "sum-swap-lines") && rapid.Bool().Draw(t, "rehash")
	c.Edits = []Edit{e}
	return c
}

// exhaustive enumerates the complete single-edit neighbourhood of a fixed directory.
func exhaustive(files []File, local bool, f func(Case) bool) {
	for i, fl := range files {
		for off := 0; off <= len(fl.Data); off++ {
			for _, b := range []byte{'x', '\n', ' '} {
				if off < len(fl.Data) {
					if !f(Case{Files: files, Local: local, Edits: []Edit{{Kind: "flip", File: i, Off: off, Byte: b}}}) {
						return
					}
				}
				if !f(Case{Files: files, Local: local, Edits: []Edit{{Kind: "insert", File: i, Off: off, Byte: b}}}) {
					return
				}
			}
			if off < len(fl.Data) {
				if !f(Case{Files: files, Local: local, Edits: []Edit{{Kind: "delete", File: i, Off: off}}}) {
					return
				}
			}
		}
		if !f(Case{Files: files, Local: local, Edits: []Edit{{Kind: "remove", File: i}}}) {
			return
		}
		for _, n := range append(append([]string{}, namePool...), bystanders...) {
			if !f(Case{Files: files, Local: local, Edits: []Edit{{Kind: "rename", File: i, Name: n}}}) {
				return
			}
		}
		for j := range files {
			if j > i {
				if !f(Case{Files: files, Local: local, Edits: []Edit{{Kind: "swap", File: i, Peer: j}}}) {
					return
				}
			}
		}
	}
	for _, n := range append(append([]string{}, namePool...), bystanders...) {
		for _, d := range []string{"", "select 2;\n", "-- atlas:sum ignore\nx"} {
			if !f(Case{Files: files, Local: local, Edits: []Edit{{Kind: "add", Name: n, Data: []byte(d)}}}) {
				return
			}
		}
	}
	sum := modelSum(files)
	nl := strings.Count(sum, "\n")
	for off := 0; off < len(sum); off++ {
		if !f(Case{Files: files, Local: local, Edits: []Edit{{Kind: "sum-flip", Off: off}}}) || !f(Case{Files: files, Local: local, Edits: []Edit{{Kind: "sum-truncate", Off: off}}}) {
			return
		}
	}
	for l := 1; l <= nl; l++ {
		if !f(Case{Files: files, Local: local, Edits: []Edit{{Kind: "sum-del-line", File: l, Rehash: true}}}) || !f(Case{Files: files, Local: local, Edits: []Edit{{Kind: "sum-dup-line", File: l, Rehash: true}}}) {
			return
		}
		if !f(Case{Files: files, Local: local, Edits: []Edit{{Kind: "sum-shift", File: l}}}) || !f(Case{Files: files, Local: local, Edits: []Edit{{Kind: "sum-join", File: l}}}) {
			return
		}
		if !f(Case{Files: files, Local: local, Edits: []Edit{{Kind: "sum-del-line", File: l}}}) || !f(Case{Files: files, Local: local, Edits: []Edit{{Kind: "sum-dup-line", File: l}}}) {
			return
		}
		for m := l + 1; m <= nl; m++ {
			if !f(Case{Files: files, Local: local, Edits: []Edit{{Kind: "sum-swap-lines", File: l, Peer: m}}}) {
				return
			}
		}
	}
	f(Case{Files: files, Local: local, Edits: []Edit{{Kind: "sum-remove"}}})
}

var fixedDirs = [][]File{
	{mkFile("1.sql", "select 1;\n")},
	{mkFile("1.sql", "a;\n"), mkFile("2.sql", "b;")},
	{mkFile("1_a.sql", "a;\n"), mkFile("2_b.sql", "-- atlas:sum ignore\nb;\n"), mkFile("3_c.sql", "c;\n")},
	{mkFile("1_a.sql", "a;\n"), mkFile("2_b.sql", "b;\n"), mkFile("3_c.sql", "-- atlas:sum ignore\n")},
	{mkFile("1.sql", "-- atlas:checkpoint\n\nx;\n"), mkFile("10.sql", ""), mkFile("2.sql", "2.sql")},
	{mkFile("1.sql", "x"), mkFile("README.md", "doc"), mkFile("1.sql.bak", "y")},
	{mkFile("1.sql", "-- atlas:sum ignore\n"), mkFile("2.sql", "-- atlas:sum ignore\n")},
	{},
}

func offClass(e Edit, files []File) string {
	if e.File < len(files) {
		n := len(files[e.File].Data)
		switch {
		case e.Off == 0:
			return "first"
		case e.Off >= n-1:
			return "last"
		}
	}
	return "mid"
}

func mkCheck(col *ev.Collector) func(Case) error {
	return func(c Case) error {
		out, err := checkCase(c)
		var kinds []string
		for _, e := range c.Edits {
			kinds = append(kinds, e.Kind)
		}
		k := strings.Join(kinds, "+")
		if k == "" {
			k = "untouched"
		}
		if len(kinds) > 1 {
			k = fmt.Sprintf("compound-%d", len(kinds))
		}
		dk := "mem"
		if c.Local {
			dk = "local"
		}
		switch {
		case out.Skipped != "":
			col.Reject(out.Skipped)
			return err
		case out.Hostile != "":
			col.Class("hostile/" + out.Hostile)
		case out.MustFail:
			col.Class(dk + "/must-fail/" + k)
		default:
			col.Class(dk + "/must-pass/" + k)
		}
		if out.MustFail && len(c.Edits) > 0 {
			e := c.Edits[0]
			col.NonTrivial(fmt.Sprintf("%s|%d|%s|%s|%d", k, e.File, offClass(e, c.Files), dk, len(c.Files)))
		}
		col.Sample(dk+"/"+k, c)
		return err
	}
}

func TestCheck(t *testing.T) {
	col := ev.New("C06", "exploration", rule)
	defer col.Finish()
	check := mkCheck(col)
	i := 0
	ok := true
	dirs := fixedDirs
	if col.Thorough() {
		// thorough: every pair of pool contents on two files, plus the fixed ones
		for _, a := range contents {
			for _, b := range contents[:8] {
				dirs = append(dirs, []File{mkFile("1_a.sql", a), mkFile("2_b.sql", b)})
			}
		}
	}
	for _, d := range dirs {
		for _, local := range []bool{false, true} {
			exhaustive(d, local, func(c Case) bool {
				i++
				if !col.Mine(i) {
					return true
				}
				ok = ev.Each(col, "exhaustive-neighbourhood", c, check, known)
				return ok
			})
			if !ok {
				return
			}
		}
	}
	col.Exhaustive = true
	col.ExhScope = fmt.Sprintf("complete single-edit neighbourhood (every byte offset x flip/insert/delete, remove, rename to every pool name, add of every pool name, swap, every atlas.sum edit) of %d fixed directories on MemDir and LocalDir", len(dirs))
	if !ev.Rapid(t, col, "random-dir-edits", col.N(6000, 400000), genCase, check, known) {
		return
	}
	if !ev.Rapid(t, col, "random-sum-edits", col.N(2000, 100000), genSumCase, check, known) {
		return
	}
	runWriters(t, col)
}

func TestReplay(t *testing.T) {
	if strings.HasPrefix(ev.ReplaySub(), "diff-in-foreign-layout") {
		ev.ReplayFile(t, "C06", func(_ string, c FCase) error { return checkFormat(c) })
		return
	}
	if strings.HasPrefix(ev.ReplaySub(), "writers") {
		ev.ReplayFile(t, "C06", func(_ string, c WCase) error { _, err := checkWriters(c); return err })
		return
	}
	ev.ReplayFile(t, "C06", func(_ string, c Case) error { _, err := checkCase(c); return err })
}
