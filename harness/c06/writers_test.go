package c06

import (
	"fmt"
	"testing"

	"pgregory.net/rapid"

	"verif/ev"
)

var knownW = ev.Matcher[WCase]{}

var stmtPool = []string{"CREATE TABLE a (id integer)", "INSERT INTO a VALUES (1)", "SELECT ';'", "-- atlas:sum ignore", "CREATE TABLE b (c text DEFAULT 'x;y')"}

func genWCase(t *rapid.T) WCase {
	var c WCase
	n := rapid.IntRange(3, 10).Draw(t, "nops")
	for i := 0; i < n; i++ {
		k := rapid.SampledFrom([]string{"writeplan", "writeplan", "checkpoint", "copyfiles", "new", "hash", "diff", "import", "tamper", "tamper"}).Draw(t, "kind")
		op := WOp{Kind: k,
			Version: rapid.SampledFrom([]string{"", "1", "2", "10", "20240101000000"}).Draw(t, "version"),
			Name:    rapid.SampledFrom([]string{"a", "b", "add_t", "x_y"}).Draw(t, "name"),
			Tag:     rapid.SampledFrom([]string{"", "v1"}).Draw(t, "tag"),
			File:    rapid.IntRange(0, 5).Draw(t, "file"),
			Off:     rapid.IntRange(0, 40).Draw(t, "off"),
			Tamper:  rapid.SampledFrom([]string{"flip", "append", "remove", "add"}).Draw(t, "tamper"),
		}
		for j := rapid.IntRange(0, 3).Draw(t, "nst"); j > 0; j-- {
			op.Stmts = append(op.Stmts, rapid.SampledFrom(stmtPool).Draw(t, "stmt"))
		}
		c.Ops = append(c.Ops, op)
	}
	return c
}

// genWCaseAPI: library-only histories; every tampering (which may shrink the directory: remove, truncate, shorter name,
// an existing file rewritten shorter) is followed by a re-hash half of the time.
func genWCaseAPI(t *rapid.T) WCase {
	c := WCase{API: true}
	n := rapid.IntRange(3, 12).Draw(t, "nops")
	for i := 0; i < n; i++ {
		k := rapid.SampledFrom([]string{"writeplan", "writeplan", "checkpoint", "copyfiles", "hash", "rewrite", "tamper", "tamper"}).Draw(t, "kind")
		if i > 0 && (c.Ops[i-1].Kind == "tamper" || c.Ops[i-1].Kind == "rewrite") && rapid.Bool().Draw(t, "rehash") {
			k = "hash"
		}
		op := WOp{Kind: k,
			Version: rapid.SampledFrom([]string{"", "1", "2", "10", "20240101000000"}).Draw(t, "version"),
			Name:    rapid.SampledFrom([]string{"a", "b", "add_t", "x_y"}).Draw(t, "name"),
			Tag:     rapid.SampledFrom([]string{"", "v1"}).Draw(t, "tag"),
			File:    rapid.IntRange(0, 5).Draw(t, "file"),
			Off:     rapid.IntRange(0, 40).Draw(t, "off"),
			Tamper:  rapid.SampledFrom([]string{"flip", "append", "remove", "add", "truncate", "rename-shorter"}).Draw(t, "tamper"),
		}
		for j := rapid.IntRange(0, 3).Draw(t, "nst"); j > 0; j-- {
			op.Stmts = append(op.Stmts, rapid.SampledFrom(stmtPool).Draw(t, "stmt"))
		}
		c.Ops = append(c.Ops, op)
	}
	return c
}

func runWriters(t *testing.T, col *ev.Collector) {
	check := func(c WCase) error {
		out, err := checkWriters(c)
		for _, cl := range out.Classes {
			col.Class(cl)
		}
		for _, k := range out.Keys {
			col.NonTrivial("writers|" + k)
		}
		col.Sample("writers/history", c)
		return err
	}
	// `migrate import` from every supported source layout x 1-4 files (versions 1, 2, 10, 11: the tool's order differs
	// from the byte order of the generated names; a Flyway repeatable migration): the written directory must validate
	for fi := 0; fi < 4; fi++ {
		for n := 1; n <= 4; n++ {
			c := WCase{Ops: []WOp{{Kind: "import", File: fi, Stmts: append([]string{}, []string{"CREATE TABLE a (id integer)", "CREATE TABLE b (c text DEFAULT 'x;y')", "INSERT INTO a VALUES (1)", "CREATE TABLE c (id integer)"}[:n]...)}}}
			if !ev.Each(col, "writers-import-formats", c, check, knownW) {
				return
			}
		}
	}
	// `migrate diff` on a directory kept in another tool's layout, the layout named by the URL, by the project file, or by
	// --dir-format next to a directory from the project file
	for _, f := range []string{"golang-migrate", "flyway", "goose", "dbmate", "atlas"} {
		for _, route := range []string{"url", "env", "flag-over-env"} {
			for _, fresh := range []bool{false, true} {
				c := FCase{Format: f, Route: route, Fresh: fresh}
				if !ev.Each(col, "diff-in-foreign-layout", c, func(c FCase) error {
					col.Class("writer/diff/layout=" + c.Format + "/named-by=" + c.Route)
					col.NonTrivial(fmt.Sprintf("layout|%s|%s|%v", c.Format, c.Route, c.Fresh))
					return checkFormat(c)
				}, ev.Matcher[FCase]{}) {
					return
				}
			}
		}
	}
	if !ev.Rapid(t, col, "writers-histories-api", col.N(1500, 100000), genWCaseAPI, check, knownW) {
		return
	}
	ev.Rapid(t, col, "writers-histories", col.N(40, 3000), genWCase, check, knownW)
}
