package c11

import (
	"testing"

	"pgregory.net/rapid"

	"verif/ev"
)

var knownCLI = ev.Matcher[CLICase]{}

var pool = []string{"10", "20", "30", "40", "50", "60"}

func genCLI(t *rapid.T) CLICase {
	c := CLICase{Dirty: rapid.IntRange(0, 3).Draw(t, "dirty") == 0}
	n := rapid.IntRange(3, 9).Draw(t, "nops")
	for i := 0; i < n; i++ {
		k := rapid.IntRange(0, 9).Draw(t, "kind")
		if i == 0 {
			k = 0
		}
		switch {
		case k < 4:
			c.Ops = append(c.Ops, Op{Kind: "add", V: rapid.SampledFrom(pool).Draw(t, "v"),
				Ck: rapid.IntRange(0, 4).Draw(t, "ck") == 0, Fail: rapid.IntRange(0, 3).Draw(t, "fail") == 0})
		case k < 8:
			op := Op{Kind: "apply", N: rapid.SampledFrom([]int{0, 0, 1, 2}).Draw(t, "n"), Order: rapid.IntRange(0, 2).Draw(t, "order")}
			if c.Dirty {
				op.Allow = rapid.Bool().Draw(t, "allow")
			}
			if rapid.IntRange(0, 4).Draw(t, "bl") == 0 {
				op.Baseline = rapid.SampledFrom(pool).Draw(t, "baseline")
			}
			c.Ops = append(c.Ops, op)
		case k == 8:
			c.Ops = append(c.Ops, Op{Kind: "fix", V: rapid.SampledFrom(pool).Draw(t, "v")})
		default:
			c.Ops = append(c.Ops, Op{Kind: "set", V: rapid.SampledFrom(pool).Draw(t, "v")})
		}
	}
	return c
}

func runCLI(t *testing.T, col *ev.Collector) {
	check := func(c CLICase) error {
		out, err := checkCLI(c)
		for _, cl := range out.Classes {
			col.Class(cl)
		}
		for _, k := range out.Keys {
			col.NonTrivial("cli|" + k)
		}
		col.Sample("cli/history", c)
		return err
	}
	ev.Rapid(t, col, "cli-histories", col.N(40, 3000), genCLI, check, knownCLI)
}

