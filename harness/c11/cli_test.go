package c11

import (
	"testing"

	"pgregory.net/rapid"

	"verif/ev"
)

var knownCLI = ev.Matcher[CLICase]{}

var pool = []string{"10", "20", "30", "40", "50", "60"}

func genCLI(t *rapid.T) CLICase {
	c := CLICase{Dirty: rapid.IntRange(0, 3).Draw(t, "dirty") == 0}
	n := rapid.IntRange(3, 9).Draw(t, "nops")
	for i := 0; i < n; i++ {
		k := rapid.IntRange(0, 9).Draw(t, "kind")
		if i == 0 {
			k = 0
		}
		switch {
		case k < 4:
			c.Ops = append(c.Ops, Op{Kind: "add", V: rapid.SampledFrom(pool).Draw(t, "v"),
				Ck: rapid.IntRange(0, 4).Draw(t, "ck") == 0, Fail: rapid.IntRange(0, 3).Draw(t, "fail") == 0, Empty: rapid.IntRange(0, 5).Draw(t, "empty") == 0})
		case k < 8:
			op := Op{Kind: "apply", N: rapid.SampledFrom([]int{0, 0, 1, 2}).Draw(t, "n"), Order: rapid.IntRange(0, 2).Draw(t, "order")}
			op.Via = rapid.SampledFrom([]int{0, 0, 1, 2}).Draw(t, "via")
			if c.Dirty {
				op.Allow = rapid.Bool().Draw(t, "allow")
			}
			if rapid.IntRange(0, 4).Draw(t, "bl") == 0 {
				op.Baseline = rapid.SampledFrom(pool).Draw(t, "baseline")
			}
			c.Ops = append(c.Ops, op)
		case k == 8 && rapid.Bool().Draw(t, "crash") && !c.Dirty:
			c.Ops = append(c.Ops, Op{Kind: "crash", N: rapid.IntRange(1, 12).Draw(t, "point")})
			if rapid.Bool().Draw(t, "setafter") {
				c.Ops = append(c.Ops, Op{Kind: "set", V: "@last"})
			}
		case k == 8:
			c.Ops = append(c.Ops, Op{Kind: "fix", V: rapid.SampledFrom(pool).Draw(t, "v")})
		default:
			c.Ops = append(c.Ops, Op{Kind: "set", V: rapid.SampledFrom(pool).Draw(t, "v")})
		}
	}
	return c
}

func runCLI(t *testing.T, col *ev.Collector) {
	check := func(c CLICase) error {
		out, err := checkCLI(c)
		for _, cl := range out.Classes {
			col.Class(cl)
		}
		for _, k := range out.Keys {
			col.NonTrivial("cli|" + k)
		}
		col.Sample("cli/history", c)
		return err
	}
	// interrupted runs: 2-3 files, the apply killed after every revision write in turn, then `migrate set` on the
	// interrupted version (or a plain re-run), then apply
	for files := 2; files <= 3; files++ {
		for point := 1; point <= 5*files; point++ {
			for _, follow := range []string{"set", "apply"} {
				c := CLICase{}
				for f := 0; f < files; f++ {
					c.Ops = append(c.Ops, Op{Kind: "add", V: pool[f]})
				}
				c.Ops = append(c.Ops, Op{Kind: "crash", N: point})
				if follow == "set" {
					c.Ops = append(c.Ops, Op{Kind: "set", V: "@last"})
				}
				c.Ops = append(c.Ops, Op{Kind: "apply"})
				if (point+files)%2 == 0 || col.Thorough() {
					if !ev.Each(col, "cli-interrupted", c, check, knownCLI) {
						return
					}
				}
			}
		}
	}
	// a file that failed half way and is then stepped over, or sits below the last applied version: `migrate set` to a
	// later version (every partially applied revision up to it counts as applied afterwards), and a failure inside an
	// out-of-order file run with --exec-order non-linear (its revision is partial without being the last one)
	fixed := []CLICase{
		{Dirty: true, Ops: []Op{{Kind: "add", V: "10", Fail: true}, {Kind: "apply", N: 2, Allow: true}, {Kind: "add", V: "60"}, {Kind: "apply", Order: 1, Allow: true}, {Kind: "add", V: "20"}, {Kind: "set", V: "20"}, {Kind: "apply", Allow: true}}},
		{Ops: []Op{{Kind: "add", V: "10", Fail: true}, {Kind: "add", V: "20"}, {Kind: "add", V: "30"}, {Kind: "apply"}, {Kind: "set", V: "20"}, {Kind: "apply"}}},
		{Ops: []Op{{Kind: "add", V: "30"}, {Kind: "add", V: "60"}, {Kind: "apply"}, {Kind: "add", V: "50"}, {Kind: "add", V: "40", Fail: true}, {Kind: "apply", Order: 2}, {Kind: "apply", Order: 2}, {Kind: "fix", V: "40"}, {Kind: "apply", Order: 2}}},
	}
	// an out-of-order file met under each execution order, the order stated by the flag, by the env of a project file, or
	// by the flag against another order in the env
	for order := 0; order < 3; order++ {
		for via := 0; via < 3; via++ {
			fixed = append(fixed, CLICase{Ops: []Op{{Kind: "add", V: "30"}, {Kind: "add", V: "60"}, {Kind: "apply"}, {Kind: "add", V: "50"}, {Kind: "apply", Order: order, Via: via}, {Kind: "apply", Order: order, Via: via}}})
		}
	}
	// a first run with a baseline, stated by the flag, by the env, or by the flag against another one in the env
	for via := 0; via < 3; via++ {
		for _, dirty := range []bool{false, true} {
			fixed = append(fixed, CLICase{Dirty: dirty, Ops: []Op{{Kind: "add", V: "30"}, {Kind: "add", V: "60"}, {Kind: "apply", Baseline: "30", Via: via}, {Kind: "apply", Via: via}}})
		}
	}
	// a file that holds comments only, as the first, a middle and the last file
	for _, ev := range []string{"30", "50", "60"} {
		ops := []Op{}
		for _, v := range []string{"30", "50", "60"} {
			ops = append(ops, Op{Kind: "add", V: v, Empty: v == ev})
		}
		fixed = append(fixed, CLICase{Ops: append(ops, Op{Kind: "apply"}, Op{Kind: "apply"})})
	}
	for _, c := range fixed {
		if !ev.Each(col, "cli-fixed-histories", c, check, knownCLI) {
			return
		}
	}
	ev.Rapid(t, col, "cli-histories", col.N(40, 3000), genCLI, check, knownCLI)
}

