package c11

import (
	"context"
	"crypto/sha256"
	"encoding/base64"
	"errors"
	"fmt"
	"reflect"
	"strings"

	"ariga.io/atlas/sql/migrate"

	"verif/fake"
)

// Case = a state plus the operation observed.
type Case struct {
	State State  `json:"state"`
	Op    string `json:"op"` // pending | execN | execTo
	N     int    `json:"n"`  // execN argument
	To    string `json:"to"` // execTo argument
}

func stmt(v string, i int) string { return fmt.Sprintf("INSERT INTO t VALUES ('%s', %d);", v, i) }

func body(v string, ck bool) string {
	b := ""
	if ck {
		b = "-- atlas:checkpoint\n\n"
	}
	return b + stmt(v, 0) + "\n" + stmt(v, 1) + "\n"
}

func partialHashes(v string) []string {
	h := sha256.Sum256([]byte(stmt(v, 0)))
	return []string{"h1:" + base64.StdEncoding.EncodeToString(h[:])}
}

func build(s State) (*migrate.MemDir, *fake.Driver, *fake.Revs, *migrate.Executor, error) {
	dir := &migrate.MemDir{}
	for i, v := range s.Versions {
		b := body(v, s.Ck[i])
		if s.CRLF {
			b = strings.ReplaceAll(b, "\n", "\r\n")
		}
		if err := dir.WriteFile(v+"_f.sql", []byte(b)); err != nil {
			return nil, nil, nil, nil, err
		}
	}
	sum, err := dir.Checksum()
	if err != nil {
		return nil, nil, nil, nil, err
	}
	if err := migrate.WriteSumFile(dir, sum); err != nil {
		return nil, nil, nil, nil, err
	}
	revs := fake.NewRevs()
	for i, v := range s.Revs {
		r := &migrate.Revision{Version: v, Description: "f", Type: migrate.RevisionTypeExecute, Applied: 2, Total: 2}
		if s.Partial && i == len(s.Revs)-1 {
			r.Applied = 1
			r.PartialHashes = partialHashes(v)
			r.Error = "boom"
			if s.Resolved {
				r.Type = migrate.RevisionTypeExecute | migrate.RevisionTypeResolved
			}
		}
		revs.M[v] = r
	}
	drv := &fake.Driver{Dirty: s.Dirty}
	opts := []migrate.ExecutorOption{migrate.WithExecOrder(migrate.ExecOrder(s.Order))}
	if s.Allow {
		opts = append(opts, migrate.WithAllowDirty(true))
	}
	if s.Baseline != "" {
		opts = append(opts, migrate.WithBaselineVersion(s.Baseline))
	}
	ex, err := migrate.NewExecutor(drv, dir, revs, opts...)
	return dir, drv, revs, ex, err
}

func classifyErr(err error) string {
	var (
		nc *migrate.NotCleanError
		mm *migrate.MissingMigrationError
		nl *migrate.HistoryNonLinearError
	)
	switch {
	case err == nil:
		return ""
	case errors.Is(err, migrate.ErrNoPendingFiles):
		return "nopending"
	case errors.As(err, &nc):
		return "notclean"
	case errors.As(err, &mm):
		return "missing"
	case errors.As(err, &nl):
		return "nonlinear"
	case strings.Contains(err.Error(), "baseline version") && strings.Contains(err.Error(), "not found"):
		return "baseline-not-found"
	}
	return "other: " + err.Error()
}

func versions(fs []migrate.File) []string {
	out := []string{}
	for _, f := range fs {
		out = append(out, f.Version())
	}
	return out
}

func eq(a, b []string) bool { return len(a) == len(b) && (len(a) == 0 || reflect.DeepEqual(a, b)) }

// expectedStmts lists the statements a run over the given pending versions must execute.
func expectedStmts(s State, pending []string) []string {
	var out []string
	for _, v := range pending {
		from := 0
		if s.Partial && !s.Resolved && len(s.Revs) > 0 && v == s.Revs[len(s.Revs)-1] {
			from = 1
		}
		for i := from; i < 2; i++ {
			out = append(out, stmt(v, i))
		}
	}
	return out
}

// checkCase returns the model's expectation (for classification) and the verdict.
func checkCase(c Case) (Expect, error) {
	s := c.State
	want := Model(s)
	if want.Undefined != "" {
		return want, nil
	}
	_, drv, revs, ex, err := build(s)
	if err != nil {
		return want, fmt.Errorf("harness: %v", err)
	}
	ctx := context.Background()
	switch c.Op {
	case "pending":
		got, err := ex.Pending(ctx)
		kind := classifyErr(err)
		if kind != want.Err {
			return want, fmt.Errorf("%v\n Pending: error kind %q (%v), reference says %q with pending %v", s, kind, err, want.Err, want.Pending)
		}
		if want.Err == "nonlinear" {
			var nl *migrate.HistoryNonLinearError
			errors.As(err, &nl)
			if !eq(versions(nl.OutOfOrder), want.OutOfOrder) || !eq(versions(nl.Pending), want.Pending) {
				return want, fmt.Errorf("%v\n HistoryNonLinearError{OutOfOrder:%v Pending:%v}, reference says %v / %v", s, versions(nl.OutOfOrder), versions(nl.Pending), want.OutOfOrder, want.Pending)
			}
			return want, nil
		}
		if want.Err == "" && !eq(versions(got), want.Pending) {
			return want, fmt.Errorf("%v\n Pending = %v, reference says %v", s, versions(got), want.Pending)
		}
		// first run with a baseline records the baseline revision (documented in Pending's body)
		if want.Err == "" || want.Err == "nopending" {
			if len(s.Revs) == 0 && s.Baseline != "" {
				r, ok := revs.M[s.Baseline]
				if !ok || r.Type != migrate.RevisionTypeBaseline {
					return want, fmt.Errorf("%v\n baseline revision not recorded: %+v", s, revs.M)
				}
			}
		}
	case "execN":
		err := ex.ExecuteN(ctx, c.N)
		kind := classifyErr(err)
		if kind != want.Err {
			return want, fmt.Errorf("%v\n ExecuteN(%d): error kind %q (%v), reference says %q", s, c.N, kind, err, want.Err)
		}
		if want.Err != "" {
			if len(drv.Log) != 0 {
				return want, fmt.Errorf("%v\n ExecuteN(%d) failed with %q but executed %v", s, c.N, kind, drv.Log)
			}
			return want, nil
		}
		p := want.Pending
		if c.N > 0 && c.N < len(p) {
			p = p[:c.N]
		}
		return want, compareLog(s, fmt.Sprintf("ExecuteN(%d)", c.N), drv, expectedStmts(s, p))
	case "execTo":
		idx := -1
		for i, v := range s.Versions {
			if v == c.To {
				idx = i
			}
		}
		nrevs := len(revs.M)
		err := ex.ExecuteTo(ctx, c.To)
		// a refused or empty ExecuteTo (nothing executed, nothing recorded) leaves the executor where it was: the same
		// executor's next decision is the reference's decision for the unchanged state
		if err != nil && len(drv.Log) == 0 && len(revs.M) == nrevs && !(len(s.Revs) == 0 && s.Baseline != "") {
			got, perr := ex.Pending(ctx)
			if k := classifyErr(perr); k != want.Err {
				return want, fmt.Errorf("%v\n after ExecuteTo(%q) failed with %v the same executor's Pending gives error kind %q (%v), reference says %q with pending %v", s, c.To, err, k, perr, want.Err, want.Pending)
			}
			if want.Err == "" && !eq(versions(got), want.Pending) {
				return want, fmt.Errorf("%v\n after ExecuteTo(%q) failed with %v the same executor's Pending = %v, reference says %v", s, c.To, err, versions(got), want.Pending)
			}
		}
		if idx == -1 {
			if err == nil || len(drv.Log) != 0 {
				return want, fmt.Errorf("%v\n ExecuteTo(%q): version not in directory but err=%v, executed %v", s, c.To, err, drv.Log)
			}
			return want, nil
		}
		ckAfter := false
		for i := idx + 1; i < len(s.Versions); i++ {
			ckAfter = ckAfter || s.Ck[i]
		}
		w := want
		if ckAfter { // "If the version we want to migrate to is before a checkpoint": decide on the directory up to it
			t := s
			t.Versions, t.Ck = s.Versions[:idx+1], s.Ck[:idx+1]
			w = Model(t)
			if w.Undefined != "" {
				return w, nil
			}
		}
		kind := classifyErr(err)
		if w.Err != "" {
			if kind != w.Err {
				return want, fmt.Errorf("%v\n ExecuteTo(%q): error kind %q (%v), reference says %q", s, c.To, kind, err, w.Err)
			}
			return want, nil
		}
		p := w.Pending
		if !ckAfter {
			cut := -1
			for i, v := range p {
				if v == c.To {
					cut = i
				}
			}
			if cut == -1 { // not pending any more (already applied, or skipped)
				if err == nil || len(drv.Log) != 0 {
					return want, fmt.Errorf("%v\n ExecuteTo(%q): version is not pending but err=%v executed=%v", s, c.To, err, drv.Log)
				}
				return want, nil
			}
			p = p[:cut+1]
		}
		if err != nil {
			return want, fmt.Errorf("%v\n ExecuteTo(%q): unexpected error %v (reference pending %v)", s, c.To, err, p)
		}
		return want, compareLog(s, fmt.Sprintf("ExecuteTo(%q)", c.To), drv, expectedStmts(s, p))
	default:
		return want, fmt.Errorf("harness: unknown op %q", c.Op)
	}
	return want, nil
}

func compareLog(s State, what string, drv *fake.Driver, want []string) error {
	var got []string
	for _, e := range drv.Log {
		got = append(got, e.Text)
	}
	if !eq(got, want) {
		return fmt.Errorf("%v\n %s executed\n  %v\n reference says\n  %v", s, what, got, want)
	}
	return nil
}
