package c11

import (
	"encoding/json"
	"fmt"
	"reflect"
	"sort"
	"strconv"
	"strings"

	"verif/cli"
	"verif/sqliteref"
)

// Op is one step of a CLI history.
type Op struct {
	Kind     string `json:"kind"` // add | apply | fix | set | crash (apply killed after the N-th revision write: a partial revision without error)
	V        string `json:"v,omitempty"`
	Ck       bool   `json:"ck,omitempty"`
	Fail     bool   `json:"fail,omitempty"`
	Empty    bool   `json:"empty,omitempty"` // add: the file holds comments only
	N        int    `json:"n,omitempty"`     // apply: count argument (0 = none)
	Order    int    `json:"order,omitempty"` // apply: 0 linear, 1 linear-skip, 2 non-linear
	Allow    bool   `json:"allow,omitempty"` // apply: --allow-dirty
	Baseline string `json:"baseline,omitempty"`
	// Via: where the execution order is stated: 0 the --exec-order flag; 1 the selected env of a project file
	// (migration { exec_order = ... }) and no flag; 2 the flag, while the env states another order (the flag wins)
	Via int `json:"via,omitempty"`
}

type CLICase struct {
	Dirty bool `json:"dirty"` // a user table exists before the first apply
	Ops   []Op `json:"ops"`
}

type cliFile struct {
	ck, fail bool
	empty    bool // the file holds comments only (everything commented out, a placeholder): nothing to execute, still to be recorded
}

func ids(v string) [2]int {
	n, _ := strconv.Atoi(v)
	return [2]int{n*10 + 1, n*10 + 2}
}

func cliBody(v string, f cliFile) string {
	b := ""
	if f.ck {
		b = "-- atlas:checkpoint\n\n"
	}
	if f.empty {
		return b + "-- nothing to do in this version\n-- INSERT INTO journal (id) VALUES (0);\n"
	}
	id := ids(v)
	b += "CREATE TABLE IF NOT EXISTS journal (id integer);\n"
	b += fmt.Sprintf("INSERT INTO journal (id) VALUES (%d);\n", id[0])
	if f.fail {
		b += fmt.Sprintf("INSERT INTO missing_tbl (id) VALUES (%d);\n", id[1])
	} else {
		b += fmt.Sprintf("INSERT INTO journal (id) VALUES (%d);\n", id[1])
	}
	return b
}

type cliRev struct {
	Version        string
	Applied, Total int
	Type           int
}

type dbState struct {
	hasTable bool
	revs     []cliRev
	journal  []int
}

func readDB(path string) (dbState, error) {
	var st dbState
	db, err := sqliteref.OpenFile(path)
	if err != nil {
		return st, err
	}
	defer db.Close()
	names, err := sqliteref.QueryStrings(db, "SELECT name FROM sqlite_master WHERE type='table'")
	if err != nil {
		return st, err
	}
	has := map[string]bool{}
	for _, n := range names {
		has[n] = true
	}
	if has["atlas_schema_revisions"] {
		st.hasTable = true
		rows, err := db.Query("SELECT version, applied, total, type FROM atlas_schema_revisions ORDER BY version")
		if err != nil {
			return st, err
		}
		for rows.Next() {
			var r cliRev
			if err := rows.Scan(&r.Version, &r.Applied, &r.Total, &r.Type); err != nil {
				rows.Close()
				return st, err
			}
			st.revs = append(st.revs, r)
		}
		rows.Close()
	}
	if has["journal"] {
		rows, err := db.Query("SELECT id FROM journal ORDER BY rowid")
		if err != nil {
			return st, err
		}
		for rows.Next() {
			var id int
			rows.Scan(&id)
			st.journal = append(st.journal, id)
		}
		rows.Close()
	}
	return st, nil
}

type statusJSON struct {
	Pending    []struct{ Version string }
	OutOfOrder []struct{ Version string }
	Applied    []struct{ Version string }
	Current    string
	Next       string
	Status     string
	Error      string
}

// CLIOutcome feeds classification.
type CLIOutcome struct {
	Steps   int
	Classes []string
	Keys    []string
}

var orderFlag = []string{"linear", "linear-skip", "non-linear"}

func checkCLI(c CLICase) (CLIOutcome, error) {
	var out CLIOutcome
	sb, err := cli.NewSandbox()
	if err != nil {
		return out, fmt.Errorf("harness: %v", err)
	}
	defer sb.Close()
	dbPath := sb.Path("db.sqlite")
	url := "sqlite://" + dbPath
	files := map[string]cliFile{}
	if c.Dirty {
		db, err := sqliteref.OpenFile(dbPath)
		if err != nil {
			return out, fmt.Errorf("harness: %v", err)
		}
		if _, err := db.Exec("CREATE TABLE user_data (x integer)"); err != nil {
			return out, fmt.Errorf("harness: %v", err)
		}
		db.Close()
	} else {
		db, _ := sqliteref.OpenFile(dbPath)
		db.Exec("PRAGMA user_version = 0") // create the (empty) file
		db.Close()
	}
	sb.WriteFile("m/.keep", "")
	rehash := func() error {
		if r := sb.Run("migrate", "hash", "--dir", "file://m"); r.Code != 0 {
			return fmt.Errorf("harness: %v", r)
		}
		return nil
	}
	if err := rehash(); err != nil {
		return out, err
	}
	// stateOf builds the model's State from the directory and the revision table as read independently.
	stateOf := func(db dbState) State {
		var s State
		var vs []string
		for v := range files {
			vs = append(vs, v)
		}
		sort.Strings(vs)
		for _, v := range vs {
			s.Versions = append(s.Versions, v)
			s.Ck = append(s.Ck, files[v].ck)
		}
		for i, r := range db.revs {
			// a revision that is not the last one and stopped in the middle of its file (a run with --exec-order non-linear
			// that failed inside an out-of-order file) has not applied its file: for the reference the file is still missing
			// from the history, i.e. out of order. A manually resolved one (`migrate set`) counts as applied.
			if i < len(db.revs)-1 && r.Applied != r.Total && r.Type&4 == 0 {
				continue
			}
			s.Revs = append(s.Revs, r.Version)
		}
		if n := len(db.revs); n > 0 {
			s.Partial = db.revs[n-1].Applied != db.revs[n-1].Total
			s.Resolved = s.Partial && db.revs[n-1].Type&4 != 0 // RevisionTypeResolved
		}
		return s
	}
	// status must agree with the reference (status always uses the default, linear, order)
	checkStatus := func(step int, what string) error {
		db, err := readDB(dbPath)
		if err != nil {
			return fmt.Errorf("harness: %v", err)
		}
		s := stateOf(db)
		s.Dirty = c.Dirty
		s.Allow = true // status does not gate on cleanliness
		want := Model(s)
		if want.Undefined != "" {
			return nil
		}
		r := sb.Run("migrate", "status", "--dir", "file://m", "--url", url, "--format", "{{ json . }}")
		if c.Dirty && len(db.revs) == 0 && r.Code != 0 && strings.Contains(r.Stderr, "not clean") {
			// status has no --allow-dirty: once the (empty) revision table exists it reports the same refusal
			// `migrate apply` would give, which agrees with the first-run gate of the decision procedure.
			return nil
		}
		if want.Err == "missing" {
			if r.Code == 0 {
				return fmt.Errorf("step %d (%s): %v\n status succeeded although the partially applied file is missing: %v", step, what, s, r)
			}
			return nil
		}
		if r.Code != 0 {
			return fmt.Errorf("step %d (%s): %v\n status failed: %v", step, what, s, r)
		}
		var st statusJSON
		if err := json.Unmarshal([]byte(r.Stdout), &st); err != nil {
			return fmt.Errorf("step %d (%s): status output is not JSON: %v", step, what, r)
		}
		var got, ooo []string
		for _, p := range st.Pending {
			got = append(got, p.Version)
		}
		for _, p := range st.OutOfOrder {
			ooo = append(ooo, p.Version)
		}
		if !eq(got, want.Pending) || !eq(ooo, want.OutOfOrder) {
			return fmt.Errorf("step %d (%s): %v\n status pending=%v outoforder=%v, reference pending=%v outoforder=%v", step, what, s, got, ooo, want.Pending, want.OutOfOrder)
		}
		wantStatus, wantNext := "OK", "Already at latest version"
		if len(want.Pending) > 0 {
			wantStatus, wantNext = "PENDING", want.Pending[0]
		}
		if want.Err == "nonlinear" {
			wantStatus, wantNext = "PENDING", ""
		}
		if st.Status != wantStatus || (wantNext != "" && st.Next != wantNext) {
			return fmt.Errorf("step %d (%s): %v\n status Status=%q Next=%q, reference %q / %q", step, what, s, st.Status, st.Next, wantStatus, wantNext)
		}
		if len(db.revs) == 0 && st.Current != "No migration applied yet" {
			return fmt.Errorf("step %d (%s): status Current=%q with an empty history", step, what, st.Current)
		}
		if n := len(db.revs); n > 0 && len(want.Pending) == 0 && st.Current != db.revs[n-1].Version {
			return fmt.Errorf("step %d (%s): %v\n status Current=%q, last revision is %q", step, what, s, st.Current, db.revs[n-1].Version)
		}
		return nil
	}
	for step, op := range c.Ops {
		before, err := readDB(dbPath)
		if err != nil {
			return out, fmt.Errorf("harness: %v", err)
		}
		switch op.Kind {
		case "add":
			if _, ok := files[op.V]; ok {
				continue
			}
			f := cliFile{ck: op.Ck, fail: op.Fail && !op.Empty, empty: op.Empty}
			files[op.V] = f
			sb.WriteFile("m/"+op.V+"_f.sql", cliBody(op.V, f))
			if err := rehash(); err != nil {
				return out, err
			}
			out.Classes = append(out.Classes, "cli/op/add")
		case "fix":
			f, ok := files[op.V]
			if !ok || !f.fail {
				continue
			}
			f.fail = false
			files[op.V] = f
			sb.WriteFile("m/"+op.V+"_f.sql", cliBody(op.V, f))
			if err := rehash(); err != nil {
				return out, err
			}
			out.Classes = append(out.Classes, "cli/op/fix")
		case "apply":
			s := stateOf(before)
			s.Order, s.Dirty, s.Allow, s.Baseline = op.Order, c.Dirty, op.Allow, op.Baseline
			if s.Allow && s.Baseline != "" {
				s.Allow = false
				op.Allow = false
			}
			want := Model(s)
			if want.Undefined != "" {
				continue
			}
			args := []string{"migrate", "apply", "--dir", "file://m", "--url", url, "--tx-mode", "none"}
			if op.Via != 1 {
				args = append(args, "--exec-order", orderFlag[op.Order])
			}
			if op.Via != 0 {
				inEnv := op.Order
				if op.Via == 2 {
					inEnv = (op.Order + 1) % 3
				}
				// the baseline travels the same way: in the env only, or on the command line against another one in the env
				bl := ""
				switch {
				case op.Baseline != "" && op.Via == 1:
					bl = fmt.Sprintf("    baseline = %q\n", op.Baseline)
				case op.Baseline != "" && op.Via == 2:
					bl = "    baseline = \"77\"\n"
				}
				sb.WriteFile("atlas.hcl", fmt.Sprintf("env \"x\" {\n  migration {\n    exec_order = %s\n%s  }\n}\n", []string{"LINEAR", "LINEAR_SKIP", "NON_LINEAR"}[inEnv], bl))
				args = append(args, "--env", "x", "-c", "file://atlas.hcl")
				out.Classes = append(out.Classes, fmt.Sprintf("cli/apply/exec-order-via=%s", []string{"flag", "env", "flag-over-env"}[op.Via]))
			}
			if op.Allow {
				args = append(args, "--allow-dirty")
			}
			if op.Baseline != "" && op.Via != 1 {
				args = append(args, "--baseline", op.Baseline)
			}
			if op.N > 0 {
				args = append(args, strconv.Itoa(op.N))
			}
			r := sb.Run(args...)
			after, err := readDB(dbPath)
			if err != nil {
				return out, fmt.Errorf("harness: %v", err)
			}
			cls := "cli/apply/" + map[bool]string{true: "first-run", false: "later-run"}[len(before.revs) == 0]
			if want.Err != "" && want.Err != "nopending" {
				out.Classes = append(out.Classes, cls+"/"+want.Err)
				if r.Code == 0 {
					return out, fmt.Errorf("step %d: %v\n apply succeeded, reference says error %q: %v", step, s, want.Err, r)
				}
				if !reflect.DeepEqual(before.journal, after.journal) {
					return out, fmt.Errorf("step %d: %v\n apply was refused (%s) but executed statements: journal %v -> %v", step, s, want.Err, before.journal, after.journal)
				}
				break
			}
			p := want.Pending
			if op.N > 0 && op.N < len(p) {
				p = p[:op.N]
			}
			// expected journal delta: pending files in order, resuming a partial file, stopping at a failing statement
			var delta []int
			failed := false
			for _, v := range p {
				id := ids(v)
				from := 1 // statement index (0 = CREATE TABLE IF NOT EXISTS, 1 and 2 = inserts)
				if s.Partial && !s.Resolved && v == s.Revs[len(s.Revs)-1] {
					for _, rv := range before.revs {
						if rv.Version == v {
							from = rv.Applied
						}
					}
				}
				// an out-of-order file that an earlier non-linear run left half applied is resumed as well
				for i, rv := range before.revs {
					if rv.Version == v && i < len(before.revs)-1 && rv.Applied != rv.Total && rv.Type&4 == 0 {
						from = rv.Applied
					}
				}
				if files[v].empty {
					continue
				}
				if from <= 1 {
					delta = append(delta, id[0])
				}
				if files[v].fail {
					failed = true
					break
				}
				if from <= 2 {
					delta = append(delta, id[1])
				}
			}
			out.Classes = append(out.Classes, fmt.Sprintf("%s/pending=%d,failed=%v", cls, min(len(p), 3), failed))
			out.Keys = append(out.Keys, fmt.Sprintf("%v|n=%d|%v", s, op.N, failed))
			gotDelta := after.journal[len(before.journal):]
			if !eqInts(gotDelta, delta) {
				return out, fmt.Errorf("step %d: %v\n apply n=%d executed journal ids %v, reference says files %v => %v\n%v", step, s, op.N, gotDelta, p, delta, r)
			}
			if failed != (r.Code != 0) {
				return out, fmt.Errorf("step %d: %v\n apply exit=%d, expected failure=%v: %v", step, s, r.Code, failed, r)
			}
			// every file the run went through (all of them but a failing one) is recorded as completely applied afterwards
			for _, v := range p {
				if files[v].fail {
					break
				}
				ok := false
				for _, rv := range after.revs {
					if rv.Version == v && rv.Applied == rv.Total {
						ok = true
					}
				}
				if !ok {
					return out, fmt.Errorf("step %d: %v\n apply n=%d went through file %s, but the revision table does not record it as applied afterwards: %+v\n%v", step, s, op.N, v, after.revs, r)
				}
			}
		case "crash":
			// the process dies right after a revision write (no transaction): what stays behind is a revision that is
			// partially applied and carries no error. No judgement here (C10 owns the crash itself); the history goes on.
			s := stateOf(before)
			s.Dirty = c.Dirty
			if w := Model(s); w.Undefined != "" || w.Err != "" {
				continue
			}
			r := sb.RunEnv([]string{fmt.Sprintf("VERIF_CRASH_AT=after_write:%d", op.N)}, "migrate", "apply", "--dir", "file://m", "--url", url, "--tx-mode", "none")
			sb.ClearLocks()
			out.Classes = append(out.Classes, fmt.Sprintf("cli/op/crash/died=%v", r.Code == 137))
		case "set":
			s := stateOf(before)
			if op.V == "@last" {
				if len(before.revs) == 0 {
					continue
				}
				op.V = before.revs[len(before.revs)-1].Version
				if rv := before.revs[len(before.revs)-1]; rv.Applied < rv.Total {
					out.Classes = append(out.Classes, "cli/op/set/on-interrupted-revision")
				}
			}
			if _, ok := files[op.V]; !ok {
				continue
			}
			s.Allow = true
			if w := Model(s); w.Err == "nonlinear" || w.Err == "missing" || w.Undefined != "" {
				continue // `migrate set` is exercised on linear histories only (its documented use)
			}
			r := sb.Run("migrate", "set", op.V, "--dir", "file://m", "--url", url)
			if r.Code != 0 {
				return out, fmt.Errorf("step %d: %v\n migrate set %s failed: %v", step, s, op.V, r)
			}
			after, err := readDB(dbPath)
			if err != nil {
				return out, fmt.Errorf("harness: %v", err)
			}
			if !reflect.DeepEqual(before.journal, after.journal) {
				return out, fmt.Errorf("step %d: migrate set executed statements", step)
			}
			// every file up to and including v is recorded, nothing above it
			have := map[string]bool{}
			for _, rv := range after.revs {
				have[rv.Version] = true
				if rv.Version > op.V {
					return out, fmt.Errorf("step %d: %v\n after `migrate set %s` revision %s is still recorded", step, s, op.V, rv.Version)
				}
			}
			out.Classes = append(out.Classes, "cli/op/set")
			// the next decision: nothing at or below v is pending any more
			st := sb.Run("migrate", "status", "--dir", "file://m", "--url", url, "--format", "{{ json . }}")
			var sj statusJSON
			if st.Code != 0 || json.Unmarshal([]byte(st.Stdout), &sj) != nil {
				return out, fmt.Errorf("step %d: status after set failed: %v", step, st)
			}
			for _, p := range sj.Pending {
				if p.Version <= op.V {
					return out, fmt.Errorf("step %d: %v\n after `migrate set %s`, status still lists %s as pending (revisions %+v)", step, s, op.V, p.Version, after.revs)
				}
			}
			var wantPending []string
			for _, v := range s.Versions {
				if v > op.V && !files[v].ck {
					wantPending = append(wantPending, v)
				}
			}
			var gotPending []string
			for _, p := range sj.Pending {
				gotPending = append(gotPending, p.Version)
			}
			if !eq(gotPending, wantPending) {
				return out, fmt.Errorf("step %d: %v\n after `migrate set %s`, status pending=%v, want %v", step, s, op.V, gotPending, wantPending)
			}
		default:
			return out, fmt.Errorf("harness: op %q", op.Kind)
		}
		out.Steps++
		if err := checkStatus(step, op.Kind); err != nil {
			return out, err
		}
	}
	return out, nil
}

func eqInts(a, b []int) bool {
	if len(a) != len(b) {
		return false
	}
	for i := range a {
		if a[i] != b[i] {
			return false
		}
	}
	return true
}

var _ = strings.Contains
