// Package c11: pending-file computation follows the documented semantics for every history.
package c11

import (
	"fmt"
	"sort"
)

// State is a migration directory plus a recorded history plus the executor configuration.
type State struct {
	Versions []string `json:"versions"` // sorted file versions in the directory
	Ck       []bool   `json:"ck"`       // Ck[i]: file i carries the atlas:checkpoint directive
	Revs     []string `json:"revs"`     // versions that have a revision row (sorted; may include versions not in the directory)
	Partial  bool     `json:"partial"`  // the last (highest) revision is partially applied (1 of 2 statements)
	Resolved bool     `json:"resolved"` // ... and was manually resolved (`migrate set`): it counts as applied
	Order    int      `json:"order"`    // 0 linear, 1 linear-skip, 2 non-linear
	Dirty    bool     `json:"dirty"`    // first-run gate: database holds other objects
	Allow    bool     `json:"allow"`    // WithAllowDirty
	Baseline string   `json:"baseline"` // WithBaselineVersion ("" = none)
	CRLF     bool     `json:"crlf,omitempty"` // the files use Windows line endings
}

// Expect is the reference answer.
type Expect struct {
	Pending    []string `json:"pending"`
	Err        string   `json:"err"`        // "", notclean, baseline-not-found, missing, nonlinear, nopending
	OutOfOrder []string `json:"outoforder"` // for nonlinear
	Undefined  string   `json:"undefined"`  // non-empty: the documentation is silent for this state (excluded, counted)
}

func (s State) has(v string) bool {
	for _, r := range s.Revs {
		if r == v {
			return true
		}
	}
	return false
}

// Model restates the documented decision procedure declaratively.
//
// Sources: doc comments of Executor.Pending, ExecOrderLinear/LinearSkip/NonLinear, WithBaselineVersion
// ("all versions up to and including this version are skipped"), WithAllowDirty ("start working on a
// non-clean database in the first migration execution"), FilesFromLastCheckpoint ("files created after the
// last checkpoint, if exists, to be executed on a database (on the first time)"), MissingMigrationError,
// and the property text: never a fully applied version again; always every version newer than the last
// applied one; the partially applied file first; the latest checkpoint (and only it) as the starting point
// of a first run; versions up to the baseline skipped; out-of-order files rejected / skipped / run first.
func Model(s State) Expect {
	type file struct {
		v  string
		ck bool
	}
	var all, migs []file
	for i, v := range s.Versions {
		f := file{v, s.Ck[i]}
		all = append(all, f)
		if !f.ck {
			migs = append(migs, f)
		}
	}
	vs := func(fs []file) []string {
		out := []string{}
		for _, f := range fs {
			out = append(out, f.v)
		}
		return out
	}
	done := func(p []string) Expect {
		if len(p) == 0 {
			return Expect{Err: "nopending"}
		}
		return Expect{Pending: p}
	}
	// ---- first run
	if len(s.Revs) == 0 {
		if s.Dirty && !s.Allow && s.Baseline == "" {
			return Expect{Err: "notclean"}
		}
		if s.Baseline != "" {
			for _, f := range all {
				if f.v == s.Baseline && f.ck {
					return Expect{Undefined: "baseline names a checkpoint file"}
				}
			}
			for i, f := range migs {
				if f.v == s.Baseline {
					return done(vs(migs[i+1:])) // versions up to and including the baseline are skipped
				}
			}
			return Expect{Err: "baseline-not-found"}
		}
		last := -1
		for i, f := range all {
			if f.ck {
				last = i
			}
		}
		if last == -1 {
			return done(vs(all))
		}
		return done(vs(all[last:])) // the latest checkpoint, and only it, then what follows
	}
	// ---- later runs
	revs := append([]string{}, s.Revs...)
	sort.Strings(revs)
	lastV := revs[len(revs)-1]
	if s.Resolved {
		// `migrate set` docs: the version is considered applied; status ignores the partial state of a
		// revision that was "manually resolved" (cmdlog.StatusReporter.Report).
		s.Partial = false
	}
	if s.Partial {
		if len(all) == 0 {
			return Expect{Undefined: "partial revision but empty directory"}
		}
		for i, f := range all {
			if f.v == lastV && f.ck {
				// a partially applied checkpoint: finish it, then everything after it
				var rest []file
				for _, g := range all[i+1:] {
					if !g.ck {
						rest = append(rest, g)
					}
				}
				return done(append([]string{f.v}, vs(rest)...))
			}
		}
		if len(migs) == 0 {
			return Expect{Undefined: "partial revision whose file is gone and the directory holds only checkpoints"}
		}
	}
	var pending []file
	resume := lastV // files with a version below the resume point are history
	if s.Partial {
		found := false
		for i, f := range migs {
			if f.v == lastV {
				pending, found = migs[i:], true // the partially applied file first
			}
		}
		if !found {
			return Expect{Err: "missing"}
		}
	} else {
		for _, f := range migs {
			if f.v > lastV {
				pending = append(pending, f) // every version newer than the last applied one
			}
		}
	}
	// out-of-order window: files between the first revision and the resume point that were never recorded
	var skipped []file
	for _, f := range migs {
		inWindow := f.v >= revs[0] && f.v < resume
		if inWindow && !s.has(f.v) {
			skipped = append(skipped, f)
		}
	}
	switch {
	case len(skipped) == 0 || s.Order == 1:
		return done(vs(pending))
	case s.Order == 2:
		return done(append(vs(skipped), vs(pending)...))
	default:
		return Expect{Err: "nonlinear", OutOfOrder: vs(skipped), Pending: vs(pending)}
	}
}

func (s State) String() string {
	return fmt.Sprintf("dir=%v ck=%v revs=%v partial=%v resolved=%v order=%d dirty=%v allow=%v baseline=%q", s.Versions, s.Ck, s.Revs, s.Partial, s.Resolved, s.Order, s.Dirty, s.Allow, s.Baseline)
}
