package c11

import (
	"fmt"
	"sort"
	"strings"
	"testing"

	"pgregory.net/rapid"

	"verif/ev"
)

var known = ev.Matcher[Case]{}

const rule = "exhaustive: directories of 0..N versions (N=4 quick, 5 thorough) x every subset marked as checkpoints x every revision table " +
	"(any subset of the directory's versions, optionally one ghost revision whose file is gone — below, between or above the files — last one complete, partial, or partial-but-manually-resolved) " +
	"x exec-order {linear, linear-skip, non-linear} x first-run gate {clean, dirty, dirty+allow-dirty, baseline = every version and a missing one, on clean and dirty}; " +
	"observed through Executor.Pending, ExecuteN(0..3) and ExecuteTo(every version + a missing one) with a recording driver, compared with an executable reference " +
	"of the documented semantics (harness/c11/model.go); CLI tier: random operation sequences on the real binary (see classes cli/*). " +
	"non-trivial = (>=1 revision and (>=1 pending or out-of-order file)) or a first run with a checkpoint or baseline; distinct key = (state, op, arg)"

var dirVersions = []string{"10", "20", "30", "40", "50"}
var ghosts = []string{"", "05", "25", "55"}

func nonTrivial(s State, e Expect) bool {
	if len(s.Revs) > 0 {
		return len(e.Pending) > 0 || len(e.OutOfOrder) > 0
	}
	if s.Baseline != "" {
		return true
	}
	for _, c := range s.Ck {
		if c {
			return true
		}
	}
	return false
}

// states enumerates every state with at most maxN versions.
func states(maxN int, f func(State) bool) {
	for n := 0; n <= maxN; n++ {
		vs := dirVersions[:n]
		for ckm := 0; ckm < 1<<n; ckm++ {
			ck := make([]bool, n)
			for i := range ck {
				ck[i] = ckm&(1<<i) != 0
			}
			for rm := 0; rm < 1<<n; rm++ {
				for _, g := range ghosts {
					var revs []string
					for i := 0; i < n; i++ {
						if rm&(1<<i) != 0 {
							revs = append(revs, vs[i])
						}
					}
					if g != "" {
						revs = append(revs, g)
					}
					sort.Strings(revs)
					if len(revs) == 0 {
						// first run: the gate matters, the order does not
						baselines := append([]string{"", "99"}, vs...)
						for _, b := range baselines {
							for _, dirty := range []bool{false, true} {
								for _, allow := range []bool{false, true} {
									if allow && b != "" {
										continue // NewExecutor rejects the combination
									}
									if !f(State{Versions: vs, Ck: ck, Dirty: dirty, Allow: allow, Baseline: b}) {
										return
									}
								}
							}
						}
						continue
					}
					for partial := 0; partial < 3; partial++ { // complete, partial, partial but manually resolved
						for order := 0; order < 3; order++ {
							if !f(State{Versions: vs, Ck: ck, Revs: revs, Partial: partial > 0, Resolved: partial == 2, Order: order}) {
								return
							}
						}
					}
				}
			}
		}
	}
}

func genState(t *rapid.T) State {
	pool := []string{"10", "15", "20", "25", "30", "35", "40", "45", "50", "55", "60"}
	var vs []string
	var ck []bool
	for _, v := range pool {
		if rapid.IntRange(0, 2).Draw(t, "in") == 0 {
			vs = append(vs, v)
			ck = append(ck, rapid.IntRange(0, 3).Draw(t, "ck") == 0)
		}
	}
	var revs []string
	for _, v := range pool {
		if rapid.IntRange(0, 2).Draw(t, "rev") == 0 {
			revs = append(revs, v)
		}
	}
	s := State{Versions: vs, Ck: ck, Revs: revs, Order: rapid.IntRange(0, 2).Draw(t, "order"), CRLF: rapid.IntRange(0, 3).Draw(t, "crlf") == 0}
	if len(revs) > 0 {
		s.Partial = rapid.Bool().Draw(t, "partial")
		s.Resolved = s.Partial && rapid.IntRange(0, 2).Draw(t, "resolved") == 0
	} else {
		s.Dirty = rapid.Bool().Draw(t, "dirty")
		switch rapid.IntRange(0, 2).Draw(t, "gate") {
		case 1:
			s.Allow = true
		case 2:
			s.Baseline = rapid.SampledFrom(pool).Draw(t, "baseline")
		}
	}
	return s
}

func TestCheck(t *testing.T) {
	col := ev.New("C11", "exploration", rule)
	defer col.Finish()
	check := func(c Case) error {
		want, err := checkCase(c)
		cls := "later-run"
		if len(c.State.Revs) == 0 {
			cls = "first-run"
		}
		switch {
		case want.Undefined != "":
			col.Reject("undefined: " + want.Undefined)
			return err
		case want.Err != "":
			cls += "/" + want.Err
		default:
			cls += "/pending"
		}
		col.Class(c.Op + "/" + cls)
		if nonTrivial(c.State, want) {
			col.NonTrivial(fmt.Sprintf("%v|%s|%d|%s", c.State, c.Op, c.N, c.To))
		}
		col.Sample(c.Op+"/"+cls, c)
		return err
	}
	maxN := 4
	if col.Thorough() {
		maxN = 5
	}
	i := 0
	ok := true
	nstates := 0
	states(maxN, func(s State) bool {
		i++
		if !col.Mine(i) {
			return true
		}
		nstates++
		if ok = ev.Each(col, "api-exhaustive", Case{State: s, Op: "pending"}, check, known); !ok {
			return false
		}
		// the same directory written with Windows line endings
		hasCk := false
		for _, c := range s.Ck {
			hasCk = hasCk || c
		}
		if hasCk {
			w := s
			w.CRLF = true
			if ok = ev.Each(col, "api-exhaustive-crlf", Case{State: w, Op: "pending"}, check, known); !ok {
				return false
			}
		}
		for n := 0; n <= 3; n++ {
			if ok = ev.Each(col, "api-exhaustive", Case{State: s, Op: "execN", N: n}, check, known); !ok {
				return false
			}
		}
		for _, to := range append([]string{"99"}, s.Versions...) {
			if ok = ev.Each(col, "api-exhaustive", Case{State: s, Op: "execTo", To: to}, check, known); !ok {
				return false
			}
		}
		return true
	})
	if !ok {
		return
	}
	col.Exhaustive = true
	col.ExhScope = fmt.Sprintf("API tier: all states with <=%d versions", maxN)
	col.Extra["n_states"] = nstates
	genCase := func(t *rapid.T) Case {
		s := genState(t)
		c := Case{State: s, Op: rapid.SampledFrom([]string{"pending", "execN", "execTo"}).Draw(t, "op")}
		c.N = rapid.IntRange(0, 4).Draw(t, "n")
		c.To = rapid.SampledFrom(append([]string{"99"}, s.Versions...)).Draw(t, "to")
		return c
	}
	if !ev.Rapid(t, col, "api-random", col.N(20000, 1000000), genCase, check, known) {
		return
	}
	runCLI(t, col)
}

func TestReplay(t *testing.T) {
	if strings.HasPrefix(ev.ReplaySub(), "cli") {
		ev.ReplayFile(t, "C11", func(sub string, c CLICase) error { _, err := checkCLI(c); return err })
		return
	}
	ev.ReplayFile(t, "C11", func(sub string, c Case) error {
		_, err := checkCase(c)
		return err
	})
}
