package c10

import (
	"fmt"
	"testing"

	"verif/ev"
)

var known = ev.Matcher[Case]{}

const rule = "real `atlas migrate apply` (binary built with -tags verif) on a SQLite database file: directory = an idempotent init file + 1-3 files x 1-3 journal INSERT statements; " +
	"x tx-mode {file, all, none}, plus per-file atlas:txmode directives, plus directories in which one file is an atlas:checkpoint (a fresh database starts there and never runs the earlier files), plus a file that appears after later versions were applied (--exec-order non-linear); for every configuration a probe run records the sequence of instrumented points reached " +
	"(before/after each statement, before/after each revision write, before/after commit) and then the process is killed (exit without deferred code) at every point index in turn; the same command is then run again. " +
	"Oracle, read with an independent go-sqlite3 connection: right after the crash no revision row claims a statement whose journal id is absent, in file/all modes no file is half applied and in all mode nothing is visible unless the crash was after the commit; " +
	"after the re-run (exit 0) every id exists exactly once (none mode: at most the single statement in flight at the crash twice) and all revisions are complete. " +
	"non-trivial = the crash point was reached (exit 137); distinct key = (shape, mode, directives, point index)"

func configs(thorough bool) []Case {
	var out []Case
	shapes := [][]int{{1}, {2, 1}, {1, 3}}
	if thorough {
		shapes = [][]int{{1}, {2}, {3}, {1, 1}, {2, 1}, {1, 3}, {3, 2}, {1, 1, 1}, {2, 3, 1}, {3, 3, 3}, {1, 2, 3}, {3, 1, 2}}
	}
	for _, sh := range shapes {
		for _, m := range []string{"file", "all", "none"} {
			out = append(out, Case{Shape: sh, Mode: m})
		}
	}
	// per-file directives (not allowed with the global mode all)
	dirs := []Case{{Shape: []int{2, 2}, Mode: "file", Directives: []string{"none", ""}}, {Shape: []int{2, 2}, Mode: "none", Directives: []string{"", "file"}}}
	if thorough {
		dirs = append(dirs, Case{Shape: []int{2, 2, 2}, Mode: "file", Directives: []string{"", "none", ""}}, Case{Shape: []int{2, 2, 2}, Mode: "none", Directives: []string{"file", "", "file"}},
			Case{Shape: []int{3, 1}, Mode: "none", Directives: []string{"file", "file"}}, Case{Shape: []int{1, 3}, Mode: "file", Directives: []string{"none", "none"}})
	}
	out = append(out, dirs...)
	// directories with a checkpoint file: a fresh database starts at the checkpoint (which creates the journal itself)
	cps := []Case{{Shape: []int{1, 2, 1}, Mode: "none", Checkpoint: 2}, {Shape: []int{1, 2}, Mode: "file", Checkpoint: 2},
		{Shape: []int{1, 1, 2, 1, 1}, Mode: "none", Checkpoint: 3, Earlier: []int{1}}}
	if thorough {
		cps = append(cps, Case{Shape: []int{2, 3, 2}, Mode: "none", Checkpoint: 2}, Case{Shape: []int{1, 2, 1}, Mode: "file", Checkpoint: 2}, Case{Shape: []int{1, 2, 1}, Mode: "all", Checkpoint: 2},
			Case{Shape: []int{3}, Mode: "none", Checkpoint: 1}, Case{Shape: []int{1, 1, 2, 2, 1}, Mode: "none", Checkpoint: 4, Earlier: []int{1, 2}}, Case{Shape: []int{1, 2, 2, 2}, Mode: "file", Checkpoint: 3, Earlier: []int{2}}, Case{Shape: []int{1, 1, 3}, Mode: "none", Checkpoint: 3}, Case{Shape: []int{2, 2, 2}, Mode: "none", Checkpoint: 1})
	}
	out = append(out, cps...)
	// a file that shows up after later versions were applied, executed with --exec-order non-linear
	late := []Case{{Shape: []int{1, 3, 1}, Mode: "none", Late: 2}, {Shape: []int{2, 2}, Mode: "file", Late: 1}}
	if thorough {
		late = append(late, Case{Shape: []int{1, 2, 2, 1}, Mode: "none", Late: 3}, Case{Shape: []int{2, 3, 1}, Mode: "all", Late: 2}, Case{Shape: []int{1, 3}, Mode: "none", Late: 1})
	}
	return append(out, late...)
}

func TestCheck(t *testing.T) {
	col := ev.New("C10", "fault_enumeration", rule)
	defer col.Finish()
	check := func(c Case) error {
		out, err := checkCase(c)
		cls := fmt.Sprintf("mode=%s/point=%s", c.Mode, c.Point)
		if len(c.Directives) > 0 {
			cls = "directives/" + cls
		}
		if c.Checkpoint > 0 {
			cls = "checkpoint/" + cls
		}
		if c.Late > 0 {
			cls = "out-of-order-file/" + cls
		}
		col.Class(cls)
		if out.Crashed {
			col.NonTrivial(fmt.Sprintf("%v|%s|%v|%d%v|%d|%d", c.Shape, c.Mode, c.Directives, c.Checkpoint, c.Earlier, c.Late, c.K))
		}
		col.Sample(cls, c)
		return err
	}
	npoints := 0
	for _, cfg := range configs(col.Thorough()) {
		// probe: learn the sequence of points this configuration reaches
		probe, err := checkCase(cfg)
		col.Eval()
		if err != nil {
			cfg.Point = "probe"
			ev.Each(col, "probe", cfg, func(Case) error { return err }, known)
			return
		}
		npoints += len(probe.Points)
		for k := 1; k <= len(probe.Points); k++ {
			c := cfg
			c.K, c.Point = k, probe.Points[k-1]
			if !ev.Each(col, "crash-points", c, check, known) {
				return
			}
		}
	}
	col.Exhaustive = true
	col.ExhScope = fmt.Sprintf("every instrumented point index (%d in total) of every listed (shape, tx-mode, directives) configuration", npoints)
}

func TestReplay(t *testing.T) {
	ev.ReplayFile(t, "C10", func(_ string, c Case) error { _, err := checkCase(c); return err })
}
