// Package c10: `migrate apply` is crash-consistent at every point, per transaction mode.
package c10

import (
	"fmt"
	"os"
	"strings"

	"verif/cli"
	"verif/sqliteref"
)

type Case struct {
	Shape      []int    `json:"shape"`      // journal statements per file (file 0 is the init file and not listed here)
	Mode       string   `json:"mode"`       // --tx-mode: file | all | none
	Directives []string `json:"directives"` // per file: "" | "none" | "file" (atlas:txmode directive)
	Checkpoint int      `json:"checkpoint,omitempty"` // 1-based index of the journal file that is a checkpoint (0 = none): a fresh database starts there, earlier files never run
	Earlier    []int    `json:"earlier,omitempty"`    // 1-based indexes of further checkpoint files before Checkpoint (skipped like every other earlier file)
	Late       int      `json:"late,omitempty"`       // 1-based index of a file that is added only after the others were applied; the crashed run and the re-run use --exec-order non-linear
	K          int      `json:"k"`          // crash at the K-th instrumented point reached (0 = probe run without crash)
	Point      string   `json:"point"`      // name of that point (from the probe; informational)
}

func id(f, j int) int { return (f+1)*10 + j + 1 }

func (c Case) files() map[string]string {
	out := map[string]string{"0_init.sql": "CREATE TABLE IF NOT EXISTS journal (id integer);\n"}
	for f, n := range c.Shape {
		var b strings.Builder
		if f < len(c.Directives) && c.Directives[f] != "" {
			b.WriteString("-- atlas:txmode " + c.Directives[f] + "\n\n")
		}
		earlier := false
		for _, e := range c.Earlier {
			earlier = earlier || e == f+1
		}
		if c.Checkpoint == f+1 || earlier {
			// a checkpoint holds the whole schema: it creates the journal itself
			b.WriteString("-- atlas:checkpoint\n\nCREATE TABLE IF NOT EXISTS journal (id integer);\n")
		}
		for j := 0; j < n; j++ {
			fmt.Fprintf(&b, "INSERT INTO journal (id) VALUES (%d);\n", id(f, j))
		}
		out[fmt.Sprintf("%d_f.sql", f+1)] = b.String()
	}
	return out
}

// skipped: files before the checkpoint never run on a fresh database.
func (c Case) skipped(f int) bool { return c.Checkpoint > 0 && f < c.Checkpoint-1 }

// extra is the number of statements of file f that precede its journal INSERTs.
func (c Case) extra(f int) int {
	if c.Checkpoint == f+1 {
		return 1
	}
	return 0
}

// effective transaction mode of file f (0-based among the journal files).
func (c Case) modeOf(f int) string {
	if f < len(c.Directives) && c.Directives[f] != "" {
		return c.Directives[f]
	}
	return c.Mode
}

type state struct {
	hasJournal bool
	count      map[int]int
	order      []int
	revs       map[string][3]int // version -> applied, total, hasError
	hasRevs    bool
}

func read(path string) (state, error) {
	st := state{count: map[int]int{}, revs: map[string][3]int{}}
	db, err := sqliteref.OpenFile(path)
	if err != nil {
		return st, err
	}
	defer db.Close()
	names, err := sqliteref.QueryStrings(db, "SELECT name FROM sqlite_master WHERE type = 'table'")
	if err != nil {
		return st, err
	}
	for _, n := range names {
		switch n {
		case "journal":
			st.hasJournal = true
		case "atlas_schema_revisions":
			st.hasRevs = true
		}
	}
	if st.hasJournal {
		rows, err := db.Query("SELECT id FROM journal ORDER BY rowid")
		if err != nil {
			return st, err
		}
		for rows.Next() {
			var x int
			rows.Scan(&x)
			st.count[x]++
			st.order = append(st.order, x)
		}
		rows.Close()
	}
	if st.hasRevs {
		rows, err := db.Query("SELECT version, applied, total, IFNULL(error, '') FROM atlas_schema_revisions")
		if err != nil {
			return st, err
		}
		for rows.Next() {
			var v, e string
			var a, t int
			rows.Scan(&v, &a, &t, &e)
			he := 0
			if e != "" {
				he = 1
			}
			st.revs[v] = [3]int{a, t, he}
		}
		rows.Close()
	}
	return st, nil
}

// Outcome for classification / the probe.
type Outcome struct {
	Points  []string // probe: the sequence of points reached
	Crashed bool
}

func checkCase(c Case) (Outcome, error) {
	var out Outcome
	sb, err := cli.NewSandbox()
	if err != nil {
		return out, fmt.Errorf("harness: %v", err)
	}
	defer sb.Close()
	lateName := fmt.Sprintf("%d_f.sql", c.Late)
	for n, body := range c.files() {
		if c.Late > 0 && n == lateName {
			continue
		}
		sb.WriteFile("m/"+n, body)
	}
	if r := sb.Run("migrate", "hash", "--dir", "file://m"); r.Code != 0 {
		return out, fmt.Errorf("harness: %v", r)
	}
	dbp := sb.Path("db.sqlite")
	args := []string{"migrate", "apply", "--dir", "file://m", "--url", "sqlite://" + dbp, "--tx-mode", c.Mode}
	if c.Late > 0 {
		// everything but the late file is applied first; then the file appears, out of order
		if r := sb.Run(args...); r.Code != 0 {
			return out, fmt.Errorf("harness: first phase failed: %v", r)
		}
		sb.WriteFile("m/"+lateName, c.files()[lateName])
		if r := sb.Run("migrate", "hash", "--dir", "file://m"); r.Code != 0 {
			return out, fmt.Errorf("harness: %v", r)
		}
		args = append(args, "--exec-order", "non-linear")
	}
	logp := sb.Path("points.log")
	env := []string{"VERIF_POINT_LOG=" + logp}
	if c.K > 0 {
		env = append(env, fmt.Sprintf("VERIF_CRASH_AT=*:%d", c.K))
	}
	r1 := sb.RunEnv(env, args...)
	if b, err := os.ReadFile(logp); err == nil {
		for _, l := range strings.Split(strings.TrimSpace(string(b)), "\n") {
			if f := strings.Fields(l); len(f) >= 2 {
				out.Points = append(out.Points, f[1])
			}
		}
	}
	if c.K == 0 {
		if r1.Code != 0 {
			return out, fmt.Errorf("probe run (no crash) failed: %v", r1)
		}
	} else {
		if r1.Code != 137 {
			return out, fmt.Errorf("crash point %d was not reached (exit %d): %v", c.K, r1.Code, r1)
		}
		out.Crashed = true
	}
	mid, err := read(dbp)
	if err != nil {
		return out, fmt.Errorf("harness: reading the database after the crash: %v", err)
	}
	crashPoint := ""
	if c.K > 0 && c.K <= len(out.Points) {
		crashPoint = out.Points[c.K-1]
	}
	// ---- right after the crash
	// (1) the revision table never records a statement whose effect is not in the database
	if a := mid.revs["0"][0]; a > 0 && !mid.hasJournal {
		return out, fmt.Errorf("after crash at point %d (%s): revision 0 claims %d statements but the journal table does not exist", c.K, crashPoint, a)
	}
	for f, n := range c.Shape {
		rv, ok := mid.revs[fmt.Sprint(f+1)]
		if !ok {
			continue
		}
		if c.skipped(f) {
			return out, fmt.Errorf("after crash at point %d (%s): file %d precedes the checkpoint but has a revision %v", c.K, crashPoint, f+1, rv)
		}
		if rv[0] > n+c.extra(f) {
			return out, fmt.Errorf("after crash at point %d (%s): revision %d claims %d of %d statements", c.K, crashPoint, f+1, rv[0], n+c.extra(f))
		}
		for j := 0; j < rv[0]-c.extra(f); j++ {
			if mid.count[id(f, j)] == 0 {
				return out, fmt.Errorf("after crash at point %d (%s): revision %d claims %d statements but journal id %d is absent (journal %v)", c.K, crashPoint, f+1, rv[0], id(f, j), mid.order)
			}
		}
	}
	// (2) in file / all modes a crash never leaves a file half applied
	present := 0
	for f, n := range c.Shape {
		got := 0
		for j := 0; j < n; j++ {
			if mid.count[id(f, j)] > 0 {
				got++
			}
		}
		present += got
		if c.skipped(f) && got != 0 {
			return out, fmt.Errorf("after crash at point %d (%s): file %d precedes the checkpoint but %d of its statements ran (journal %v)", c.K, crashPoint, f+1, got, mid.order)
		}
		if m := c.modeOf(f); (m == "file" || m == "all") && got != 0 && got != n {
			return out, fmt.Errorf("after crash at point %d (%s) in tx-mode %s: file %d is half applied (%d of %d statements; journal %v)", c.K, crashPoint, m, f+1, got, n, mid.order)
		}
	}
	if c.Mode == "all" && c.K > 0 {
		total := 0
		for f, n := range c.Shape {
			if !c.skipped(f) {
				total += n
			}
		}
		if c.Late > 0 {
			// the other files were applied (and committed) by an earlier run: the crashed run's transaction holds the late file only
			total, present = c.Shape[c.Late-1], 0
			for j := 0; j < c.Shape[c.Late-1]; j++ {
				if mid.count[id(c.Late-1, j)] > 0 {
					present++
				}
			}
		}
		if present != 0 && present != total {
			return out, fmt.Errorf("after crash at point %d (%s) in tx-mode all: %d of %d statements are visible (journal %v)", c.K, crashPoint, present, total, mid.order)
		}
		if present == total && total > 0 && crashPoint != "after_commit" {
			return out, fmt.Errorf("after crash at point %d (%s) in tx-mode all: everything is visible although the crash was before the commit returned", c.K, crashPoint)
		}
	}
	// ---- run the same command again
	sb.ClearLocks()
	r2 := sb.Run(args...)
	if r2.Code != 0 {
		return out, fmt.Errorf("re-running the same command after a crash at point %d (%s) does not complete the migration: %v\n journal after crash: %v revisions: %v", c.K, crashPoint, r2, mid.order, mid.revs)
	}
	fin, err := read(dbp)
	if err != nil {
		return out, fmt.Errorf("harness: %v", err)
	}
	var lastMid int
	if len(mid.order) > 0 {
		lastMid = mid.order[len(mid.order)-1]
	}
	dups := 0
	for f, n := range c.Shape {
		for j := 0; j < n; j++ {
			x := id(f, j)
			switch cnt := fin.count[x]; {
			case c.skipped(f) && cnt == 0:
			case c.skipped(f):
				return out, fmt.Errorf("after crash at point %d (%s) and re-run: statement id %d of a file that precedes the checkpoint was executed (journal %v)", c.K, crashPoint, x, fin.order)
			case cnt == 0:
				return out, fmt.Errorf("after crash at point %d (%s) and re-run: statement id %d is lost (journal %v)", c.K, crashPoint, x, fin.order)
			case cnt == 1:
			case cnt == 2 && c.modeOf(f) == "none" && x == lastMid:
				dups++
			default:
				return out, fmt.Errorf("after crash at point %d (%s) and re-run in tx-mode %s: statement id %d executed %d times (journal %v; in flight at the crash: %d)", c.K, crashPoint, c.modeOf(f), x, cnt, fin.order, lastMid)
			}
		}
	}
	if dups > 1 {
		return out, fmt.Errorf("after crash and re-run: %d statements executed twice", dups)
	}
	for f, n := range c.Shape {
		rv, ok := fin.revs[fmt.Sprint(f+1)]
		if c.skipped(f) {
			if ok {
				return out, fmt.Errorf("after crash at point %d (%s) and re-run: file %d precedes the checkpoint but has revision %v", c.K, crashPoint, f+1, rv)
			}
			continue
		}
		if w := n + c.extra(f); !ok || rv[0] != w || rv[1] != w || rv[2] != 0 {
			return out, fmt.Errorf("after crash at point %d (%s) and re-run: revision %d is %v, want complete %d/%d without error", c.K, crashPoint, f+1, rv, w, w)
		}
	}
	return out, nil
}
