package c07

import (
	"fmt"
	"sort"
	"strings"
	"testing"

	"pgregory.net/rapid"

	"verif/c02"
	"verif/ev"
)

func anyInject(c Case, pred func(string) bool) bool {
	for _, in := range c.Injects {
		if pred(in.S) {
			return true
		}
	}
	return false
}

func ownQuote(d string) string {
	if d == "postgres" {
		return `"`
	}
	return "`"
}

var known = ev.Matcher[Case]{
	"thirdparty-mysql-backslash": func(c Case, err error) bool {
		if c.Dialect != "mysql" || c.Formatter == "atlas" {
			return false
		}
		for _, in := range c.Injects {
			if strings.HasSuffix(in.Site, "comment") && strings.ContainsAny(in.S, "\"\\") {
				return true
			}
		}
		return false
	},
	"ident-own-quote": func(c Case, err error) bool {
		for _, in := range c.Injects {
			if strings.HasSuffix(in.Site, "-name") && strings.Contains(in.S, ownQuote(c.Dialect)) {
				return true
			}
		}
		return false
	},
	"goose-semicolon-newline": func(c Case, err error) bool {
		return c.Formatter == "goose" && anyInject(c, func(s string) bool { return strings.Contains(s, ";\n") }) &&
			(strings.Contains(err.Error(), "ATLAS_DELIM_END") || strings.Contains(err.Error(), "reads back as"))
	},
}

const rule = "plans of mysql/postgres/sqlite.DefaultPlan over the feature-rich base schema (create all / drop all / 1-5 catalogue edits) with 0-3 adversarial strings injected into literal positions " +
	"(table, column and index comments, string defaults, check expression literals, enum values) and, as separate classes, into identifiers (column, index, table names, incl. the table whose name opens the first comment line of the file); " +
	"x indent {'', two spaces, tab} x formatter {atlas, golang-migrate, goose, flyway, liquibase, dbmate} x (atlas only) delimiter {default, ;;, \\n\\n, $$, //}. " +
	"Files are written to a directory, read back with the matching directory type and migrate.FileStmts(driver, file) — the path `migrate apply` uses. " +
	"Oracle: same statement count, same order, text == Cmd (+ the kept ';' under the default delimiter), nothing from comment lines becomes a statement. " +
	"non-trivial = >=1 injected string containing a hostile character; distinct key = (dialect, formatter, delimiter, scenario, hostile-class set, sites)"

var hostile = []string{"plain", "it's", `say "hi"`, `one " dq`, `\" escaped dq`, "end quote'", `"`, "'", "back`tick", "semi;colon", "semi;\ncolon;", "dash -- dash", "/* open", "close */", "# hash", "$$ dollars $$", `back\slash`, `trailing\`,
	"new\nline", "DELIMITER $$", "GO", "-- atlas:delimiter ;;", "atlas:delimiter x", " atlas:txmode none", "atlas:checkpoint", "countdown", "Downloads", "StatementEnd", "-- +goose Down", "-- migrate:down", "(paren", "paren)", "two\n\nnewlines", "tab\there", "ünï", "%s%d", "';DROP TABLE x;--"}

func classOf(s string) string {
	var cs []string
	for _, x := range []struct{ n, sub string }{{"sq", "'"}, {"dq", `"`}, {"bq", "`"}, {"semi", ";"}, {"dashdash", "--"}, {"cstart", "/*"}, {"cend", "*/"}, {"hash", "#"}, {"dollar", "$$"},
		{"bs", `\`}, {"nl", "\n"}, {"delim", "DELIMITER"}, {"paren", "("}, {"paren", ")"}} {
		if strings.Contains(s, x.sub) {
			cs = append(cs, x.n)
		}
	}
	return strings.Join(cs, "+")
}

var litSites = []string{"table-comment", "column-comment", "default", "default-double-quoted", "check", "check-raw", "enum-value", "enum-value-first", "enum-value-middle", "index-comment"}
var identSites = []string{"column-name", "index-name", "table-name", "first-table-name"}
var formatters = []string{"atlas", "golang-migrate", "goose", "flyway", "liquibase", "dbmate"}

func genCase(idents bool) func(t *rapid.T) Case {
	return func(t *rapid.T) Case {
		d := rapid.SampledFrom([]string{"mysql", "postgres", "sqlite"}).Draw(t, "dialect")
		c := Case{Dialect: d, Scenario: rapid.SampledFrom([]string{"create", "create", "drop", "modify"}).Draw(t, "scenario"),
			Indent: rapid.SampledFrom([]string{"", "  ", "\t"}).Draw(t, "indent"), Formatter: rapid.SampledFrom(formatters).Draw(t, "formatter")}
		if c.Formatter == "atlas" {
			c.Delimiter = rapid.SampledFrom([]string{"", "", ";;", "\n\n", "$$", "//", "\t$$", ";\t;", "\n--\tend\n", "\r\n\r\n"}).Draw(t, "delimiter")
			c.Checkpoint = rapid.IntRange(0, 3).Draw(t, "checkpoint") == 0
		}
		used := map[string]bool{}
		for n := rapid.IntRange(0, 3).Draw(t, "ninject"); n > 0; n-- {
			sites := litSites
			if idents {
				sites = identSites
			}
			site := rapid.SampledFrom(sites).Draw(t, "site")
			if used[site] || (d == "sqlite" && strings.HasSuffix(site, "comment")) {
				continue
			}
			if site == "first-table-name" && c.Scenario == "modify" {
				continue // the edit catalogue addresses the first table by its name; the name matters for files that create it
			}
			used[site] = true
			c.Injects = append(c.Injects, Inject{Site: site, S: rapid.SampledFrom(hostile).Draw(t, "hostile")})
		}
		if c.Scenario == "modify" {
			base := c02.Base(d)
			inject(d, &base, c.Injects)
			sites := c02.Sites(d, base)
			perm := rapid.Permutation(sites).Draw(t, "sites")
			n := rapid.IntRange(1, 5).Draw(t, "nedits")
			var chosen []c02.Site
			for _, s := range perm {
				if len(chosen) == n {
					break
				}
				ok := true
				for _, x := range chosen {
					if c02.Conflict(x, s) {
						ok = false
					}
				}
				if ok {
					chosen = append(chosen, s)
					c.Edits = append(c.Edits, s.E)
				}
			}
		}
		return c
	}
}

func mkCheck(col *ev.Collector) func(Case) error {
	return func(c Case) error {
		out, err := checkCase(c)
		if out.Rejected != "" {
			col.Reject(out.Rejected)
			return err
		}
		col.Class(c.Dialect + "/" + c.Formatter)
		if c.Checkpoint {
			col.Class(fmt.Sprintf("atlas/checkpoint-file/delimiter=%v", c.Delimiter != ""))
		}
		if out.Imported {
			col.Class("import/" + c.Formatter)
		}
		var cls, sites []string
		for _, in := range c.Injects {
			if k := classOf(in.S); k != "" {
				cls = append(cls, k)
			}
			sites = append(sites, in.Site)
			col.Class("site/" + in.Site)
		}
		sort.Strings(cls)
		sort.Strings(sites)
		if len(cls) > 0 && out.Stmts > 0 {
			col.NonTrivial(fmt.Sprintf("%s|%s|%q|%s|%s|%s", c.Dialect, c.Formatter, c.Delimiter, c.Scenario, strings.Join(cls, ","), strings.Join(sites, ",")))
		}
		col.Sample(c.Dialect+"/"+c.Formatter, c)
		return err
	}
}

func TestCheck(t *testing.T) {
	col := ev.New("C07", "exploration", rule)
	defer col.Finish()
	check := mkCheck(col)
	// PostgreSQL enum values next to an inserted value are named by its BEFORE / AFTER clause: every hostile string as
	// first / middle / last value x a value inserted at every position x every formatter
	for _, h := range hostile {
		for _, site := range []string{"enum-value-first", "enum-value-middle", "enum-value"} {
			base := c02.Base("postgres")
			ins := []Inject{{Site: site, S: h}}
			inject("postgres", &base, ins)
			for _, st := range c02.Sites("postgres", base) {
				if st.E.Kind != "enum-insert-value" && st.E.Kind != "enum-add-value" || st.E.Obj != "mood" {
					continue
				}
				for fi, f := range formatters {
					c := Case{Dialect: "postgres", Scenario: "modify", Edits: []c02.EditRef{st.E}, Injects: ins, Indent: []string{"", "  "}[fi%2], Formatter: f}
					if !ev.Each(col, "enum-position-clauses", c, check, known) {
						return
					}
				}
			}
		}
	}
	// a column whose name holds a quote character becomes a serial one: its name is part of the sequence name, which the plan
	// writes as an identifier and, inside nextval('...'), as a string
	for _, hs := range []string{"it's", "semi;colon", "dash -- dash", "back\\slash"} {
		for fi, f := range formatters {
			c := Case{Dialect: "postgres", Scenario: "modify", Edits: []c02.EditRef{{Kind: "modify-type", Table: "users", Obj: "c" + hs, Arg: "serial"}},
				Injects: []Inject{{Site: "column-name", S: hs}}, Indent: []string{"", "  "}[fi%2], Formatter: f}
			if !ev.Each(col, "serial-over-hostile-column-name", c, check, known) {
				return
			}
		}
	}
	if !ev.Rapid(t, col, "literals", col.N(5000, 500000), genCase(false), check, known) {
		return
	}
	if !ev.Rapid(t, col, "identifiers", col.N(1500, 150000), genCase(true), check, known) {
		return
	}
	genImport := func(t *rapid.T) Case {
		c := genCase(false)(t)
		if c.Formatter == "atlas" {
			c.Formatter, c.Delimiter = rapid.SampledFrom(formatters[1:]).Draw(t, "fmt2"), ""
		}
		c.Import = true
		return c
	}
	ev.Rapid(t, col, "import", col.N(40, 3000), genImport, check, known)
}

func TestReplay(t *testing.T) {
	ev.ReplayFile(t, "C07", func(_ string, c Case) error { _, err := checkCase(c); return err })
}
