// Package c07: what is planned is what is executed — plan -> file -> statements round-trips.
package c07

import (
	"context"
	"fmt"
	"os"
	"path/filepath"
	"strings"

	"ariga.io/atlas/sql/migrate"
	"ariga.io/atlas/sql/mysql"
	"ariga.io/atlas/sql/postgres"
	"ariga.io/atlas/sql/schema"
	"ariga.io/atlas/sql/sqlite"
	"ariga.io/atlas/sql/sqltool"

	"verif/c02"
	"verif/cli"
	"verif/gm"
)

// Inject places one hostile string at one site of the base schema.
type Inject struct {
	Site string `json:"site"` // table-comment | column-comment | default | check | enum-value | index-comment | column-name | table-name | index-name
	S    string `json:"s"`
}

type Case struct {
	Dialect   string        `json:"dialect"`
	Scenario  string        `json:"scenario"` // create | drop | modify
	Edits     []c02.EditRef `json:"edits"`
	Injects   []Inject      `json:"injects"`
	Indent    string        `json:"indent"`
	Formatter string        `json:"formatter"` // atlas | golang-migrate | goose | flyway | liquibase | dbmate
	Delimiter string        `json:"delimiter"` // atlas formatter only ("" = default)
	Import    bool          `json:"import"`    // third-party formats: also run the real `atlas migrate import` and compare
	// Checkpoint (atlas format): the plan is written with Planner.WriteCheckpoint (a checkpoint file with a tag) instead of WritePlan
	Checkpoint bool `json:"checkpoint,omitempty"`
}

func planner(d string) migrate.PlanApplier {
	switch d {
	case "mysql":
		return mysql.DefaultPlan
	case "postgres":
		return postgres.DefaultPlan
	}
	return sqlite.DefaultPlan
}

func driver(d string) migrate.Driver {
	switch d {
	case "mysql":
		return (*mysql.Driver)(nil)
	case "postgres":
		return (*postgres.Driver)(nil)
	}
	return (*sqlite.Driver)(nil)
}

func lit(d, s string) string {
	// a quoted SQL string literal the way an inspector would hand a default / the user writes it in HCL
	if d == "mysql" { // backslash is an escape character in MySQL string literals
		s = strings.ReplaceAll(s, `\`, `\\`)
	}
	return "'" + strings.ReplaceAll(s, "'", "''") + "'"
}

// inject applies the hostile strings to the model.
func inject(d string, m *gm.Schema, ins []Inject) {
	users := m.Table("users")
	for _, in := range ins {
		switch in.Site {
		case "table-comment":
			users.Comment = in.S
		case "column-comment":
			users.Col("uname").Comment = in.S
		case "default":
			users.Col("ufree2").Default = lit(d, in.S)
		case "default-double-quoted":
			// SQLite: a string default written as a double-quoted text (the inspector returns it as written)
			if d == "sqlite" && !strings.ContainsAny(in.S, "\\") {
				users.Col("ufree2").Default = `"` + strings.ReplaceAll(in.S, `"`, `""`) + `"`
			}
		case "check":
			q := `"ufree2"`
			if d == "mysql" {
				q = "`ufree2`"
			}
			users.Checks = append(users.Checks, gm.Check{Name: "ck_hostile", Expr: q + " <> " + lit(d, in.S)})
		case "check-raw":
			// an expression with operators made of the characters that start comments or quotes elsewhere, outside any quotes
			raws := map[string][]string{
				"postgres": {`("uname" #>> '{a,b}') IS NOT NULL`, `("age" # 3) > 0`, `("uname" #- '{a}') IS NOT NULL`, `("uname" #> '{a}') IS NOT NULL AND "age" > 0`, `"age" @> 1`, `("age" <-> 3) < 1`},
				"mysql":    {"(`age` ^ 3) > 0", "NOT (`age` <=> 3)", "(`age` DIV 2) > 0", "(`age` -> '$.a') IS NULL"},
				"sqlite":   {`("age" -> '$.a') IS NULL`, `("age" ->> '$.a') IS NULL`, `("age" % 2) = 0`},
			}[d]
			users.Checks = append(users.Checks, gm.Check{Name: "ck_raw", Expr: raws[len(in.S)%len(raws)]})
		case "enum-value", "enum-value-first", "enum-value-middle":
			if d == "postgres" {
				for i := range m.Enums {
					if m.Enums[i].Name == "mood" {
						vs := m.Enums[i].Values
						switch in.Site {
						case "enum-value-first":
							m.Enums[i].Values = append([]string{in.S}, vs...)
						case "enum-value-middle":
							m.Enums[i].Values = append(append(append([]string{}, vs[:1]...), in.S), vs[1:]...)
						default:
							m.Enums[i].Values = append(vs, in.S)
						}
					}
				}
			}
		case "index-comment":
			users.Indexes[2].Comment = in.S
		case "column-name":
			users.Col("ufree1").Name = "c" + in.S
		case "index-name":
			users.Indexes[0].Name = "i" + in.S
		case "table-name":
			lg := m.Table("logs")
			lg.Name = "t" + in.S
		case "first-table-name":
			// the first table of the schema: its name lands in the comment that opens a file creating the schema
			old, name := m.Tables[0].Name, "f"+in.S
			m.Tables[0].Name = name
			for ti := range m.Tables {
				for fi := range m.Tables[ti].FKs {
					if m.Tables[ti].FKs[fi].RefTable == old {
						m.Tables[ti].FKs[fi].RefTable = name
					}
				}
			}
		}
	}
}

type Outcome struct {
	Stmts    int
	Rejected string
	Imported bool
}

func checkCase(c Case) (Outcome, error) {
	var out Outcome
	base := c02.Base(c.Dialect)
	inject(c.Dialect, &base, c.Injects)
	edited := base.Clone()
	for _, e := range c.Edits {
		if _, err := c02.Apply(c.Dialect, &edited, e); err != nil {
			out.Rejected = "edit not applicable after injection"
			return out, nil
		}
	}
	from, err := gm.Build(c.Dialect, base)
	if err != nil {
		return out, fmt.Errorf("harness: %v", err)
	}
	to, err := gm.Build(c.Dialect, edited)
	if err != nil {
		return out, fmt.Errorf("harness: %v", err)
	}
	empty := gm.Empty(c.Dialect, base)
	differ := gm.Differ(c.Dialect)
	var changes []schema.Change
	switch c.Scenario {
	case "create":
		changes, err = differ.SchemaDiff(empty, to, schema.DiffNormalized())
	case "drop":
		changes, err = differ.SchemaDiff(from, empty, schema.DiffNormalized())
	default:
		changes, err = differ.SchemaDiff(from, to, schema.DiffNormalized())
	}
	if err != nil {
		return out, fmt.Errorf("harness: diff: %v", err)
	}
	plan, err := planner(c.Dialect).PlanChanges(context.Background(), "p", changes, func(o *migrate.PlanOptions) {
		o.Indent = c.Indent
		o.SchemaQualifier = new(string)
	})
	if err != nil {
		out.Rejected = "plan-time refusal"
		return out, nil
	}
	if len(plan.Changes) == 0 {
		return out, nil
	}
	plan.Version, plan.Name = "20240101000000", "p"
	out.Stmts = len(plan.Changes)
	var f migrate.Formatter
	switch c.Formatter {
	case "atlas":
		f = migrate.DefaultFormatter
		if c.Delimiter != "" {
			plan.Delimiter = c.Delimiter
		}
	case "golang-migrate":
		f = sqltool.GolangMigrateFormatter
	case "goose":
		f = sqltool.GooseFormatter
	case "flyway":
		f = sqltool.FlywayFormatter
	case "liquibase":
		f = sqltool.LiquibaseFormatter
	case "dbmate":
		f = sqltool.DBMateFormatter
	default:
		return out, fmt.Errorf("harness: formatter %q", c.Formatter)
	}
	files, err := f.Format(plan)
	if err != nil {
		return out, fmt.Errorf("%s: Format failed: %v", c.Formatter, err)
	}
	base0 := os.Getenv("VERIF_SCRATCH")
	if base0 == "" {
		base0 = os.TempDir()
	}
	dirp, err := os.MkdirTemp(base0, "c07")
	if err != nil {
		return out, fmt.Errorf("harness: %v", err)
	}
	defer os.RemoveAll(dirp)
	if c.Checkpoint && c.Formatter == "atlas" {
		ld, err := migrate.NewLocalDir(dirp)
		if err != nil {
			return out, fmt.Errorf("harness: %v", err)
		}
		if err := migrate.NewPlanner(nil, ld).WriteCheckpoint(plan, "v1"); err != nil {
			return out, fmt.Errorf("atlas: WriteCheckpoint failed: %v", err)
		}
	} else {
		for _, fl := range files {
			if err := os.WriteFile(filepath.Join(dirp, fl.Name()), fl.Bytes(), 0o644); err != nil {
				return out, fmt.Errorf("harness: %v", err)
			}
		}
	}
	var dir migrate.Dir
	switch c.Formatter {
	case "atlas":
		dir, err = migrate.NewLocalDir(dirp)
	case "golang-migrate":
		dir, err = sqltool.NewGolangMigrateDir(dirp)
	case "goose":
		dir, err = sqltool.NewGooseDir(dirp)
	case "flyway":
		dir, err = sqltool.NewFlywayDir(dirp)
	case "liquibase":
		dir, err = sqltool.NewLiquibaseDir(dirp)
	case "dbmate":
		dir, err = sqltool.NewDBMateDir(dirp)
	}
	if err != nil {
		return out, fmt.Errorf("harness: %v", err)
	}
	read, err := dir.Files()
	if err != nil {
		return out, fmt.Errorf("%s: reading the directory back failed: %v", c.Formatter, err)
	}
	if len(read) != 1 {
		return out, fmt.Errorf("%s: expected one migration file to be read back, got %d", c.Formatter, len(read))
	}
	text := string(read[0].Bytes())
	stmts, err := migrate.FileStmts(driver(c.Dialect), read[0])
	if err != nil {
		return out, fmt.Errorf("%s/%s: the file written for the plan cannot be scanned back: %v\n--- file:\n%s", c.Dialect, c.Formatter, err, text)
	}
	var want []string
	for _, ch := range plan.Changes {
		w := ch.Cmd
		if c.Formatter != "atlas" || c.Delimiter == "" {
			w += ";"
		}
		want = append(want, w)
	}
	if len(stmts) != len(want) {
		return out, fmt.Errorf("%s/%s: planned %d statements, the file reads back as %d\n planned: %q\n read:    %q\n--- file:\n%s", c.Dialect, c.Formatter, len(want), len(stmts), want, stmts, text)
	}
	for i := range want {
		if stmts[i] != want[i] {
			return out, fmt.Errorf("%s/%s: statement %d differs after the round trip\n planned: %q\n read:    %q\n--- file:\n%s", c.Dialect, c.Formatter, i, want[i], stmts[i], text)
		}
	}
	if c.Import && c.Formatter != "atlas" {
		out.Imported = true
		return out, checkImport(c, dirp, stmts)
	}
	return out, nil
}

// checkImport runs the real `atlas migrate import` on the third-party directory and compares the statements of the
// resulting Atlas directory with the statements the source directory reads as.
func checkImport(c Case, src string, want []string) error {
	sb, err := cli.NewSandbox()
	if err != nil {
		return fmt.Errorf("harness: %v", err)
	}
	defer sb.Close()
	r := sb.Run("migrate", "import", "--from", "file://"+src+"?format="+c.Formatter, "--to", "file://"+sb.Path("dst"))
	if r.Code != 0 {
		return fmt.Errorf("%s: migrate import failed: %v", c.Formatter, r)
	}
	dst, err := migrate.NewLocalDir(sb.Path("dst"))
	if err != nil {
		return fmt.Errorf("%s: import produced no directory: %v", c.Formatter, err)
	}
	if err := migrate.Validate(dst); err != nil {
		return fmt.Errorf("%s: imported directory does not validate: %v", c.Formatter, err)
	}
	files, err := dst.Files()
	if err != nil || len(files) != 1 {
		return fmt.Errorf("%s: imported directory has %d files (err %v)", c.Formatter, len(files), err)
	}
	got, err := migrate.FileStmts(driver(c.Dialect), files[0])
	if err != nil {
		return fmt.Errorf("%s: imported file cannot be scanned: %v\n%s", c.Formatter, err, files[0].Bytes())
	}
	if len(got) != len(want) {
		return fmt.Errorf("%s: import changed the number of statements: %d -> %d\n source: %q\n imported: %q", c.Formatter, len(want), len(got), want, got)
	}
	for i := range want {
		if strings.TrimSuffix(got[i], ";") != strings.TrimSuffix(want[i], ";") {
			return fmt.Errorf("%s: import changed statement %d\n source:   %q\n imported: %q", c.Formatter, i, want[i], got[i])
		}
	}
	return nil
}
