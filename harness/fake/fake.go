// Package fake provides a recording migrate.Driver and a recording, fault-injecting
// migrate.RevisionReadWriter used by the executor-level properties (C09, C11, C12).
package fake

import (
	"context"
	"database/sql"
	"errors"
	"fmt"
	"sort"
	"time"

	"ariga.io/atlas/sql/migrate"
	"ariga.io/atlas/sql/schema"
)

// Driver records every ExecContext and fails the statements listed in FailStmt.
type Driver struct {
	migrate.Driver // nil: every method not overridden below must not be reached
	Log            []Exec
	// FailIf decides whether the statement fails (called with the text and the 0-based call index).
	FailIf func(text string, call int) bool
	Dirty  bool
	OnExec func(Exec)
	calls  int
}

// ResetCalls restarts the per-run call counter.
func (d *Driver) ResetCalls() { d.calls = 0 }

type Exec struct {
	Text string `json:"text"`
	OK   bool   `json:"ok"`
}

var ErrInjected = errors.New("injected statement failure")

func (d *Driver) ExecContext(_ context.Context, q string, _ ...any) (sql.Result, error) {
	i := d.calls
	d.calls++
	if d.FailIf != nil && d.FailIf(q, i) {
		d.Log = append(d.Log, Exec{q, false})
		if d.OnExec != nil {
			d.OnExec(Exec{q, false})
		}
		return nil, ErrInjected
	}
	d.Log = append(d.Log, Exec{q, true})
	if d.OnExec != nil {
		d.OnExec(Exec{q, true})
	}
	return nil, nil
}

func (d *Driver) QueryContext(context.Context, string, ...any) (*sql.Rows, error) {
	return nil, errors.New("fake: QueryContext not supported")
}

func (d *Driver) Lock(context.Context, string, time.Duration) (schema.UnlockFunc, error) {
	return func() error { return nil }, nil
}

func (d *Driver) Snapshot(context.Context) (migrate.RestoreFunc, error) {
	return func(context.Context) error { return nil }, nil
}

func (d *Driver) CheckClean(context.Context, *migrate.TableIdent) error {
	if d.Dirty {
		return &migrate.NotCleanError{Reason: "fake: dirty"}
	}
	return nil
}

// Revs is an in-memory revision table that stores deep copies and can fail chosen writes.
type Revs struct {
	M      map[string]*migrate.Revision
	Writes int // number of WriteRevision calls so far (failed ones included)
	// FailWrite decides whether write number n (0-based, global) fails. The row is not stored then.
	FailWrite func(n int, r *migrate.Revision) bool
	WriteLog  []migrate.Revision
	OnWrite   func(n int, r *migrate.Revision, failed bool)
}

var ErrWrite = errors.New("injected revision write failure")

func NewRevs() *Revs { return &Revs{M: map[string]*migrate.Revision{}} }

func cp(r *migrate.Revision) *migrate.Revision {
	c := *r
	c.PartialHashes = append([]string(nil), r.PartialHashes...)
	return &c
}

func (r *Revs) Ident() *migrate.TableIdent { return &migrate.TableIdent{Name: "atlas_schema_revisions"} }

func (r *Revs) ReadRevisions(context.Context) ([]*migrate.Revision, error) {
	vs := make([]string, 0, len(r.M))
	for v := range r.M {
		vs = append(vs, v)
	}
	sort.Strings(vs)
	out := make([]*migrate.Revision, 0, len(vs))
	for _, v := range vs {
		out = append(out, cp(r.M[v]))
	}
	return out, nil
}

func (r *Revs) ReadRevision(_ context.Context, v string) (*migrate.Revision, error) {
	if x, ok := r.M[v]; ok {
		return cp(x), nil
	}
	return nil, migrate.ErrRevisionNotExist
}

func (r *Revs) WriteRevision(_ context.Context, x *migrate.Revision) error {
	n := r.Writes
	r.Writes++
	failed := r.FailWrite != nil && r.FailWrite(n, x)
	if r.OnWrite != nil {
		r.OnWrite(n, x, failed)
	}
	if failed {
		return fmt.Errorf("%w (write #%d)", ErrWrite, n)
	}
	r.M[x.Version] = cp(x)
	r.WriteLog = append(r.WriteLog, *cp(x))
	return nil
}

func (r *Revs) DeleteRevision(_ context.Context, v string) error {
	delete(r.M, v)
	return nil
}

// Snapshot returns a deep copy of the table.
func (r *Revs) Snapshot() map[string]migrate.Revision {
	out := map[string]migrate.Revision{}
	for v, x := range r.M {
		out[v] = *cp(x)
	}
	return out
}
