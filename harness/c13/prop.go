// Package c13: failure atomicity follows the transaction mode; dry-run changes nothing.
package c13

import (
	"os"
	"fmt"
	"sort"
	"strconv"
	"strings"

	"verif/cli"
	"verif/sqliteref"
)

type Case struct {
	Shape      []int    `json:"shape"`      // statements per file (file 1..n); file 1's first statement creates the journal table
	FailF      int      `json:"fail_f"`     // 0-based file of the failing statement (-1 = none)
	FailJ      int      `json:"fail_j"`     // 0-based statement index inside that file
	Mode       string   `json:"mode"`       // --tx-mode
	Directives []string `json:"directives"` // per file atlas:txmode directive ("" none)
	Count      int      `json:"count"`      // apply count argument (0 = all)
	DryRun     bool     `json:"dry_run"`
	Schema     bool     `json:"schema"`     // `schema apply` scenario instead of `migrate apply`
	Variant    int      `json:"variant"`    // schema apply: which failing plan
	// FailKind 1: the failing statement violates a foreign key (the journal references itself, the URL carries _fk=1):
	// without a transaction the statement fails at once, inside one the violation is found when the file's transaction commits.
	FailKind int `json:"fail_kind,omitempty"`
	// Fail2J > FailJ: a second failing statement further down the same file. The first one is repaired and the directory
	// re-applied (stops at the second one), then the second one is repaired and the directory applied once more.
	Fail2J int `json:"fail2_j,omitempty"`
	CRLF   bool `json:"crlf,omitempty"` // files written with Windows line endings
	// Baseline > 0 (dry runs): the database already holds a user table and the command carries --baseline <version of file Baseline>
	Baseline int `json:"baseline,omitempty"`
	// Prompt (schema apply): no --auto-approve; the confirmation prompt is answered with Enter (= Apply) on standard input
	Prompt bool `json:"prompt,omitempty"`
	// Ckpt: 0-based indexes of the files that are checkpoints. A fresh database starts at the last one (which creates the
	// journal itself, IF NOT EXISTS, as its first statement); the files before it never run and are never recorded.
	Ckpt []int `json:"ckpt,omitempty"`
}

func (c Case) isCk(f int) bool {
	for _, k := range c.Ckpt {
		if k == f {
			return true
		}
	}
	return false
}

// first is the index of the first file that takes part in a run on a fresh database.
func (c Case) first() int {
	l := 0
	for _, k := range c.Ckpt {
		if k > l {
			l = k
		}
	}
	return l
}

func id(f, j int) int { return (f+1)*10 + j + 1 }

func stmt(f, j int, failing bool, kind int, ck bool) string {
	if ck && j == 0 {
		if failing {
			return "CREATE TABLE journal (id integer, id integer);\n" // fails: duplicate column name
		}
		return "CREATE TABLE IF NOT EXISTS journal (id integer);\n"
	}
	if f == 0 && j == 0 {
		if failing {
			return "CREATE TABLE journal (id integer, id integer);\n" // fails: duplicate column name
		}
		if kind == 1 {
			return "CREATE TABLE journal (id integer PRIMARY KEY, ref integer REFERENCES journal (id));\n"
		}
		return "CREATE TABLE journal (id integer);\n"
	}
	if failing && kind == 1 {
		return fmt.Sprintf("INSERT INTO journal (id, ref) VALUES (%d, -1);\n", id(f, j)) // fails: no row -1
	}
	if failing {
		return fmt.Sprintf("INSERT INTO missing_table (id) VALUES (%d);\n", id(f, j))
	}
	return fmt.Sprintf("INSERT INTO journal (id) VALUES (%d);\n", id(f, j))
}

func (c Case) file(f int, fixed int) string {
	var b strings.Builder
	if f < len(c.Directives) && c.Directives[f] != "" {
		b.WriteString("-- atlas:txmode " + c.Directives[f] + "\n\n")
	}
	if c.isCk(f) {
		b.WriteString("-- atlas:checkpoint\n\n")
	}
	for j := 0; j < c.Shape[f]; j++ {
		failing := f == c.FailF && (fixed == 0 && j == c.FailJ || fixed <= 1 && c.Fail2J > 0 && j == c.Fail2J)
		b.WriteString(stmt(f, j, failing, c.FailKind, c.isCk(f)))
	}
	if c.CRLF {
		return strings.ReplaceAll(b.String(), "\n", "\r\n")
	}
	return b.String()
}

func (c Case) modeOf(f int) string {
	if f < len(c.Directives) && c.Directives[f] != "" {
		return c.Directives[f]
	}
	return c.Mode
}

// canon is the comparable state of the target database: journal ids in insertion order and the revision
// rows (version, applied, total, has error), plus the full schema text. Timestamps, durations and hashes are masked.
type canon struct {
	Journal []int
	Revs    []string
	Schema  string
	HasRevs bool
}

func (c canon) String() string {
	return fmt.Sprintf("journal=%v revisions=%v revtable=%v schema=[%s]", c.Journal, c.Revs, c.HasRevs, c.Schema)
}

func readCanon(path string) (canon, error) {
	var out canon
	db, err := sqliteref.OpenFile(path)
	if err != nil {
		return out, err
	}
	defer db.Close()
	ms, err := sqliteref.ReadMaster(db)
	if err != nil {
		return out, err
	}
	var sch []string
	has := map[string]bool{}
	for _, m := range ms {
		has[m.Name] = true
		if m.Tbl != "atlas_schema_revisions" {
			sch = append(sch, m.Type+" "+m.Name)
		}
	}
	sort.Strings(sch)
	out.Schema = strings.Join(sch, ",")
	out.HasRevs = has["atlas_schema_revisions"]
	if has["journal"] {
		rows, err := db.Query("SELECT id FROM journal ORDER BY rowid")
		if err != nil {
			return out, err
		}
		for rows.Next() {
			var x int
			rows.Scan(&x)
			out.Journal = append(out.Journal, x)
		}
		rows.Close()
	}
	if out.HasRevs {
		rows, err := db.Query("SELECT version, applied, total, IFNULL(error, '') <> '' FROM atlas_schema_revisions ORDER BY version")
		if err != nil {
			return out, err
		}
		for rows.Next() {
			var v string
			var a, t int
			var e bool
			rows.Scan(&v, &a, &t, &e)
			out.Revs = append(out.Revs, fmt.Sprintf("%s:%d/%d:err=%v", v, a, t, e))
		}
		rows.Close()
	}
	return out, nil
}

// expected computes the state the documented semantics prescribe after the (possibly failing) run.
func (c Case) expected() canon {
	var out canon
	first := c.first()
	limit := len(c.Shape)
	if c.Count > 0 && first+c.Count < limit {
		limit = first + c.Count
	}
	failing := c.FailF >= first && c.FailF < limit
	out.HasRevs = true
	rev := func(f, applied int, e bool) {
		out.Revs = append(out.Revs, fmt.Sprintf("%d:%d/%d:err=%v", f+1, applied, c.Shape[f], e))
	}
	journalExists := false
	addFile := func(f, upto int) {
		for j := 0; j < upto; j++ {
			if f == 0 && j == 0 || c.isCk(f) && j == 0 {
				journalExists = true
				continue
			}
			out.Journal = append(out.Journal, id(f, j))
		}
	}
	if !failing {
		for f := first; f < limit; f++ {
			addFile(f, c.Shape[f])
			rev(f, c.Shape[f], false)
		}
	} else if c.Mode == "all" {
		// exactly as before the command
	} else {
		for f := first; f < c.FailF; f++ {
			addFile(f, c.Shape[f])
			rev(f, c.Shape[f], false)
		}
		if c.modeOf(c.FailF) == "none" {
			addFile(c.FailF, c.FailJ) // exactly the successful prefix, recorded as such, with the error
			rev(c.FailF, c.FailJ, true)
		}
	}
	if journalExists {
		out.Schema = "table journal"
	}
	return out
}

type Outcome struct {
	Fired bool
	Class string
}

func checkCase(c Case) (Outcome, error) {
	if c.Schema {
		return checkSchemaApply(c)
	}
	var out Outcome
	sb, err := cli.NewSandbox()
	if err != nil {
		return out, fmt.Errorf("harness: %v", err)
	}
	defer sb.Close()
	write := func(fixed int) error {
		for f := range c.Shape {
			sb.WriteFile(fmt.Sprintf("m/%d_f.sql", f+1), c.file(f, fixed))
		}
		if r := sb.Run("migrate", "hash", "--dir", "file://m"); r.Code != 0 {
			return fmt.Errorf("harness: %v", r)
		}
		return nil
	}
	if err := write(0); err != nil {
		return out, err
	}
	dbp := sb.Path("db.sqlite")
	sqliteref.OpenFile(dbp) // lazily created by atlas as well
	url := "sqlite://" + dbp
	if c.FailKind == 1 {
		url += "?_fk=1"
	}
	args := []string{"migrate", "apply", "--dir", "file://m", "--url", url, "--tx-mode", c.Mode}
	if c.Count > 0 {
		args = append(args, strconv.Itoa(c.Count))
	}
	if c.DryRun && c.Baseline > 0 {
		db, err := sqliteref.OpenFile(dbp)
		if err != nil {
			return out, fmt.Errorf("harness: %v", err)
		}
		_, err = db.Exec("CREATE TABLE preexisting (id integer)")
		db.Close()
		if err != nil {
			return out, fmt.Errorf("harness: %v", err)
		}
		args = append(args, "--baseline", strconv.Itoa(c.Baseline))
	}
	before, err := readCanon(dbp)
	if err != nil {
		return out, fmt.Errorf("harness: %v", err)
	}
	if c.DryRun {
		r := sb.Run(append(args, "--dry-run")...)
		after, err := readCanon(dbp)
		if err != nil {
			return out, fmt.Errorf("harness: %v", err)
		}
		out.Class = "dry-run"
		if after.String() != before.String() {
			return out, fmt.Errorf("`migrate apply --dry-run` changed the database:\n before: %v\n after:  %v\n%v", before, after, r)
		}
		return out, nil
	}
	r1 := sb.Run(args...)
	want := c.expected()
	limit := len(c.Shape)
	if c.Count > 0 && c.first()+c.Count < limit {
		limit = c.first() + c.Count
	}
	failing := c.FailF >= c.first() && c.FailF < limit
	out.Fired = failing && (c.FailF > c.first() || c.FailJ > 0)
	got, err := readCanon(dbp)
	if err != nil {
		return out, fmt.Errorf("harness: %v", err)
	}
	if failing != (r1.Code != 0) {
		return out, fmt.Errorf("exit status %d but a failing statement in the window = %v: %v", r1.Code, failing, r1)
	}
	norm := func(c canon) string { c.HasRevs = true; return c.String() } // an absent revision table == an empty one
	if norm(got) != norm(want) {
		return out, fmt.Errorf("after the run (tx-mode %s, directives %v, failing statement file %d stmt %d, count %d) the database is\n   %v\n expected\n   %v\n%v", c.Mode, c.Directives, c.FailF+1, c.FailJ+1, c.Count, got, want, r1)
	}
	// a dry run on the database as it is now (revision table present, possibly a partial revision) changes nothing
	rd := sb.Run(append(append([]string{}, args...), "--dry-run")...)
	dry, err := readCanon(dbp)
	if err != nil {
		return out, fmt.Errorf("harness: %v", err)
	}
	if dry.String() != got.String() {
		return out, fmt.Errorf("`migrate apply --dry-run` after the run changed the database:\n before: %v\n after:  %v\n%v", got, dry, rd)
	}
	if !failing {
		return out, nil
	}
	// fix the file, re-hash, re-run: same final state as a run without failure
	argsAll := []string{"migrate", "apply", "--dir", "file://m", "--url", url, "--tx-mode", c.Mode}
	if c.Fail2J > 0 {
		// repair the first failing statement only: the re-run stops at the second one, as a first run failing there would
		if err := write(1); err != nil {
			return out, err
		}
		rm := sb.Run(argsAll...)
		mid, err := readCanon(dbp)
		if err != nil {
			return out, fmt.Errorf("harness: %v", err)
		}
		second := c
		second.FailJ, second.Fail2J, second.Count = c.Fail2J, 0, 0
		if rm.Code == 0 {
			return out, fmt.Errorf("the re-run with the second failing statement (file %d stmt %d) still in place exits 0: %v", c.FailF+1, c.Fail2J+1, rm)
		}
		if w := second.expected(); norm(mid) != norm(w) {
			return out, fmt.Errorf("after repairing the first failing statement and re-running (second failing statement: file %d stmt %d) the database is\n   %v\n expected\n   %v\n%v", c.FailF+1, c.Fail2J+1, mid, w, rm)
		}
		got = mid
	}
	if err := write(2); err != nil {
		return out, err
	}
	r2 := sb.Run(argsAll...)
	if r2.Code != 0 {
		return out, fmt.Errorf("after fixing the failing statement the re-run fails: %v\n state before the re-run: %v", r2, got)
	}
	fin, err := readCanon(dbp)
	if err != nil {
		return out, fmt.Errorf("harness: %v", err)
	}
	clean := c
	clean.FailF, clean.Count, clean.Fail2J = -1, 0, 0
	if w := clean.expected(); norm(fin) != norm(w) {
		return out, fmt.Errorf("after fixing the file and re-running, the database is\n   %v\n a run without failure gives\n   %v", fin, w)
	}
	// ... including the file hash each revision records: a run without failure records the hash the file has in atlas.sum
	if bad, err := staleHashes(dbp, sb.Path("m", "atlas.sum")); err != nil {
		return out, fmt.Errorf("harness: %v", err)
	} else if len(bad) > 0 {
		return out, fmt.Errorf("after fixing the file and re-running, the revisions of %v record a file hash that is not the one in atlas.sum (a run without failure records the hash of the file it applied)", bad)
	}
	return out, nil
}

// staleHashes lists the versions whose revision row records another file hash than atlas.sum holds for that file.
func staleHashes(dbp, sumPath string) ([]string, error) {
	b, err := os.ReadFile(sumPath)
	if err != nil {
		return nil, err
	}
	sums := map[string]string{} // version -> hash
	for _, l := range strings.Split(string(b), "\n")[1:] {
		if i := strings.LastIndex(l, " h1:"); i > 0 {
			name := l[:i]
			sums[strings.SplitN(name, "_", 2)[0]] = l[i+len(" h1:"):]
		}
	}
	db, err := sqliteref.OpenFile(dbp)
	if err != nil {
		return nil, err
	}
	defer db.Close()
	rows, err := db.Query("SELECT version, hash FROM atlas_schema_revisions ORDER BY version")
	if err != nil {
		return nil, err
	}
	defer rows.Close()
	var bad []string
	for rows.Next() {
		var v, h string
		if err := rows.Scan(&v, &h); err != nil {
			return nil, err
		}
		if want, ok := sums[v]; ok && strings.TrimPrefix(h, "h1:") != want {
			bad = append(bad, v)
		}
	}
	return bad, rows.Err()
}

// schema apply: an early statement succeeds, a later one fails on the data; default mode must be all-or-nothing.
func checkSchemaApply(c Case) (Outcome, error) {
	var out Outcome
	sb, err := cli.NewSandbox()
	if err != nil {
		return out, fmt.Errorf("harness: %v", err)
	}
	defer sb.Close()
	dbp := sb.Path("db.sqlite")
	db, err := sqliteref.OpenFile(dbp)
	if err != nil {
		return out, fmt.Errorf("harness: %v", err)
	}
	setup := []string{"CREATE TABLE t (a integer, b text)", "INSERT INTO t VALUES (1, 'x'), (1, 'y'), (NULL, 'z')", "CREATE TABLE keep (k integer)", "INSERT INTO keep VALUES (7)"}
	for _, s := range setup {
		if _, err := db.Exec(s); err != nil {
			db.Close()
			return out, fmt.Errorf("harness: %v", err)
		}
	}
	db.Close()
	var desired string
	switch c.Variant % 3 {
	case 0: // new table first (succeeds), then a unique index over duplicates (fails)
		desired = "CREATE TABLE t (a integer, b text);\nCREATE UNIQUE INDEX u_a ON t (a);\nCREATE TABLE keep (k integer);\nCREATE TABLE added (x integer);\n"
	case 1: // drop a table (succeeds), rebuild t with a NOT NULL column over NULL data (fails)
		desired = "CREATE TABLE t (a integer NOT NULL, b text);\n"
	default: // add a column (succeeds) and a unique index over duplicates (fails)
		desired = "CREATE TABLE t (a integer, b text, c integer);\nCREATE UNIQUE INDEX u_b ON t (a);\nCREATE TABLE keep (k integer, k2 integer);\n"
	}
	sb.WriteFile("schema.sql", desired)
	dump := func() (string, error) {
		d, err := sqliteref.OpenFile(dbp)
		if err != nil {
			return "", err
		}
		defer d.Close()
		return sqliteref.DataDump(d, sqliteref.DataDumpOptions{Rowid: true})
	}
	before, err := dump()
	if err != nil {
		return out, fmt.Errorf("harness: %v", err)
	}
	args := []string{"schema", "apply", "--url", "sqlite://" + dbp, "--to", "file://schema.sql", "--dev-url", "sqlite://dev?mode=memory"}
	if c.DryRun {
		args = append(args, "--dry-run")
	} else if !c.Prompt {
		args = append(args, "--auto-approve")
	}
	var r cli.Result
	if c.Prompt && !c.DryRun {
		r = sb.RunIn("\n", nil, args...)
		if !strings.Contains(r.Stdout+r.Stderr, "Apply") {
			return out, fmt.Errorf("harness: the confirmation prompt was not shown: %v", r)
		}
	} else {
		r = sb.Run(args...)
	}
	after, err := dump()
	if err != nil {
		return out, fmt.Errorf("harness: %v", err)
	}
	out.Fired = true
	out.Class = fmt.Sprintf("schema-apply/variant=%d/dry=%v/prompt=%v", c.Variant%3, c.DryRun, c.Prompt)
	if !c.DryRun && r.Code == 0 {
		return out, fmt.Errorf("harness: the engineered plan was expected to fail on the data: %v", r)
	}
	if before != after {
		return out, fmt.Errorf("`schema apply` (dry-run=%v, exit %d) must leave the database unchanged, but:\n before:\n%s\n after:\n%s\n%v", c.DryRun, r.Code, before, after, r)
	}
	return out, nil
}
