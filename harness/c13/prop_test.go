package c13

import (
	"regexp"
	"fmt"
	"strings"
	"testing"

	"pgregory.net/rapid"

	"verif/ev"
)

var reDryDiff = regexp.MustCompile("(?s)before: journal=\\[(.*?)\\] revisions=\\[\\] revtable=false schema=\\[(.*?)\\]\n after:  journal=\\[(.*?)\\] revisions=\\[\\] revtable=true schema=\\[(.*?)\\]\n")

var known = ev.Matcher[Case]{
	// only the creation of the empty revision table, on a database that had none, by a dry run
	"dry-run-creates-revision-table": func(c Case, err error) bool {
		m := reDryDiff.FindStringSubmatch(err.Error())
		return c.DryRun && !c.Schema && strings.Contains(err.Error(), "--dry-run` changed the database") && m != nil && m[1] == m[3] && m[2] == m[4]
	},
}

const rule = "real CLI on SQLite files. migrate apply: directories of 1-3 files x 1-3 statements (journal INSERTs; the first statement creates the journal table) x a failing statement at every (file, statement) position or none, failing either at once (missing table) or on a foreign-key violation with enforcement on (_fk=1: immediate without a transaction, found at commit inside one) " +
	"x tx-mode {file, all, none} x per-file atlas:txmode directives x optional count argument; directories with 1-3 checkpoint files (a fresh database starts at the last one) with a failure at every position from there on; every configuration also with --dry-run, and --dry-run --baseline <version> on a database that already holds a table. " +
	"schema apply: populated tables and desired schemas whose plan succeeds on an early statement and fails on the data later (unique index over duplicates, NOT NULL over NULLs), with --auto-approve, approved at the confirmation prompt (Enter on standard input) and with --dry-run. " +
	"Oracle (independent connection; journal rows in order, revision rows version/applied/total/error, schema objects; timestamps and hashes masked): file mode = state after the last completely applied file; all mode = state before the command; " +
	"none mode = exactly the successful prefix recorded with the error; after fixing the file and re-hashing the re-run reaches the state of a failure-free run (also with two failing statements in one file, repaired one at a time: the re-run in between stops at the second one exactly as a first run would); schema apply failure and every --dry-run leave the full data dump unchanged. " +
	"non-trivial = the injected failure fired with >=1 statement before it (or a dry-run / schema-apply scenario); distinct key = (shape, position, mode, directives, count, dry-run)"

func enumerate(thorough bool, f func(Case) bool) {
	shapes := [][]int{{2}, {2, 2}, {1, 3, 1}}
	if thorough {
		shapes = [][]int{{1}, {2}, {3}, {1, 1}, {2, 2}, {3, 1}, {1, 3, 1}, {2, 2, 2}, {3, 3, 3}}
	}
	for _, sh := range shapes {
		for _, mode := range []string{"file", "all", "none"} {
			pos := [][2]int{{-1, 0}}
			for fi, n := range sh {
				for j := 0; j < n; j++ {
					pos = append(pos, [2]int{fi, j})
				}
			}
			for _, p := range pos {
				counts := []int{0}
				if len(sh) > 1 {
					counts = append(counts, 1)
				}
				for _, cnt := range counts {
					for _, dry := range []bool{false, true} {
						if dry && (p[0] != -1 || cnt != 0) && !thorough {
							continue
						}
						if !f(Case{Shape: sh, FailF: p[0], FailJ: p[1], Mode: mode, Count: cnt, DryRun: dry}) {
							return
						}
						// a second failing statement further down the same file, repaired one at a time
						if !dry && p[0] >= 0 && cnt == 0 {
							for j2 := p[1] + 1; j2 < sh[p[0]]; j2++ {
								if !f(Case{Shape: sh, FailF: p[0], FailJ: p[1], Fail2J: j2, Mode: mode}) {
									return
								}
							}
						}
						// the same position failing on a foreign-key violation (enforcement on)
						if !dry && p[0] >= 0 && (p[0] > 0 || p[1] > 0) && !f(Case{Shape: sh, FailF: p[0], FailJ: p[1], Mode: mode, Count: cnt, FailKind: 1}) {
							return
						}
					}
				}
			}
		}
	}
	// per-file directives (not combinable with the global mode all)
	type dcfg struct {
		sh   []int
		mode string
		dirs []string
	}
	dcfgs := []dcfg{{[]int{2, 2}, "none", []string{"file", ""}}, {[]int{2, 2}, "file", []string{"none", ""}}, {[]int{2, 2, 2}, "none", []string{"", "file", ""}}}
	if thorough {
		dcfgs = append(dcfgs, dcfg{[]int{2, 2, 2}, "file", []string{"", "none", "none"}}, dcfg{[]int{3, 2}, "none", []string{"file", "file"}}, dcfg{[]int{2, 3}, "file", []string{"none", "none"}})
	}
	for _, d := range dcfgs {
		pos := [][2]int{{-1, 0}}
		for fi, n := range d.sh {
			for j := 0; j < n; j++ {
				pos = append(pos, [2]int{fi, j})
			}
		}
		for _, p := range pos {
			if !f(Case{Shape: d.sh, FailF: p[0], FailJ: p[1], Mode: d.mode, Directives: d.dirs}) {
				return
			}
			if p[0] >= 0 && (p[0] > 0 || p[1] > 0) && !f(Case{Shape: d.sh, FailF: p[0], FailJ: p[1], Mode: d.mode, Directives: d.dirs, FailKind: 1}) {
				return
			}
			// the same directory written with Windows line endings
			if !f(Case{Shape: d.sh, FailF: p[0], FailJ: p[1], Mode: d.mode, Directives: d.dirs, CRLF: true}) {
				return
			}
		}
	}
	// directories with checkpoint files: a fresh database starts at the last checkpoint; a failure inside it (or after it),
	// then fix and re-run, must end like a failure-free run
	type ccfg struct {
		sh []int
		ck []int
	}
	ccfgs := []ccfg{{[]int{2, 2, 2, 2, 2}, []int{1, 3}}, {[]int{1, 2, 2, 2}, []int{0, 1}}}
	if thorough {
		ccfgs = append(ccfgs, ccfg{[]int{2, 2, 2, 2, 2, 2}, []int{1, 3}}, ccfg{[]int{2, 3, 2, 3, 2}, []int{0, 2, 3}}, ccfg{[]int{2, 2, 2}, []int{2}})
	}
	for _, cc := range ccfgs {
		last := cc.ck[len(cc.ck)-1]
		for _, mode := range []string{"none", "file", "all"} {
			pos := [][2]int{{-1, 0}}
			for fi := last; fi < len(cc.sh); fi++ {
				for j := 0; j < cc.sh[fi]; j++ {
					pos = append(pos, [2]int{fi, j})
				}
			}
			for _, p := range pos {
				if !f(Case{Shape: cc.sh, FailF: p[0], FailJ: p[1], Mode: mode, Ckpt: cc.ck}) {
					return
				}
				if mode == "none" && !f(Case{Shape: cc.sh, FailF: p[0], FailJ: p[1], Mode: mode, Ckpt: cc.ck, CRLF: true}) {
					return
				}
			}
		}
	}
	// a dry run with --baseline on a database that already holds a table: nothing may be recorded
	for _, sh := range [][]int{{2, 2}, {1, 3, 1}} {
		for _, mode := range []string{"file", "all", "none"} {
			for b := 1; b <= len(sh); b++ {
				if !f(Case{Shape: sh, FailF: -1, Mode: mode, DryRun: true, Baseline: b}) {
					return
				}
			}
		}
	}
	for v := 0; v < 3; v++ {
		for _, dry := range []bool{false, true} {
			// the same plan approved at the confirmation prompt instead of with --auto-approve
			if !dry && !f(Case{Schema: true, Variant: v, FailF: -1, Prompt: true}) {
				return
			}
			if !f(Case{Schema: true, Variant: v, DryRun: dry, FailF: -1}) {
				return
			}
		}
	}
}

func genCase(t *rapid.T) Case {
	n := rapid.IntRange(1, 3).Draw(t, "files")
	c := Case{Mode: rapid.SampledFrom([]string{"file", "all", "none"}).Draw(t, "mode"), FailF: -1}
	for i := 0; i < n; i++ {
		c.Shape = append(c.Shape, rapid.IntRange(1, 4).Draw(t, "stmts"))
		d := ""
		if c.Mode != "all" && rapid.IntRange(0, 2).Draw(t, "dir") == 0 {
			d = rapid.SampledFrom([]string{"none", "file"}).Draw(t, "directive")
		}
		c.Directives = append(c.Directives, d)
	}
	if rapid.IntRange(0, 4).Draw(t, "fails") != 0 {
		c.FailF = rapid.IntRange(0, n-1).Draw(t, "ff")
		c.FailJ = rapid.IntRange(0, c.Shape[c.FailF]-1).Draw(t, "fj")
		if c.FailF > 0 || c.FailJ > 0 {
			c.FailKind = rapid.IntRange(0, 1).Draw(t, "failkind")
		}
	}
	c.Count = rapid.SampledFrom([]int{0, 0, 1, 2}).Draw(t, "count")
	c.DryRun = rapid.IntRange(0, 4).Draw(t, "dry") == 0
	c.CRLF = rapid.IntRange(0, 3).Draw(t, "crlf") == 0
	if c.DryRun && rapid.Bool().Draw(t, "withbaseline") {
		c.Baseline = rapid.IntRange(1, n).Draw(t, "baseline")
	}
	if c.FailF >= 0 && c.FailJ+1 < c.Shape[c.FailF] && c.Count == 0 && !c.DryRun && rapid.IntRange(0, 2).Draw(t, "second") == 0 {
		c.Fail2J = rapid.IntRange(c.FailJ+1, c.Shape[c.FailF]-1).Draw(t, "fj2")
	}
	return c
}

func TestCheck(t *testing.T) {
	col := ev.New("C13", "exploration", rule)
	defer col.Finish()
	check := func(c Case) error {
		out, err := checkCase(c)
		cls := out.Class
		if cls == "" {
			cls = fmt.Sprintf("migrate-apply/mode=%s/failing=%v", c.Mode, c.FailF >= 0)
			if c.FailKind == 1 {
				cls += "/foreign-key-violation"
			}
			if c.Fail2J > 0 {
				cls += "/two-failing-statements-in-one-file"
			}
			if len(c.Ckpt) > 0 {
				cls += fmt.Sprintf("/checkpoints=%d", len(c.Ckpt))
			}
			if len(c.Directives) > 0 {
				cls += "/directives"
			}
			if c.CRLF {
				cls += "/crlf"
			}
		}
		col.Class(cls)
		if out.Fired || c.DryRun || c.Schema {
			col.NonTrivial(fmt.Sprintf("%v|%d.%d|%s|%v|%d|%v|%v.%d|%d|%v|%d", c.Shape, c.FailF, c.FailJ, c.Mode, c.Directives, c.Count, c.DryRun, c.Schema, c.Variant, c.FailKind, c.Ckpt, c.Fail2J) + fmt.Sprint(c.CRLF, c.Baseline, c.Prompt))
		}
		col.Sample(cls, c)
		return err
	}
	ok := true
	i := 0
	enumerate(col.Thorough(), func(c Case) bool {
		i++
		if !col.Mine(i) {
			return true
		}
		ok = ev.Each(col, "enumerated", c, check, known)
		return ok
	})
	if !ok {
		return
	}
	// a new foreign-key violation next to one the database already had
	for _, mode := range []string{"file", "all"} {
		for _, same := range []bool{true, false} {
			c := OCase{Mode: mode, SameTable: same}
			if !ev.Each(col, "new-violation-next-to-an-old-one", c, func(c OCase) error {
				col.Class("migrate-apply/mode=" + c.Mode + "/foreign-key-violation/legacy-orphan")
				col.NonTrivial(fmt.Sprintf("orphan|%s|%v", c.Mode, c.SameTable))
				return checkOrphan(c)
			}, ev.Matcher[OCase]{}) {
				return
			}
		}
	}
	// a first run with --baseline whose later file fails: all mode leaves the database as it was
	for _, files := range []int{1, 2} {
		for failF := 0; failF < files; failF++ {
			c := BCase{Mode: "all", Files: files, FailF: failF}
			if !ev.Each(col, "baseline-then-failure", c, func(c BCase) error {
				col.Class("migrate-apply/mode=all/baseline/failing=true")
				col.NonTrivial(fmt.Sprintf("baseline|%s|%d|%d", c.Mode, c.Files, c.FailF))
				return checkBaseline(c)
			}, knownB) {
				return
			}
		}
	}
	ev.Rapid(t, col, "random", col.N(40, 4000), genCase, check, known)
}

var knownB = ev.Matcher[BCase]{
	// only the baseline revision row stays behind
	"baseline-row-survives-failed-all-mode-run": func(c BCase, err error) bool {
		m := err.Error()
		if c.Mode != "all" || !strings.Contains(m, "tx-mode all with --baseline") || !strings.Contains(m, "not as before the command") {
			return false
		}
		field := func(line, key string) string {
			i := strings.Index(line, key+"=")
			if i < 0 {
				return "?"
			}
			rest := line[i+len(key)+1:]
			if j := strings.Index(rest, "]"); j >= 0 && strings.HasPrefix(rest, "[") {
				return rest[:j+1]
			}
			return strings.Fields(rest)[0]
		}
		var before, after string
		for _, l := range strings.Split(m, "\n") {
			l = strings.TrimSpace(l)
			if strings.HasPrefix(l, "before:") {
				before = l
			}
			if strings.HasPrefix(l, "after:") {
				after = l
			}
		}
		return field(before, "journal") == field(after, "journal") && field(before, "schema") == field(after, "schema") &&
			field(before, "revisions") == "[]" && field(after, "revisions") == "[1:0/0:err=false]"
	},
}

func TestReplay(t *testing.T) {
	if strings.HasPrefix(ev.ReplaySub(), "new-violation") {
		ev.ReplayFile(t, "C13", func(_ string, c OCase) error { return checkOrphan(c) })
		return
	}
	if strings.HasPrefix(ev.ReplaySub(), "baseline") {
		ev.ReplayFile(t, "C13", func(_ string, c BCase) error { return checkBaseline(c) })
		return
	}
	ev.ReplayFile(t, "C13", func(_ string, c Case) error { _, err := checkCase(c); return err })
}
