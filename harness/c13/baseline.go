package c13

import (
	"fmt"
	"strings"

	"verif/cli"
	"verif/sqliteref"
)

// BCase: a first run with --baseline on a database that already holds what the files up to the baseline create; a later file
// fails. In all mode the database must be exactly as before the command.
type BCase struct {
	Mode  string `json:"mode"`   // all | file | none
	Files int    `json:"files"`  // files after the baseline (1-2)
	FailF int    `json:"fail_f"` // which of them fails (0-based), at its second statement
}

func checkBaseline(c BCase) error {
	sb, err := cli.NewSandbox()
	if err != nil {
		return fmt.Errorf("harness: %v", err)
	}
	defer sb.Close()
	sb.WriteFile("m/1_f.sql", "CREATE TABLE journal (id integer);\nINSERT INTO journal (id) VALUES (11);\n")
	for f := 0; f < c.Files; f++ {
		body := fmt.Sprintf("INSERT INTO journal (id) VALUES (%d1);\n", f+2)
		if f == c.FailF {
			body += "INSERT INTO missing_table (id) VALUES (0);\n"
		} else {
			body += fmt.Sprintf("INSERT INTO journal (id) VALUES (%d2);\n", f+2)
		}
		sb.WriteFile(fmt.Sprintf("m/%d_f.sql", f+2), body)
	}
	if r := sb.Run("migrate", "hash", "--dir", "file://m"); r.Code != 0 {
		return fmt.Errorf("harness: %v", r)
	}
	dbp := sb.Path("db.sqlite")
	db, err := sqliteref.OpenFile(dbp)
	if err != nil {
		return fmt.Errorf("harness: %v", err)
	}
	_, err = db.Exec("CREATE TABLE journal (id integer); INSERT INTO journal (id) VALUES (11)")
	db.Close()
	if err != nil {
		return fmt.Errorf("harness: %v", err)
	}
	before, err := readCanon(dbp)
	if err != nil {
		return fmt.Errorf("harness: %v", err)
	}
	r := sb.Run("migrate", "apply", "--dir", "file://m", "--url", "sqlite://"+dbp, "--tx-mode", c.Mode, "--baseline", "1")
	after, err := readCanon(dbp)
	if err != nil {
		return fmt.Errorf("harness: %v", err)
	}
	if r.Code == 0 {
		return fmt.Errorf("a failing statement in file %d, but exit 0: %v", c.FailF+2, r)
	}
	norm := func(c canon) string { c.HasRevs = true; return c.String() } // an absent revision table == an empty one
	if c.Mode == "all" && norm(after) != norm(before) {
		return fmt.Errorf("tx-mode all with --baseline: after the failed run the database is not as before the command\n before: %v\n after:  %v\n%v", before, after, r)
	}
	if c.Mode != "all" && !strings.Contains(after.String(), "1") {
		return fmt.Errorf("harness: unexpected state %v", after)
	}
	return nil
}
