package c13

import (
	"fmt"

	"verif/cli"
	"verif/sqliteref"
)

// OCase: the database already holds a row that breaks a foreign key (inserted while enforcement was off). A migration file
// then adds another row that breaks a foreign key - in the same child table or in another child table of the same parent,
// where it gets the same rowid and the same foreign-key ordinal as the old one. With enforcement on (_fk=1) the new
// violation must fail the run when the transaction commits, and file / all mode must roll the file back.
type OCase struct {
	Mode      string `json:"mode"`       // file | all
	SameTable bool   `json:"same_table"` // the new orphan goes into the table that holds the old one
}

func checkOrphan(c OCase) error {
	sb, err := cli.NewSandbox()
	if err != nil {
		return fmt.Errorf("harness: %v", err)
	}
	defer sb.Close()
	dbp := sb.Path("db.sqlite")
	db, err := sqliteref.OpenFile(dbp)
	if err != nil {
		return fmt.Errorf("harness: %v", err)
	}
	_, err = db.Exec("PRAGMA foreign_keys = off; CREATE TABLE parent (id integer PRIMARY KEY); CREATE TABLE child_a (pid integer REFERENCES parent (id)); INSERT INTO parent VALUES (1); INSERT INTO child_a VALUES (777)")
	db.Close()
	if err != nil {
		return fmt.Errorf("harness: %v", err)
	}
	sb.WriteFile("m/1_f.sql", "CREATE TABLE parent (id integer PRIMARY KEY);\nCREATE TABLE child_a (pid integer REFERENCES parent (id));\n")
	if c.SameTable {
		sb.WriteFile("m/2_f.sql", "CREATE TABLE journal (id integer);\nINSERT INTO child_a VALUES (888);\n")
	} else {
		sb.WriteFile("m/2_f.sql", "CREATE TABLE child_b (pid integer REFERENCES parent (id));\nINSERT INTO child_b VALUES (888);\n")
	}
	if r := sb.Run("migrate", "hash", "--dir", "file://m"); r.Code != 0 {
		return fmt.Errorf("harness: %v", r)
	}
	before, err := sqliteref.OpenFile(dbp)
	if err != nil {
		return fmt.Errorf("harness: %v", err)
	}
	dumpB, err := sqliteref.DataDump(before, sqliteref.DataDumpOptions{})
	before.Close()
	if err != nil {
		return fmt.Errorf("harness: %v", err)
	}
	r := sb.Run("migrate", "apply", "--dir", "file://m", "--url", "sqlite://"+dbp+"?_fk=1", "--tx-mode", c.Mode, "--baseline", "1")
	after, err := sqliteref.OpenFile(dbp)
	if err != nil {
		return fmt.Errorf("harness: %v", err)
	}
	defer after.Close()
	objs, err := sqliteref.QueryStrings(after, "SELECT name FROM sqlite_master WHERE name IN ('child_b', 'journal')")
	if err != nil {
		return fmt.Errorf("harness: %v", err)
	}
	rows, err := sqliteref.QueryStrings(after, "SELECT CAST(pid AS text) FROM child_a ORDER BY rowid")
	if err != nil {
		return fmt.Errorf("harness: %v", err)
	}
	if r.Code == 0 || len(objs) > 0 || len(rows) != 1 {
		return fmt.Errorf("a file that adds a row breaking a foreign key (enforcement on, tx-mode %s, the database already holds another such row) must fail at commit and be rolled back; exit=%d, objects created by the file: %v, child_a rows: %v\n before:\n%s\n%v", c.Mode, r.Code, objs, rows, dumpB, r)
	}
	return nil
}
