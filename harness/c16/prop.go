// Package c16: schema-scoped plans are schema-agnostic; a requested qualifier is always used.
package c16

import (
	"context"
	"fmt"
	"regexp"
	"strings"

	"ariga.io/atlas/sql/migrate"
	"ariga.io/atlas/sql/mysql"
	"ariga.io/atlas/sql/postgres"
	"ariga.io/atlas/sql/schema"

	"verif/c02"
	"verif/gm"
)

const Marker = "zq7marker"
const Custom = "cq_custom"

type Case struct {
	Dialect   string        `json:"dialect"`
	Base      gm.Schema     `json:"base"`
	Scenario  string        `json:"scenario"` // create | drop | modify
	Edits     []c02.EditRef `json:"edits"`
	Qualifier string        `json:"qualifier"` // none | empty | custom
	Mode      int           `json:"mode"`
	Flavour   string        `json:"flavour,omitempty"` // "" = the Default planner; MySQL family: mysql8 | mysql57 | maria | tidb, PostgreSQL: pg15 | pg10 | crdb = the planner of a driver opened against that server
	Span      string        `json:"span"` // "" | add-schema | drop-schema | modify-schema | two-schemas | enum-other-schema | fk-other-schema
}

type tok struct {
	ident bool
	v     string
}

// lex splits a statement into identifier tokens (quoted or bare), punctuation and skips string literals.
func lex(dialect, s string) []tok {
	var out []tok
	idq := byte('"')
	if dialect == "mysql" {
		idq = '`'
	}
	for i := 0; i < len(s); {
		c := s[i]
		switch {
		case c == '\'':
			j := i + 1
			for j < len(s) {
				if s[j] == '\\' && dialect == "mysql" {
					j += 2
					continue
				}
				if s[j] == '\'' {
					if j+1 < len(s) && s[j+1] == '\'' {
						j += 2
						continue
					}
					break
				}
				j++
			}
			i = j + 1
		case c == idq:
			j := i + 1
			for j < len(s) {
				if s[j] == idq {
					if j+1 < len(s) && s[j+1] == idq {
						j += 2
						continue
					}
					break
				}
				j++
			}
			out = append(out, tok{true, strings.ReplaceAll(s[i+1:min(j, len(s))], string([]byte{idq, idq}), string(idq))})
			i = j + 1
		case c == '_' || c >= 'a' && c <= 'z' || c >= 'A' && c <= 'Z':
			j := i
			for j < len(s) && (s[j] == '_' || s[j] >= 'a' && s[j] <= 'z' || s[j] >= 'A' && s[j] <= 'Z' || s[j] >= '0' && s[j] <= '9') {
				j++
			}
			out = append(out, tok{false, s[i:j]})
			i = j
		case c == ' ' || c == '\n' || c == '\t':
			i++
		default:
			out = append(out, tok{false, string(c)})
			i++
		}
	}
	return out
}

var reSchemaStmt = regexp.MustCompile(`(?i)^\s*(CREATE|DROP|ALTER)\s+(SCHEMA|DATABASE)\b`)

type Outcome struct {
	Stmts    int
	TableRef int
	Kinds    []string
	Rejected bool
}

func planner(d string) migrate.PlanApplier {
	if d == "postgres" {
		return postgres.DefaultPlan
	}
	return mysql.DefaultPlan
}

func checkCase(c Case) (Outcome, error) {
	var out Outcome
	base := c.Base.Clone()
	base.Name = Marker
	edited := base.Clone()
	for _, e := range c.Edits {
		if _, err := c02.Apply(c.Dialect, &edited, e); err != nil {
			return out, err
		}
	}
	from, err := gm.Build(c.Dialect, base)
	if err != nil {
		return out, fmt.Errorf("harness: %v", err)
	}
	to, err := gm.Build(c.Dialect, edited)
	if err != nil {
		return out, fmt.Errorf("harness: %v", err)
	}
	differ := gm.Differ(c.Dialect)
	empty := gm.Empty(c.Dialect, base)
	var changes []schema.Change
	switch c.Scenario {
	case "create":
		changes, err = differ.SchemaDiff(empty, to, schema.DiffNormalized())
	case "drop":
		changes, err = differ.SchemaDiff(from, empty, schema.DiffNormalized())
	default:
		changes, err = differ.SchemaDiff(from, to, schema.DiffNormalized())
	}
	if err != nil {
		return out, fmt.Errorf("harness: diff: %v", err)
	}
	// spanning change sets must be rejected when a qualifier is requested
	mustReject := false
	switch c.Span {
	case "add-schema":
		changes = append([]schema.Change{&schema.AddSchema{S: to}}, changes...)
		mustReject = true
	case "drop-schema":
		changes = append(changes, &schema.DropSchema{S: from})
		mustReject = true
	case "modify-schema":
		changes = append(changes, &schema.ModifySchema{S: to, Changes: []schema.Change{&schema.AddAttr{A: &schema.Comment{Text: "x"}}}})
		// "The migration plan is generated for deferred execution" => rejected; in-place plans (and dump mode, whose
		// PlanMode value includes the in-place bit) may alter the attributes of the very schema they run in.
		mustReject = !migrate.PlanMode(c.Mode).Is(migrate.PlanModeInPlace)
	case "modify-other-schema", "modify-other-schema-differing-by-case":
		// the attributes of ANOTHER schema are altered next to table changes of this one: two schemas in one plan
		other := schema.New("other_" + Marker)
		if c.Span == "modify-other-schema-differing-by-case" {
			other = schema.New(strings.ToUpper(Marker))
			if c.Qualifier == "custom" {
				other = schema.New(strings.ToUpper(Custom))
			}
		}
		mustReject = tableChanges(changes) > 0
		changes = append(changes, &schema.ModifySchema{S: other, Changes: []schema.Change{&schema.AddAttr{A: &schema.Comment{Text: "x"}}}})
		if !migrate.PlanMode(c.Mode).Is(migrate.PlanModeInPlace) {
			mustReject = true // deferred plans may not alter any schema
		}
	case "two-schemas", "two-schemas-differing-by-case":
		other := schema.New("other_" + Marker)
		if c.Span == "two-schemas-differing-by-case" {
			other = schema.New(strings.ToUpper(Marker)) // a distinct schema in PostgreSQL and in MySQL with lower_case_table_names=0
		}
		other.AddTables(schema.NewTable("elsewhere").AddColumns(schema.NewIntColumn("id", "bigint")))
		mustReject = tableChanges(changes) > 0 // a change set living entirely in one (other) schema is still single-schema
		changes = append(changes, &schema.AddTable{T: other.Tables[0]})
	case "enum-other-schema":
		other := schema.New("other_" + Marker)
		et := &schema.EnumType{T: "foreign_kind", Values: []string{"a", "b"}, Schema: other}
		other.AddObjects(et)
		t := schema.NewTable("with_foreign_enum").AddColumns(schema.NewIntColumn("id", "bigint"), schema.NewEnumColumn("k", schema.EnumName("foreign_kind"), schema.EnumValues("a", "b"), schema.EnumSchema(other)))
		t.SetSchema(to)
		changes = append(changes, &schema.AddTable{T: t})
		mustReject = true
	case "fk-other-schema":
		other := schema.New("other_" + Marker)
		ref := schema.NewTable("elsewhere").AddColumns(schema.NewIntColumn("id", "bigint"))
		other.AddTables(ref)
		idc := schema.NewIntColumn("id", "bigint")
		rc := schema.NewNullIntColumn("ref_id", "bigint")
		t := schema.NewTable("with_foreign_fk").AddColumns(idc, rc)
		t.SetSchema(to)
		t.AddForeignKeys(schema.NewForeignKey("fk_elsewhere").AddColumns(rc).SetRefTable(ref).AddRefColumns(ref.Columns[0]))
		changes = append(changes, &schema.AddTable{T: t})
		mustReject = true
	}
	opts := []migrate.PlanOption{func(o *migrate.PlanOptions) { o.Mode = migrate.PlanMode(c.Mode) }}
	switch c.Qualifier {
	case "empty":
		opts = append(opts, func(o *migrate.PlanOptions) { o.SchemaQualifier = new(string) })
	case "custom":
		q := Custom
		opts = append(opts, func(o *migrate.PlanOptions) { o.SchemaQualifier = &q })
	case "own-name", "other-name":
		// span cases only: the requested qualifier is spelled like one of the schemas the change set touches
		q := Marker
		if c.Qualifier == "other-name" {
			q = "other_" + Marker
			if strings.HasSuffix(c.Span, "differing-by-case") {
				q = strings.ToUpper(Marker)
			}
		}
		opts = append(opts, func(o *migrate.PlanOptions) { o.SchemaQualifier = &q })
	}
	pl := planner(c.Dialect)
	if c.Dialect == "mysql" && c.Flavour != "" {
		drv, err := gm.OpenMySQL(c.Flavour)
		if err != nil {
			return out, fmt.Errorf("harness: %v", err)
		}
		pl = drv
	}
	if c.Dialect == "postgres" && c.Flavour != "" {
		drv, err := gm.OpenPostgres(c.Flavour)
		if err != nil {
			return out, fmt.Errorf("harness: %v", err)
		}
		pl = drv
	}
	plan, err := pl.PlanChanges(context.Background(), "plan", changes, opts...)
	if c.Qualifier != "none" && mustReject {
		if err == nil {
			return out, fmt.Errorf("%s: a change set spanning outside the schema (%s) was planned instead of rejected (qualifier %s, mode %d):\n%s", c.Dialect, c.Span, c.Qualifier, c.Mode, dump(plan))
		}
		out.Rejected = true
		return out, nil
	}
	if err != nil {
		if c.Span != "" {
			out.Rejected = true
			return out, nil // without a requested qualifier, or for allowed spans, an error is acceptable but not demanded
		}
		return out, fmt.Errorf("%s: PlanChanges failed: %v", c.Dialect, err)
	}
	if c.Span != "" {
		return out, nil // allowed span (modify-schema in place / no qualifier): nothing more to check here
	}
	out.Stmts = len(plan.Changes)
	names := map[string]bool{}
	for _, s := range []gm.Schema{base, edited} {
		for _, t := range s.Tables {
			names[t.Name] = true
		}
		for _, e := range s.Enums {
			names[e.Name] = true
		}
	}
	enumNames := map[string]bool{}
	for _, s := range []gm.Schema{base, edited} {
		for _, e := range s.Enums {
			enumNames[e.Name] = true
		}
	}
	idxNames := map[string]bool{}
	for _, s := range []gm.Schema{base, edited} {
		for _, t := range s.Tables {
			for _, ix := range t.Indexes {
				idxNames[ix.Name] = true
			}
		}
	}
	var stmts []string
	for _, pc := range plan.Changes {
		stmts = append(stmts, pc.Cmd)
		rs, err := pc.ReverseStmts()
		if err != nil {
			return out, err
		}
		stmts = append(stmts, rs...)
	}
	for _, s := range stmts {
		toks := lex(c.Dialect, s)
		if c.Qualifier != "none" {
			for _, t := range toks {
				if t.v == Marker {
					return out, fmt.Errorf("%s: qualifier %s requested but a statement mentions the schema name %q:\n  %s", c.Dialect, c.Qualifier, Marker, s)
				}
			}
			if reSchemaStmt.MatchString(s) {
				return out, fmt.Errorf("%s: schema-scoped plan creates/drops/alters a schema:\n  %s", c.Dialect, s)
			}
		}
		idxQualified := c.Dialect == "postgres" && regexp.MustCompile(`(?i)^\s*(DROP INDEX|ALTER INDEX|COMMENT ON INDEX)`).MatchString(s)
		for i, t := range toks {
			// a type may also be written as a bare word (mood[]): it is a reference to the enum all the same
			isRef := t.ident && (names[t.v] || idxQualified && idxNames[t.v]) || !t.ident && enumNames[t.v]
			if !isRef {
				continue
			}
			// `x`.`name`: is the name preceded by a qualifier?
			qual := ""
			if i >= 2 && toks[i-1].v == "." && toks[i-2].ident {
				qual = toks[i-2].v
			}
			// names used as column names of the same spelling do not exist in the model; constraint/index names
			// that equal table names neither. A bare table name directly after a dot-free position is a reference.
			out.TableRef++
			switch c.Qualifier {
			case "empty":
				if qual != "" {
					return out, fmt.Errorf("%s: empty qualifier requested but %q is qualified with %q:\n  %s", c.Dialect, t.v, qual, s)
				}
			case "custom":
				if qual != Custom {
					return out, fmt.Errorf("%s: qualifier %q requested but %q is referenced with qualifier %q:\n  %s", c.Dialect, Custom, t.v, qual, s)
				}
			case "none":
				if qual != Marker {
					return out, fmt.Errorf("%s: no qualifier requested (realm scope) but %q is referenced with qualifier %q instead of its schema %q:\n  %s", c.Dialect, t.v, qual, Marker, s)
				}
			}
		}
	}
	return out, nil
}

func tableChanges(cs []schema.Change) int {
	n := 0
	for _, c := range cs {
		switch c.(type) {
		case *schema.AddTable, *schema.DropTable, *schema.ModifyTable:
			n++
		}
	}
	return n
}

func dump(p *migrate.Plan) string {
	if p == nil {
		return ""
	}
	var b strings.Builder
	for _, c := range p.Changes {
		b.WriteString("    " + c.Cmd + "\n")
	}
	return b.String()
}
