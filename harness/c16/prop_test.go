package c16

import (
	"fmt"
	"sort"
	"strings"

	"verif/gm"
	"testing"

	"pgregory.net/rapid"

	"verif/c02"
	"verif/ev"
)

var known = ev.Matcher[Case]{}

const rule = "MySQL and PostgreSQL planners: a schema named with the unique marker zq7marker (tables, PG enums, indexes incl. comments/partial/include, comments on tables/columns/indexes, FKs, generated columns) " +
	"x scenario {create all, drop all, modify with 1-6 non-interfering catalogue edits (the C02 catalogue)} x qualifier {not requested, empty, cq_custom} x plan mode {unset, in-place, deferred, dump}; " +
	"plus spanning change sets {AddSchema, DropSchema, ModifySchema, a table of a second schema}. " +
	"Oracle: every Cmd and reverse statement is tokenised by a per-dialect identifier lexer (string literals skipped): with a requested qualifier the marker never occurs and no statement creates/drops/alters a schema; " +
	"every table / enum type reference (and index reference in DROP/ALTER/COMMENT ON INDEX for PostgreSQL) carries exactly the requested qualifier (none for empty); spanning change sets are rejected by PlanChanges. " +
	"non-trivial = plan with >=1 statement holding >=1 table reference, or a spanning change set; distinct key = (dialect, scenario, qualifier, mode, edit kinds, span)"

func genCase(t *rapid.T) Case {
	d := rapid.SampledFrom([]string{"mysql", "postgres"}).Draw(t, "dialect")
	c := Case{Dialect: d, Base: c02.Base(d), Scenario: rapid.SampledFrom([]string{"create", "drop", "modify", "modify", "modify"}).Draw(t, "scenario"),
		Qualifier: rapid.SampledFrom([]string{"none", "empty", "empty", "custom", "custom"}).Draw(t, "qualifier"), Mode: rapid.IntRange(0, 3).Draw(t, "mode")}
	if c.Scenario == "modify" {
		sites := tableSites(d, c.Base)
		perm := rapid.Permutation(sites).Draw(t, "sites")
		n := rapid.IntRange(1, 6).Draw(t, "nedits")
		var chosen []c02.Site
		for _, s := range perm {
			if len(chosen) == n {
				break
			}
			ok := true
			for _, x := range chosen {
				if c02.Conflict(x, s) {
					ok = false
				}
			}
			if ok {
				chosen = append(chosen, s)
				c.Edits = append(c.Edits, s.E)
			}
		}
	}
	if d == "mysql" {
		c.Flavour = rapid.SampledFrom([]string{"", "", "mysql8", "mysql57", "maria", "tidb"}).Draw(t, "flavour")
	} else {
		c.Flavour = rapid.SampledFrom([]string{"", "", "pg15", "pg10", "crdb"}).Draw(t, "pgflavour")
	}
	if rapid.IntRange(0, 5).Draw(t, "span") == 0 {
		spans := []string{"add-schema", "drop-schema", "modify-schema", "modify-other-schema", "two-schemas", "two-schemas-differing-by-case", "modify-other-schema-differing-by-case"}
		c.Span = rapid.SampledFrom(spans).Draw(t, "spankind")
	}
	return c
}

func mkCheck(col *ev.Collector) func(Case) error {
	return func(c Case) error {
		out, err := checkCase(c)
		var ks []string
		for _, e := range c.Edits {
			ks = append(ks, e.Kind)
		}
		sort.Strings(ks)
		cls := fmt.Sprintf("%s/%s/q=%s", c.Dialect, c.Scenario, c.Qualifier)
		if c.Span != "" {
			cls = fmt.Sprintf("%s%s/span=%s/q=%s/rejected=%v", c.Dialect, c.Flavour, c.Span, c.Qualifier, out.Rejected)
		}
		col.Class(cls)
		if out.TableRef > 0 || c.Span != "" {
			col.NonTrivial(fmt.Sprintf("%s|%s|%s|%d|%s|%s", c.Dialect, c.Scenario, c.Qualifier, c.Mode, strings.Join(ks, ","), c.Span+c.Flavour))
		}
		col.Sample(cls, Case{Dialect: c.Dialect, Scenario: c.Scenario, Edits: c.Edits, Qualifier: c.Qualifier, Mode: c.Mode, Span: c.Span})
		return err
	}
}

func TestCheck(t *testing.T) {
	col := ev.New("C16", "exploration", rule)
	defer col.Finish()
	check := mkCheck(col)
	// every single catalogue edit x qualifier x mode, and every span kind x qualifier x mode
	i := 0
	for _, d := range []string{"mysql", "postgres"} {
		base := c02.Base(d)
		for _, q := range []string{"none", "empty", "custom"} {
			for mode := 0; mode < 4; mode++ {
				for _, sc := range []string{"create", "drop"} {
					if !ev.Each(col, "enumerated", Case{Dialect: d, Base: base, Scenario: sc, Qualifier: q, Mode: mode}, check, known) {
						return
					}
				}
				// PostgreSQL: columns retyped to an enum of the schema and to an array of it, and new columns of those types
				if d == "postgres" {
					for _, ty := range []string{"enum:mood", "enumarr:mood"} {
						for _, e := range []c02.EditRef{{Kind: "modify-type", Table: "users", Obj: "ufree1", Arg: ty}, {Kind: "add-column", Table: "users", Obj: "zz_col", Arg: ty}} {
							if !ev.Each(col, "enumerated", Case{Dialect: d, Base: base, Scenario: "modify", Edits: []c02.EditRef{e}, Qualifier: q, Mode: mode}, check, known) {
								return
							}
						}
					}
				}
				for _, s := range tableSites(d, base) {
					i++
					if !col.Mine(i) {
						continue
					}
					if !ev.Each(col, "enumerated", Case{Dialect: d, Base: base, Scenario: "modify", Edits: []c02.EditRef{s.E}, Qualifier: q, Mode: mode}, check, known) {
						return
					}
					// every third edit also through the planner of a driver opened against CockroachDB / PostgreSQL 15
					if d == "postgres" && i%3 == 0 {
						if !ev.Each(col, "enumerated", Case{Dialect: d, Base: base, Scenario: "modify", Edits: []c02.EditRef{s.E}, Qualifier: q, Mode: mode, Flavour: []string{"crdb", "pg15"}[i/3%2]}, check, known) {
							return
						}
					}
				}
				spans := []string{"add-schema", "drop-schema", "modify-schema", "modify-other-schema", "two-schemas", "two-schemas-differing-by-case", "modify-other-schema-differing-by-case"}
				for _, sp := range spans {
					if !ev.Each(col, "enumerated", Case{Dialect: d, Base: base, Scenario: "create", Qualifier: q, Mode: mode, Span: sp}, check, known) {
						return
					}
					// a requested qualifier that is spelled like one of the two schemas
					if q == "custom" && strings.HasPrefix(sp, "two-schemas") {
						for _, q2 := range []string{"own-name", "other-name"} {
							if !ev.Each(col, "enumerated", Case{Dialect: d, Base: base, Scenario: "create", Qualifier: q2, Mode: mode, Span: sp}, check, known) {
								return
							}
						}
					}
					// the planners of the MySQL-family drivers (TiDB plans every change on its own)
					if d == "mysql" {
						for _, fl := range []string{"mysql8", "mysql57", "maria", "tidb"} {
							if !ev.Each(col, "enumerated", Case{Dialect: d, Base: base, Scenario: "create", Qualifier: q, Mode: mode, Span: sp, Flavour: fl}, check, known) {
								return
							}
						}
					}
				}
			}
		}
	}
	ev.Rapid(t, col, "random", col.N(4000, 400000), genCase, check, known)
}

func TestReplay(t *testing.T) {
	ev.ReplayFile(t, "C16", func(_ string, c Case) error { _, err := checkCase(c); return err })
}

// tableSites: the catalogue without the edits of the schema's own attributes. A ModifySchema is refused in a schema-scoped
// plan by contract ("is not allowed when migration plan is scoped to one schema"); the spans cover that refusal.
func tableSites(d string, base gm.Schema) []c02.Site {
	var out []c02.Site
	for _, s := range c02.Sites(d, base) {
		if !strings.HasPrefix(s.E.Kind, "schema-") {
			out = append(out, s)
		}
	}
	return out
}
