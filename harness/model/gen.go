package model

import (
	"fmt"
	"strings"

	"pgregory.net/rapid"
)

// Name pools are small on purpose: collisions between the two sides of a pair are the point.
var (
	TableNames = []string{"t1", "t2", "users", "Orders", "a b", "somewhere", "health_check"}
	ColNames   = []string{"id", "a", "b", "c", "name", "Val", "x y", "ts", "WHEREABOUTS"}
	// Types: the full sqlite.TypeRegistry catalogue with a parameter grid.
	Types = []string{
		"integer", "int", "tinyint", "smallint", "mediumint", "bigint", "unsigned big int", "int2", "int8", "uint64",
		"real", "double", "double precision", "float",
		"text", "clob", "character(20)", "varchar(255)", "varying character(255)", "nchar(55)", "native character(70)", "nvarchar(100)", "varchar",
		"blob", "numeric", "numeric(10,2)", "decimal(10,5)", "decimal",
		"bool", "boolean", "date", "datetime", "json", "jsonb", "uuid",
		// names no Atlas type covers (kept as user-defined types, in the spelling the database has)
		"MONEY", "Point2D",
	}
	StrictTypes = []string{"integer", "int", "real", "text", "blob", "any"}
	Actions     = []string{"", "NO ACTION", "RESTRICT", "CASCADE", "SET NULL", "SET DEFAULT"}
)

// wordOnly is set for the duration of a generation by GenSchema/Edit from Opts.WordNames.
var wordOnly bool

// Opts tunes the generator; zero value = everything on.
type Opts struct {
	NoExprIndex    bool // no expression index parts
	NoInlineUnique bool // no inline UNIQUE column constraints
	NoGenerated    bool
	NoStrict       bool
	WordNames      bool // identifiers match \w+ only (no spaces): the regex-based recovery in the SQLite inspector is known to fail otherwise
	KeyColumn      bool // every table gets a never-edited unique key column "k" (C05)
	SimpleDefaults bool
	Kinds          []string // restrict Edit to these kinds (nil = all)
}

func isNumeric(typ string) bool {
	t := strings.ToLower(typ)
	return strings.Contains(t, "int") || t == "real" || strings.HasPrefix(t, "double") || t == "float" || strings.HasPrefix(t, "numeric") || strings.HasPrefix(t, "decimal")
}

func genDefault(t *rapid.T, typ string, o Opts) string {
	if rapid.IntRange(0, 2).Draw(t, "hasdef") != 0 {
		return ""
	}
	if isNumeric(typ) {
		return rapid.SampledFrom([]string{"0", "1", "-1", "42", "3.14", "(1 + 1)", "0.0", "1.50", ".5", "+2", "1e3"}).Draw(t, "ndef")
	}
	tl := strings.ToLower(typ)
	switch {
	case tl == "bool" || tl == "boolean":
		return rapid.SampledFrom([]string{"0", "1", "true", "false", "TRUE", "FALSE"}).Draw(t, "bdef")
	case tl == "blob":
		return rapid.SampledFrom([]string{"x'0A'", "x''", "'b'"}).Draw(t, "xdef")
	case tl == "date" || tl == "datetime":
		return rapid.SampledFrom([]string{"CURRENT_TIMESTAMP", "'2020-01-01'", "CURRENT_DATE"}).Draw(t, "tdef")
	}
	if o.SimpleDefaults {
		return rapid.SampledFrom([]string{"'x'", "''", "'hello world'"}).Draw(t, "sdef")
	}
	return rapid.SampledFrom([]string{"'x'", "''", "'it''s'", "'a;b'", "'-- c'", `'say "hi"'`, "'x y'", "(lower('A'))", "'1'", "'007'", "'1.50'", // texts that read like numbers but are not the way the number is written
		
		// SQLite also takes a double-quoted text for a string literal when no column has that name
		`"it's"`, `"plain text"`, `"say ""hi"""`}).Draw(t, "sdef")
}

func pick[T any](t *rapid.T, label string, xs []T) T {
	return xs[rapid.IntRange(0, len(xs)-1).Draw(t, label)]
}

// unusedName picks a pool name not in used.
func unusedName(t *rapid.T, label string, pool []string, used map[string]bool) (string, bool) {
	var free []string
	for _, n := range pool {
		if wordOnly {
			n = strings.ReplaceAll(n, " ", "_")
		}
		if !used[n] {
			free = append(free, n)
		}
	}
	if len(free) == 0 {
		return "", false
	}
	return pick(t, label, free), true
}

func genColumn(t *rapid.T, name string, strict bool, o Opts) Column {
	c := Column{Name: name}
	if strict {
		c.Type = pick(t, "stype", StrictTypes)
	} else {
		c.Type = pick(t, "type", Types)
	}
	c.NotNull = rapid.Bool().Draw(t, "notnull")
	if c.Type != "any" {
		c.Default = genDefault(t, c.Type, o)
	}
	return c
}

// plainCols lists non-generated columns.
func plainCols(tb *Table) []string {
	var out []string
	for _, c := range tb.Cols {
		if c.Gen == "" {
			out = append(out, c.Name)
		}
	}
	return out
}

func qcol(n string) string { return `"` + n + `"` }

// qcolAny quotes a column name inside an expression the way SQLite accepts it: mostly "name", sometimes [name].
func qcolAny(t *rapid.T, n string) string {
	if rapid.IntRange(0, 3).Draw(t, "bracket") == 0 && !strings.ContainsAny(n, "[]") {
		return "[" + n + "]"
	}
	return qcol(n)
}

// GenTable draws one table (without foreign keys; those need the whole schema).
func GenTable(t *rapid.T, name string, o Opts) Table {
	tb := Table{Name: name}
	tb.Strict = !o.NoStrict && rapid.IntRange(0, 7).Draw(t, "strict") == 0
	tb.Remark = rapid.IntRange(0, 5).Draw(t, "remark") == 0
	used := map[string]bool{}
	if o.KeyColumn {
		tb.Cols = append(tb.Cols, Column{Name: "k", Type: "integer", NotNull: true})
		used["k"] = true
	}
	n := rapid.IntRange(1, 5).Draw(t, "ncols")
	for i := 0; i < n; i++ {
		cn, ok := unusedName(t, "col", ColNames, used)
		if !ok {
			break
		}
		used[cn] = true
		tb.Cols = append(tb.Cols, genColumn(t, cn, tb.Strict, o))
	}
	// generated column over a sibling
	if !o.NoGenerated && rapid.IntRange(0, 4).Draw(t, "gen") == 0 {
		if cn, ok := unusedName(t, "gencol", []string{"g1", "g2"}, used); ok {
			src := pick(t, "gensrc", plainCols(&tb))
			typ := "text"
			if tb.Strict {
				typ = "any"
			}
			if !tb.Strict && rapid.IntRange(0, 2).Draw(t, "gentype") == 0 {
				typ = "numeric(10,2)" // a type with a comma of its own
			}
			expr := rapid.SampledFrom([]string{"%s", "%s || 'x'", "coalesce(%s, 0) + 1", "lower(%s)"}).Draw(t, "genexpr")
			tb.Cols = append(tb.Cols, Column{Name: cn, Type: typ, Gen: fmt.Sprintf(expr, qcolAny(t, src)), GenStored: rapid.Bool().Draw(t, "stored")})
			// a second generated column whose name is a prefix of the first one's
			if !used["g"] && rapid.IntRange(0, 2).Draw(t, "gen2") == 0 {
				used["g"] = true
				expr2 := rapid.SampledFrom([]string{"%s || 'y'", "coalesce(%s, 0) + 2"}).Draw(t, "genexpr2")
				tb.Cols = append(tb.Cols, Column{Name: "g", Type: typ, Gen: fmt.Sprintf(expr2, qcol(src)), GenStored: rapid.Bool().Draw(t, "stored2")})
			}
		}
	}
	plain := plainCols(&tb)
	// primary key
	switch k := rapid.IntRange(0, 5).Draw(t, "pkkind"); {
	case k == 0: // none
	case k == 1 && !tb.Strict: // INTEGER PRIMARY KEY AUTOINCREMENT on a dedicated column
		if cn, ok := unusedName(t, "aicol", []string{"rid", "pkid"}, used); ok {
			tb.Cols = append([]Column{{Name: cn, Type: "integer", NotNull: true}}, tb.Cols...)
			tb.PK, tb.AutoInc = []string{cn}, true
		}
	case k <= 3: // single
		tb.PK = []string{pick(t, "pkcol", plain)}
	default: // composite, arbitrary order
		if len(plain) >= 2 {
			perm := rapid.Permutation(plain).Draw(t, "pkperm")
			tb.PK = perm[:rapid.IntRange(2, min(3, len(perm))).Draw(t, "pklen")]
		} else {
			tb.PK = []string{plain[0]}
		}
	}
	for _, p := range tb.PK {
		// SQLite (non-strict legacy) allows NULL in PK columns of rowid tables, Atlas plans NOT NULL handling per column; keep PK columns NOT NULL
		// for WITHOUT ROWID tables (required there) and free otherwise.
		_ = p
	}
	if len(tb.PK) > 0 && !tb.AutoInc && rapid.IntRange(0, 5).Draw(t, "wr") == 0 {
		tb.WithoutRowID = true
		for _, p := range tb.PK {
			tb.Col(p).NotNull = true
		}
	}
	// indexes
	ni := rapid.IntRange(0, 2).Draw(t, "nidx")
	for i := 0; i < ni; i++ {
		tb.Indexes = append(tb.Indexes, genIndex(t, &tb, fmt.Sprintf("idx_%s_%d", strings.ReplaceAll(name, " ", "_"), i), o))
	}
	if !o.NoInlineUnique && rapid.IntRange(0, 9).Draw(t, "inluniq") == 0 {
		tb.InlineUnique = []string{pick(t, "inlucol", plain)}
	}
	// checks
	nc := rapid.IntRange(0, 2).Draw(t, "nchk")
	for i := 0; i < nc; i++ {
		tb.Checks = append(tb.Checks, genCheck(t, &tb, i))
	}
	return tb
}

func genIndex(t *rapid.T, tb *Table, name string, o Opts) Index {
	ix := Index{Name: name, Unique: rapid.IntRange(0, 2).Draw(t, "uniq") == 0}
	cols := rapid.Permutation(plainCols(tb)).Draw(t, "icols")
	np := rapid.IntRange(1, min(3, len(cols))).Draw(t, "nparts")
	for _, c := range cols[:np] {
		p := Part{Col: c, Desc: rapid.IntRange(0, 3).Draw(t, "desc") == 0}
		if !o.NoExprIndex && rapid.IntRange(0, 7).Draw(t, "exprpart") == 0 {
			p = Part{Expr: "lower(" + qcolAny(t, c) + ")", Desc: p.Desc}
		}
		ix.Parts = append(ix.Parts, p)
	}
	if rapid.IntRange(0, 3).Draw(t, "partial") == 0 {
		c := pick(t, "wherecol", plainCols(tb))
		ix.Where = rapid.SampledFrom([]string{"%s IS NOT NULL", "%s > 0", "%s <> 'x'"}).Draw(t, "wherex")
		ix.Where = fmt.Sprintf(ix.Where, qcol(c))
	}
	ix.LowerKW = rapid.IntRange(0, 2).Draw(t, "lowerkw") == 0
	if rapid.IntRange(0, 2).Draw(t, "loose") == 0 {
		ix.Loose = rapid.IntRange(1, 3).Draw(t, "loosebits")
	}
	ix.Note = ix.Where != "" && rapid.IntRange(0, 2).Draw(t, "note") == 0
	return ix
}

func genCheck(t *rapid.T, tb *Table, i int) Check {
	c := pick(t, "chkcol", plainCols(tb))
	expr := rapid.SampledFrom([]string{"%s <> 'bad'", "%s IS NULL OR %[1]s <> -7", "length(%s) < 1000", "%s <> ')'",
		// starts and ends with a parenthesis without being one group
		"(%s IS NULL) OR (%[1]s <> 'bad')",
		// SQLite has no backslash escapes: a literal may end with one
		"%s <> '\\'", "%s NOT LIKE 'a\\%%' ESCAPE '\\'"}).Draw(t, "chkexpr")
	ck := Check{Expr: fmt.Sprintf(expr, qcol(c))}
	if rapid.Bool().Draw(t, "named") {
		ck.Name = fmt.Sprintf("ck_%s_%d", strings.ReplaceAll(tb.Name, " ", "_"), i)
	}
	return ck
}

// refTarget returns the columns of tb a foreign key may point to: its primary key, or a unique index' columns.
func refTarget(t *rapid.T, tb *Table) []string {
	var cands [][]string
	if len(tb.PK) > 0 {
		cands = append(cands, tb.PK)
	}
	for _, ix := range tb.Indexes {
		if ix.Unique && ix.Where == "" {
			ok := true
			var cs []string
			for _, p := range ix.Parts {
				if p.Expr != "" {
					ok = false
				}
				cs = append(cs, p.Col)
			}
			if ok {
				cands = append(cands, cs)
			}
		}
	}
	if len(cands) == 0 {
		return nil
	}
	return pick(t, "reftarget", cands)
}

func genFK(t *rapid.T, s *Schema, ti int, n int) (FK, bool) {
	tb := &s.Tables[ti]
	ref := &s.Tables[rapid.IntRange(0, len(s.Tables)-1).Draw(t, "reftable")]
	target := refTarget(t, ref)
	if target == nil {
		return FK{}, false
	}
	plain := plainCols(tb)
	if len(plain) < len(target) {
		return FK{}, false
	}
	cols := rapid.Permutation(plain).Draw(t, "fkcols")[:len(target)]
	fk := FK{Cols: cols, RefTable: ref.Name, RefCols: append([]string{}, target...),
		OnUpdate: pick(t, "onupd", Actions), OnDelete: pick(t, "ondel", Actions)}
	if rapid.Bool().Draw(t, "fknamed") {
		fk.Name = fmt.Sprintf("fk_%s_%d", strings.ReplaceAll(tb.Name, " ", "_"), n)
	} else {
		fk.Short = rapid.Bool().Draw(t, "fkshort")
		fk.CaseRef = rapid.IntRange(0, 3).Draw(t, "fkcaseref") == 0
	}
	// SET NULL needs nullable child columns to be meaningful; keep it legal for data tests
	for _, c := range cols {
		if (fk.OnDelete == "SET NULL" || fk.OnUpdate == "SET NULL") && tb.Col(c).NotNull {
			fk.OnDelete, fk.OnUpdate = "", ""
		}
	}
	return fk, true
}

// GenSchema draws a schema of 1..maxTables tables with foreign keys (self, cross, cyclic).
func GenSchema(t *rapid.T, maxTables int, o Opts) Schema {
	wordOnly = o.WordNames
	defer func() { wordOnly = false }()
	var s Schema
	used := map[string]bool{}
	n := rapid.IntRange(1, maxTables).Draw(t, "ntables")
	for i := 0; i < n; i++ {
		name, ok := unusedName(t, "table", TableNames, used)
		if !ok {
			break
		}
		used[name] = true
		s.Tables = append(s.Tables, GenTable(t, name, o))
	}
	for i := range s.Tables {
		nf := rapid.IntRange(0, 2).Draw(t, "nfk")
		for j := 0; j < nf; j++ {
			if fk, ok := genFK(t, &s, i, j); ok {
				s.Tables[i].FKs = append(s.Tables[i].FKs, fk)
			}
		}
	}
	s.Sanitize()
	return s
}
