// Package model is the harness' own SQLite schema model: a generator-friendly description of
// tables with two independent DDL renderers, used to build "any database" on a real engine.
package model

import (
	"fmt"
	"sort"
	"strings"
)

type Column struct {
	Name      string `json:"name"`
	Type      string `json:"type"`
	NotNull   bool   `json:"notnull,omitempty"`
	Default   string `json:"default,omitempty"` // SQL text as written in DDL
	Gen       string `json:"gen,omitempty"`     // generated expression
	GenStored bool   `json:"gen_stored,omitempty"`
}

type Part struct {
	Col  string `json:"col,omitempty"`
	Expr string `json:"expr,omitempty"`
	Desc bool   `json:"desc,omitempty"`
}

type Index struct {
	Name   string `json:"name"`
	Unique bool   `json:"unique,omitempty"`
	Parts  []Part `json:"parts"`
	Where  string `json:"where,omitempty"`
	// LowerKW: in native style the statement is written with lower-case keywords (create index ... on ... where ...),
	// the way many people type it; SQLite keeps the text as typed in sqlite_master.
	LowerKW bool `json:"lower_kw,omitempty"`
	// Note: in native style a comment sits between the index parts and the WHERE keyword (kept by SQLite in the stored text)
	Note bool `json:"note,omitempty"`
	// Loose (native style): bit 0 = expression parts without parentheses of their own, bit 1 = explicit ASC on ascending parts
	Loose int `json:"loose,omitempty"`
}

type FK struct {
	Name     string   `json:"name,omitempty"`
	Cols     []string `json:"cols"`
	RefTable string   `json:"ref_table"`
	RefCols  []string `json:"ref_cols"`
	OnUpdate string   `json:"on_update,omitempty"`
	OnDelete string   `json:"on_delete,omitempty"`
	// Short: the native DDL names no parent columns (REFERENCES p); only set when RefCols is the parent's primary key
	Short bool `json:"short,omitempty"`
	// CaseRef: the native DDL spells the parent table in another letter case (SQLite resolves names case-insensitively)
	CaseRef bool `json:"case_ref,omitempty"`
}

type Check struct {
	Name string `json:"name,omitempty"`
	Expr string `json:"expr"`
}

type Table struct {
	Name         string   `json:"name"`
	Cols         []Column `json:"cols"`
	PK           []string `json:"pk,omitempty"`
	AutoInc      bool     `json:"autoinc,omitempty"`
	Indexes      []Index  `json:"indexes,omitempty"`
	FKs          []FK     `json:"fks,omitempty"`
	Checks       []Check  `json:"checks,omitempty"`
	WithoutRowID bool     `json:"without_rowid,omitempty"`
	Strict       bool     `json:"strict,omitempty"`
	InlineUnique []string `json:"inline_unique,omitempty"` // columns declared with an inline UNIQUE constraint (native style only)
	// Remark (native style): the CREATE TABLE text carries a comment line that mentions a constraint which is not there
	Remark bool `json:"remark,omitempty"`
}

type Schema struct {
	Tables []Table `json:"tables"`
}

// SettleShortFKs clears the short-form flag of foreign keys of the current schema whose parent does not keep its primary key
// in the desired schema: a constraint written REFERENCES p follows p's primary key wherever it goes, so the same text
// would mean another foreign key after the migration (Atlas compares the resolved columns, not the text).
func SettleShortFKs(cur, desired *Schema) {
	for ti := range cur.Tables {
		for fi := range cur.Tables[ti].FKs {
			fk := &cur.Tables[ti].FKs[fi]
			if !fk.Short {
				continue
			}
			p := desired.Table(fk.RefTable)
			if p == nil || strings.Join(p.PK, "\x00") != strings.Join(fk.RefCols, "\x00") {
				fk.Short = false
			}
		}
	}
}

func (s *Schema) Table(name string) *Table {
	for i := range s.Tables {
		if s.Tables[i].Name == name {
			return &s.Tables[i]
		}
	}
	return nil
}

func (t *Table) Col(name string) *Column {
	for i := range t.Cols {
		if t.Cols[i].Name == name {
			return &t.Cols[i]
		}
	}
	return nil
}

// Clone deep-copies a schema.
func (s Schema) Clone() Schema {
	out := Schema{}
	for _, t := range s.Tables {
		out.Tables = append(out.Tables, t.Clone())
	}
	return out
}

func (t Table) Clone() Table {
	c := t
	c.Cols = append([]Column{}, t.Cols...)
	c.PK = append([]string{}, t.PK...)
	c.InlineUnique = append([]string{}, t.InlineUnique...)
	c.Indexes = nil
	for _, i := range t.Indexes {
		j := i
		j.Parts = append([]Part{}, i.Parts...)
		c.Indexes = append(c.Indexes, j)
	}
	c.FKs = nil
	for _, f := range t.FKs {
		g := f
		g.Cols = append([]string{}, f.Cols...)
		g.RefCols = append([]string{}, f.RefCols...)
		c.FKs = append(c.FKs, g)
	}
	c.Checks = append([]Check{}, t.Checks...)
	return c
}

// Style selects a DDL dialect: how a human or another tool would have written the same schema.
type Style int

const (
	// StyleAtlas: backquoted identifiers, table-level constraints, upper-case keywords — the shape Atlas emits.
	StyleAtlas Style = iota
	// StyleNative: double-quoted identifiers, inline column constraints where SQL allows them, mixed-case keywords.
	StyleNative
)

// bare: identifiers a person writes without quotes (longer lower-case words; the short ones stay quoted so that both forms occur).
func bare(id string) bool {
	if len(id) < 5 {
		return false
	}
	for i := 0; i < len(id); i++ {
		if c := id[i]; !(c >= 'a' && c <= 'z' || c == '_' || i > 0 && c >= '0' && c <= '9') {
			return false
		}
	}
	return true
}

func q(style Style, id string) string {
	if style == StyleNative && bare(id) {
		return id
	}
	if style == StyleNative {
		return `"` + strings.ReplaceAll(id, `"`, `""`) + `"`
	}
	return "`" + strings.ReplaceAll(id, "`", "``") + "`"
}

func qs(style Style, ids []string) string {
	out := make([]string, len(ids))
	for i, id := range ids {
		out[i] = q(style, id)
	}
	return strings.Join(out, ", ")
}

// DDL renders the CREATE TABLE statement followed by its CREATE INDEX statements.
func (t Table) DDL(style Style) []string {
	var defs []string
	inlinePK := style == StyleNative && len(t.PK) == 1
	inlineFK := map[string]int{}
	inlineCheck := -1
	if style == StyleNative {
		for i, fk := range t.FKs {
			if len(fk.Cols) == 1 && fk.Name == "" {
				if _, dup := inlineFK[fk.Cols[0]]; !dup {
					inlineFK[fk.Cols[0]] = i
				}
			}
		}
		for i, c := range t.Checks {
			if c.Name == "" {
				inlineCheck = i
				break
			}
		}
	}
	inlineCheckCol := ""
	if inlineCheck >= 0 && len(t.Cols) > 0 {
		inlineCheckCol = t.Cols[len(t.Cols)-1].Name
		if t.Cols[len(t.Cols)-1].Gen != "" {
			inlineCheck, inlineCheckCol = -1, ""
		}
	}
	for _, c := range t.Cols {
		d := q(style, c.Name) + " " + c.Type
		if c.Gen != "" {
			kw := "VIRTUAL"
			if c.GenStored {
				kw = "STORED"
			}
			if style == StyleNative {
				d += " generated always as (" + c.Gen + ") " + strings.ToLower(kw)
			} else {
				d += " AS (" + c.Gen + ") " + kw
			}
		}
		if inlinePK && t.PK[0] == c.Name {
			d += " PRIMARY KEY"
			if t.AutoInc {
				d += " AUTOINCREMENT"
			}
		}
		if c.NotNull {
			d += " NOT NULL"
		} else if style == StyleAtlas {
			d += " NULL"
		}
		if c.Default != "" {
			d += " DEFAULT " + c.Default
		}
		for _, u := range t.InlineUnique {
			if style == StyleNative && u == c.Name {
				d += " UNIQUE"
			}
		}
		if i, ok := inlineFK[c.Name]; ok {
			fk := t.FKs[i]
			if fk.Short && style == StyleNative {
				d += " references " + q(style, refName(style, fk)) + actions(fk)
			} else {
				d += " references " + q(style, refName(style, fk)) + " (" + qs(style, fk.RefCols) + ")" + actions(fk)
			}
		}
		if inlineCheckCol == c.Name {
			d += " check (" + t.Checks[inlineCheck].Expr + ")"
		}
		defs = append(defs, d)
	}
	if len(t.PK) > 0 && !inlinePK {
		if t.AutoInc && len(t.PK) == 1 {
			// AUTOINCREMENT is only legal inline; Atlas emits it that way too.
			for i, c := range t.Cols {
				if c.Name == t.PK[0] {
					defs[i] = strings.Replace(defs[i], q(style, c.Name)+" "+c.Type, q(style, c.Name)+" "+c.Type+" PRIMARY KEY AUTOINCREMENT", 1)
				}
			}
		} else {
			defs = append(defs, "PRIMARY KEY ("+qs(style, t.PK)+")")
		}
	}
	if style == StyleAtlas {
		for _, u := range t.InlineUnique {
			_ = u // the atlas style has no inline UNIQUE; callers model it as a unique index instead
		}
	}
	for i, fk := range t.FKs {
		if j, ok := inlineFK[fk.Cols[0]]; ok && j == i && len(fk.Cols) == 1 {
			continue
		}
		d := ""
		if fk.Name != "" {
			d = "CONSTRAINT " + q(style, fk.Name) + " "
			if style == StyleNative { // keywords are case-insensitive; people write them in lower case too
				d = "constraint " + q(style, fk.Name) + " "
			}
		}
		if fk.Short && style == StyleNative {
			d += "FOREIGN KEY (" + qs(style, fk.Cols) + ") REFERENCES " + q(style, refName(style, fk)) + actions(fk)
		} else {
			d += "FOREIGN KEY (" + qs(style, fk.Cols) + ") REFERENCES " + q(style, refName(style, fk)) + " (" + qs(style, fk.RefCols) + ")" + actions(fk)
		}
		defs = append(defs, d)
	}
	for i, c := range t.Checks {
		if i == inlineCheck {
			continue
		}
		d := ""
		if c.Name != "" {
			d = "CONSTRAINT " + q(style, c.Name) + " "
			if style == StyleNative {
				d = "constraint " + q(style, c.Name) + " "
			}
		}
		defs = append(defs, d+"CHECK ("+c.Expr+")")
	}
	create := "CREATE TABLE " + q(style, t.Name) + " (\n  " + strings.Join(defs, ",\n  ") + "\n)"
	if t.Remark && style == StyleNative && len(t.Cols) > 0 {
		create = "CREATE TABLE " + q(style, t.Name) + " (\n  " + strings.Join(defs, ",\n  ") + "\n  -- CHECK (" + q(style, t.Cols[0].Name) + " > 0) was removed, see CONSTRAINT ck_gone\n)"
	}
	var opts []string
	if t.WithoutRowID {
		opts = append(opts, "WITHOUT ROWID")
	}
	if t.Strict {
		opts = append(opts, "STRICT")
	}
	if len(opts) > 0 {
		create += " " + strings.Join(opts, ", ")
	}
	out := []string{create}
	for _, ix := range t.Indexes {
		out = append(out, ix.DDL(style, t.Name))
	}
	return out
}

func actions(fk FK) string {
	s := ""
	if fk.OnUpdate != "" {
		s += " ON UPDATE " + fk.OnUpdate
	}
	if fk.OnDelete != "" {
		s += " ON DELETE " + fk.OnDelete
	}
	return s
}

// refName is the parent table's name as the foreign-key clause spells it.
func refName(style Style, fk FK) string {
	if fk.CaseRef && style == StyleNative && fk.RefTable != "" {
		r := []rune(fk.RefTable)
		if u := strings.ToUpper(string(r[0])); u != string(r[0]) {
			return u + string(r[1:])
		}
		return strings.ToLower(string(r[0])) + string(r[1:])
	}
	return fk.RefTable
}

func (ix Index) DDL(style Style, table string) string {
	var parts []string
	for _, p := range ix.Parts {
		s := q(style, p.Col)
		if p.Expr != "" {
			s = "(" + p.Expr + ")"
			if ix.Loose&1 != 0 && style == StyleNative {
				s = p.Expr // SQLite does not ask for parentheses around an expression part
			}
		}
		if p.Desc {
			s += " DESC"
		} else if ix.Loose&2 != 0 && style == StyleNative {
			s += " ASC"
		}
		parts = append(parts, s)
	}
	kw := "CREATE INDEX "
	if ix.Unique {
		kw = "CREATE UNIQUE INDEX "
	}
	on, where := " ON ", " WHERE "
	if ix.LowerKW && style == StyleNative {
		kw, on, where = strings.ToLower(kw), " on ", " where "
		for i := range parts {
			parts[i] = strings.TrimSuffix(parts[i], " DESC") + map[bool]string{true: " desc"}[strings.HasSuffix(parts[i], " DESC")]
		}
	}
	s := kw + q(style, ix.Name) + on + q(style, table) + " (" + strings.Join(parts, ", ") + ")"
	if ix.Where != "" {
		if ix.Note && style == StyleNative {
			where = " -- only some rows\n" + strings.TrimLeft(where, " ")
		}
		s += where + ix.Where
		if ix.Note && style == StyleNative {
			s += " -- and a remark before the statement ends\n;"
		}
	}
	return s
}

// DDL renders the whole schema.
func (s Schema) DDL(style Style) []string {
	var out []string
	for _, t := range s.Tables {
		// the short form REFERENCES p is only the same foreign key while the parent's primary key equals RefCols
		fks := append([]FK{}, t.FKs...)
		for i := range fks {
			if fks[i].Short {
				p := s.Table(fks[i].RefTable)
				fks[i].Short = p != nil && fks[i].Name == "" && strings.Join(p.PK, "\x00") == strings.Join(fks[i].RefCols, "\x00")
			}
		}
		t.FKs = fks
		out = append(out, t.DDL(style)...)
	}
	return out
}

// Features lists the structural features present (for classification and distinct keys).
func (s Schema) Features() []string {
	f := map[string]bool{}
	for _, t := range s.Tables {
		if t.WithoutRowID {
			f["without_rowid"] = true
		}
		if t.Strict {
			f["strict"] = true
		}
		if t.AutoInc {
			f["autoinc"] = true
		}
		if len(t.PK) > 1 {
			f["composite_pk"] = true
		} else if len(t.PK) == 1 {
			f["pk"] = true
		}
		if len(t.InlineUnique) > 0 {
			f["inline_unique"] = true
		}
		for _, c := range t.Cols {
			if c.Gen != "" {
				f["generated"] = true
			}
			if c.Default != "" {
				f["default"] = true
			}
		}
		for _, i := range t.Indexes {
			f["index"] = true
			if i.Unique {
				f["unique_index"] = true
			}
			if i.Where != "" {
				f["partial_index"] = true
			}
			for _, p := range i.Parts {
				if p.Desc {
					f["desc_index"] = true
				}
				if p.Expr != "" {
					f["expr_index"] = true
				}
			}
		}
		for _, fk := range t.FKs {
			f["fk"] = true
			if fk.RefTable == t.Name {
				f["self_fk"] = true
			}
			if fk.Name != "" {
				f["named_fk"] = true
			}
			if fk.OnDelete != "" || fk.OnUpdate != "" {
				f["fk_action"] = true
			}
		}
		for _, c := range t.Checks {
			f["check"] = true
			if c.Name != "" {
				f["named_check"] = true
			}
		}
	}
	var out []string
	for k := range f {
		out = append(out, k)
	}
	sort.Strings(out)
	return out
}

func (s Schema) String() string { return fmt.Sprintf("%s", strings.Join(s.DDL(StyleAtlas), ";\n")) }

// NonWordNames reports whether any table or column name is not \w+.
func (s Schema) NonWordNames() bool {
	bad := func(n string) bool { return strings.ContainsAny(n, " -.") }
	for _, t := range s.Tables {
		if bad(t.Name) {
			return true
		}
		for _, c := range t.Cols {
			if bad(c.Name) {
				return true
			}
		}
	}
	return false
}
