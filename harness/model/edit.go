package model

import (
	"fmt"
	"strings"

	"pgregory.net/rapid"
)

func mentions(expr, col string) bool { return strings.Contains(expr, qcol(col)) || strings.Contains(expr, "["+col+"]") }

// Sanitize repairs dependencies after edits so that the schema is valid SQLite by construction:
// dangling index parts, checks, generated expressions, key parts and foreign keys are removed, table
// options are made consistent with the key.
func (s *Schema) Sanitize() {
	for ti := range s.Tables {
		tb := &s.Tables[ti]
		has := map[string]bool{}
		for _, c := range tb.Cols {
			has[c.Name] = true
		}
		// generated columns over missing sources disappear (and then their dependants, one more round below)
		for round := 0; round < 2; round++ {
			var cols []Column
			for _, c := range tb.Cols {
				ok := true
				if c.Gen != "" {
					ok = false
					for n := range has {
						if n != c.Name && mentions(c.Gen, n) && tb.Col(n) != nil && tb.Col(n).Gen == "" {
							ok = true
						}
					}
				}
				if ok {
					cols = append(cols, c)
				} else {
					delete(has, c.Name)
				}
			}
			tb.Cols = cols
		}
		for i := range tb.Cols {
			c := &tb.Cols[i]
			if c.Gen != "" {
				c.Default = ""
			}
			if tb.Strict {
				ok := false
				for _, st := range StrictTypes {
					if strings.EqualFold(c.Type, st) {
						ok = true
					}
				}
				if !ok {
					// a keyword default of the old type does not move to another type (TRUE on a text column would be a string)
					if l := strings.ToLower(c.Default); l == "true" || l == "false" {
						c.Default = ""
					}
					switch {
					case isNumeric(c.Type) && !strings.Contains(strings.ToLower(c.Type), "int"):
						c.Type = "real"
					case isNumeric(c.Type):
						c.Type = "integer"
					case strings.ToLower(c.Type) == "blob":
						c.Type = "blob"
					default:
						c.Type = "text"
					}
				}
			} else if strings.EqualFold(c.Type, "any") {
				c.Type = "text"
			}
		}
		plain := map[string]bool{}
		for _, c := range tb.Cols {
			if c.Gen == "" {
				plain[c.Name] = true
			}
		}
		var pk []string
		for _, p := range tb.PK {
			if plain[p] {
				pk = append(pk, p)
			}
		}
		tb.PK = pk
		if tb.AutoInc && (len(tb.PK) != 1 || !strings.EqualFold(tb.Col(tb.PK[0]).Type, "integer") || tb.Strict && false) {
			tb.AutoInc = false
		}
		if tb.AutoInc {
			tb.WithoutRowID = false
		}
		if len(tb.PK) == 0 {
			tb.WithoutRowID = false
		}
		if tb.WithoutRowID {
			for _, p := range tb.PK {
				tb.Col(p).NotNull = true
			}
		}
		exprOK := func(e string) bool {
			// every quoted identifier mentioned must be an existing plain column ("name" and [name] alike)
			for rest := e; ; {
				i := strings.Index(rest, "[")
				if i == -1 {
					break
				}
				j := strings.Index(rest[i+1:], "]")
				if j == -1 {
					break
				}
				if !plain[rest[i+1:i+1+j]] {
					return false
				}
				rest = rest[i+j+2:]
			}
			rest := e
			for {
				i := strings.Index(rest, `"`)
				if i == -1 {
					return true
				}
				j := strings.Index(rest[i+1:], `"`)
				if j == -1 {
					return true
				}
				if !plain[rest[i+1:i+1+j]] {
					return false
				}
				rest = rest[i+j+2:]
			}
		}
		var idx []Index
		seenIdx := map[string]bool{}
		for _, ix := range tb.Indexes {
			ok := len(ix.Parts) > 0 && !seenIdx[ix.Name] && exprOK(ix.Where)
			seenP := map[string]bool{}
			for _, p := range ix.Parts {
				key := p.Col + "|" + p.Expr
				if p.Expr == "" && !plain[p.Col] || p.Expr != "" && !exprOK(p.Expr) || seenP[key] {
					ok = false
				}
				seenP[key] = true
			}
			if ok {
				seenIdx[ix.Name] = true
				idx = append(idx, ix)
			}
		}
		tb.Indexes = idx
		var chk []Check
		seenChk := map[string]bool{}
		for _, c := range tb.Checks {
			if exprOK(c.Expr) && !seenChk[c.Expr] && (c.Name == "" || !seenChk["n:"+c.Name]) {
				chk = append(chk, c)
				seenChk[c.Expr] = true
				seenChk["n:"+c.Name] = true
			}
		}
		tb.Checks = chk
		var iu []string
		for _, u := range tb.InlineUnique {
			if plain[u] {
				iu = append(iu, u)
			}
		}
		tb.InlineUnique = iu
	}
	// foreign keys need an existing, unique target
	for ti := range s.Tables {
		tb := &s.Tables[ti]
		var fks []FK
		seen := map[string]bool{}
		for _, fk := range tb.FKs {
			ref := s.Table(fk.RefTable)
			ok := ref != nil && len(fk.Cols) == len(fk.RefCols) && len(fk.Cols) > 0
			for _, c := range fk.Cols {
				if cc := tb.Col(c); cc == nil || cc.Gen != "" {
					ok = false
				} else if (fk.OnDelete == "SET NULL" || fk.OnUpdate == "SET NULL") && cc.NotNull {
					fk.OnDelete, fk.OnUpdate = "", ""
				}
			}
			if ok {
				ok = uniqueTarget(ref, fk.RefCols)
			}
			key := fmt.Sprint(fk.Cols, fk.RefTable, fk.RefCols)
			if ok && !seen[key] && (fk.Name == "" || !seen["n:"+fk.Name]) {
				seen[key], seen["n:"+fk.Name] = true, true
				fks = append(fks, fk)
			}
		}
		tb.FKs = fks
	}
}

func uniqueTarget(ref *Table, cols []string) bool {
	same := func(a, b []string) bool {
		if len(a) != len(b) {
			return false
		}
		m := map[string]int{}
		for _, x := range a {
			m[x]++
		}
		for _, x := range b {
			m[x]--
		}
		for _, v := range m {
			if v != 0 {
				return false
			}
		}
		return true
	}
	if same(ref.PK, cols) {
		return true
	}
	for _, ix := range ref.Indexes {
		if !ix.Unique || ix.Where != "" {
			continue
		}
		var cs []string
		plainParts := true
		for _, p := range ix.Parts {
			if p.Expr != "" {
				plainParts = false
			}
			cs = append(cs, p.Col)
		}
		if plainParts && same(cs, cols) {
			return true
		}
	}
	return false
}

// Edit applies one random elementary edit to s and returns its kind ("" when it was not applicable).
// protect names columns that must never be touched (the C05 key column).
func Edit(t *rapid.T, s *Schema, o Opts, protect map[string]bool) string {
	wordOnly = o.WordNames
	defer func() { wordOnly = false }()
	if len(s.Tables) == 0 {
		return editAddTable(t, s, o)
	}
	kinds := []string{"add-column", "drop-column", "modify-type", "modify-null", "modify-default", "toggle-generated",
		"add-index", "drop-index", "modify-index", "change-pk", "add-fk", "drop-fk", "modify-fk", "add-check", "drop-check",
		"toggle-without-rowid", "toggle-strict", "add-table", "drop-table", "add-column", "add-index", "modify-type", "retype-notnull"}
	if len(o.Kinds) > 0 {
		kinds = o.Kinds
	}
	kind := pick(t, "edit", kinds)
	ti := rapid.IntRange(0, len(s.Tables)-1).Draw(t, "etable")
	tb := &s.Tables[ti]
	used := map[string]bool{}
	for _, c := range tb.Cols {
		used[c.Name] = true
	}
	editable := func() []int {
		var out []int
		for i, c := range tb.Cols {
			if !protect[c.Name] && c.Gen == "" {
				out = append(out, i)
			}
		}
		return out
	}
	switch kind {
	case "add-column":
		cn, ok := unusedName(t, "newcol", append(append([]string{}, ColNames...), "extra", "n1"), used)
		if !ok {
			return ""
		}
		tb.Cols = append(tb.Cols, genColumn(t, cn, tb.Strict, o))
	case "drop-column":
		ed := editable()
		if len(ed) == 0 || len(plainCols(tb)) <= 1 {
			return ""
		}
		i := pick(t, "dropcol", ed)
		tb.Cols = append(tb.Cols[:i], tb.Cols[i+1:]...)
	case "modify-type":
		ed := editable()
		if len(ed) == 0 {
			return ""
		}
		c := &tb.Cols[pick(t, "modcol", ed)]
		old := c.Type
		if tb.Strict {
			c.Type = pick(t, "newstype", StrictTypes)
		} else {
			c.Type = pick(t, "newtype", Types)
		}
		if c.Type == old {
			return ""
		}
		c.Default = ""
	case "retype-notnull":
		// one column changes in two ways at once: it becomes NOT NULL and moves to another numeric type, its DEFAULT stays
		// (the value stored NULLs are back-filled with)
		var cand []int
		for _, i := range editable() {
			if c := tb.Cols[i]; !c.NotNull && c.Default != "" && isNumeric(c.Type) && !strings.ContainsAny(c.Default, "(.") {
				cand = append(cand, i)
			}
		}
		if len(cand) == 0 {
			return ""
		}
		c := &tb.Cols[pick(t, "modcol", cand)]
		old := c.Type
		pool := []string{"integer", "real", "numeric", "double", "bigint"}
		if tb.Strict {
			pool = []string{"integer", "real"}
		}
		c.Type = pick(t, "newntype", pool)
		if strings.EqualFold(c.Type, old) {
			return ""
		}
		c.NotNull = true
	case "modify-null":
		ed := editable()
		if len(ed) == 0 {
			return ""
		}
		c := &tb.Cols[pick(t, "modcol", ed)]
		c.NotNull = !c.NotNull
	case "modify-default":
		ed := editable()
		if len(ed) == 0 {
			return ""
		}
		c := &tb.Cols[pick(t, "modcol", ed)]
		old := c.Default
		if strings.HasPrefix(old, "'") && strings.ToUpper(old) != strings.ToLower(old) && rapid.IntRange(0, 2).Draw(t, "casedef") == 0 {
			// the same text in another letter case is another default
			if c.Default = strings.ToUpper(old); c.Default == old {
				c.Default = strings.ToLower(old)
			}
		} else if old != "" && rapid.Bool().Draw(t, "dropdef") {
			c.Default = ""
		} else {
			for i := 0; i < 3 && c.Default == old; i++ {
				c.Default = genDefault(t, c.Type, o)
			}
		}
		if c.Default == old {
			return ""
		}
	case "toggle-generated":
		if o.NoGenerated {
			return ""
		}
		// half of the time an existing generated column only changes its storage (STORED <-> VIRTUAL)
		for i, c := range tb.Cols {
			if c.Gen != "" && rapid.Bool().Draw(t, "storageonly") {
				tb.Cols[i].GenStored = !c.GenStored
				return "generated-storage"
			}
		}
		for i, c := range tb.Cols {
			if c.Gen != "" {
				tb.Cols = append(tb.Cols[:i], tb.Cols[i+1:]...)
				s.Sanitize()
				return "drop-generated"
			}
		}
		cn, ok := unusedName(t, "gencol", []string{"g1", "g2"}, used)
		if !ok {
			return ""
		}
		typ := "text"
		if tb.Strict {
			typ = "any"
		}
		tb.Cols = append(tb.Cols, Column{Name: cn, Type: typ, Gen: qcol(pick(t, "gensrc", plainCols(tb))) + " || 'z'", GenStored: false})
		s.Sanitize()
		return "add-generated"
	case "add-index":
		tb.Indexes = append(tb.Indexes, genIndex(t, tb, fmt.Sprintf("idx_%s_n%d", strings.ReplaceAll(tb.Name, " ", "_"), rapid.IntRange(0, 3).Draw(t, "ixn")), o))
	case "drop-index":
		if len(tb.Indexes) == 0 {
			return ""
		}
		i := rapid.IntRange(0, len(tb.Indexes)-1).Draw(t, "dropidx")
		tb.Indexes = append(tb.Indexes[:i], tb.Indexes[i+1:]...)
	case "modify-index":
		if len(tb.Indexes) == 0 {
			return ""
		}
		i := rapid.IntRange(0, len(tb.Indexes)-1).Draw(t, "modidx")
		ix := &tb.Indexes[i]
		switch rapid.IntRange(0, 3).Draw(t, "modidxkind") {
		case 0:
			ix.Unique = !ix.Unique
			kind = "modify-index-unique"
		case 1:
			n := genIndex(t, tb, ix.Name, o)
			ix.Parts = n.Parts
			kind = "modify-index-parts"
		case 2:
			ix.Parts[0].Desc = !ix.Parts[0].Desc
			kind = "modify-index-desc"
		default:
			if ix.Where != "" {
				ix.Where = ""
			} else {
				ix.Where = qcol(pick(t, "wcol", plainCols(tb))) + " IS NOT NULL"
			}
			kind = "modify-index-where"
		}
	case "change-pk":
		if tb.AutoInc || protectAny(protect, tb.PK) {
			return ""
		}
		plain := plainCols(tb)
		switch rapid.IntRange(0, 2).Draw(t, "pkedit") {
		case 0:
			if len(tb.PK) == 0 {
				return ""
			}
			tb.PK = nil
			kind = "drop-pk"
		case 1:
			tb.PK = []string{pick(t, "newpk", plain)}
			kind = "set-pk"
		default:
			perm := rapid.Permutation(plain).Draw(t, "newpkperm")
			tb.PK = perm[:min(2, len(perm))]
			kind = "set-composite-pk"
		}
	case "add-fk":
		fk, ok := genFK(t, s, ti, 5+rapid.IntRange(0, 3).Draw(t, "fkn"))
		if !ok {
			return ""
		}
		tb.FKs = append(tb.FKs, fk)
	case "drop-fk":
		if len(tb.FKs) == 0 {
			return ""
		}
		i := rapid.IntRange(0, len(tb.FKs)-1).Draw(t, "dropfk")
		tb.FKs = append(tb.FKs[:i], tb.FKs[i+1:]...)
	case "modify-fk":
		if len(tb.FKs) == 0 {
			return ""
		}
		fk := &tb.FKs[rapid.IntRange(0, len(tb.FKs)-1).Draw(t, "modfk")]
		old := fk.OnDelete + "|" + fk.OnUpdate
		fk.OnDelete, fk.OnUpdate = pick(t, "newondel", Actions), pick(t, "newonupd", Actions)
		if norm(fk.OnDelete)+"|"+norm(fk.OnUpdate) == normPair(old) {
			return ""
		}
	case "add-check":
		tb.Checks = append(tb.Checks, genCheck(t, tb, 5+rapid.IntRange(0, 3).Draw(t, "ckn")))
	case "drop-check":
		if len(tb.Checks) == 0 {
			return ""
		}
		i := rapid.IntRange(0, len(tb.Checks)-1).Draw(t, "dropck")
		tb.Checks = append(tb.Checks[:i], tb.Checks[i+1:]...)
	case "toggle-without-rowid":
		if len(tb.PK) == 0 || tb.AutoInc {
			return ""
		}
		tb.WithoutRowID = !tb.WithoutRowID
	case "toggle-strict":
		if o.NoStrict {
			return ""
		}
		tb.Strict = !tb.Strict
	case "add-table":
		return editAddTable(t, s, o)
	case "drop-table":
		if len(s.Tables) <= 1 {
			return ""
		}
		s.Tables = append(s.Tables[:ti], s.Tables[ti+1:]...)
	}
	s.Sanitize()
	return kind
}

func norm(a string) string {
	if a == "" {
		return "NO ACTION"
	}
	return a
}

func normPair(p string) string {
	x := strings.SplitN(p, "|", 2)
	return norm(x[0]) + "|" + norm(x[1])
}

func protectAny(protect map[string]bool, cols []string) bool {
	for _, c := range cols {
		if protect[c] {
			return true
		}
	}
	return false
}

func editAddTable(t *rapid.T, s *Schema, o Opts) string {
	used := map[string]bool{}
	for _, tb := range s.Tables {
		used[tb.Name] = true
	}
	name, ok := unusedName(t, "newtable", TableNames, used)
	if !ok {
		return ""
	}
	s.Tables = append(s.Tables, GenTable(t, name, o))
	if fk, ok := genFK(t, s, len(s.Tables)-1, 9); ok && rapid.Bool().Draw(t, "newtablefk") {
		s.Tables[len(s.Tables)-1].FKs = append(s.Tables[len(s.Tables)-1].FKs, fk)
	}
	s.Sanitize()
	return "add-table"
}
