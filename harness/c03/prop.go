// Package c03: schema exports are faithful — inspected HCL and SQL recreate the same database.
package c03

import (
	"bytes"
	"context"
	"fmt"
	"strings"

	"ariga.io/atlas/sql/migrate"
	"ariga.io/atlas/sql/schema"
	"ariga.io/atlas/sql/sqlite"

	"verif/cli"
	"verif/eng"
	"verif/model"
	"verif/sqliteref"
)

type Case struct {
	S     model.Schema `json:"s"`
	Route int          `json:"route"` // 0 native DDL, 1 atlas-style DDL, 2 created by Atlas itself
	CLI   bool         `json:"cli"`
}

func build(ctx context.Context, s model.Schema, route int) (*eng.DB, error) {
	db, err := eng.New(ctx)
	if err != nil {
		return nil, fmt.Errorf("harness: %v", err)
	}
	if route < 2 {
		if err := db.Exec(s.DDL(model.Style(1 - route))...); err != nil {
			db.Close()
			return nil, fmt.Errorf("harness: generated DDL rejected by SQLite: %v", err)
		}
		return db, nil
	}
	src, err := build(ctx, s, 0)
	if err != nil {
		db.Close()
		return nil, err
	}
	defer src.Close()
	desired, err := src.Inspect(ctx)
	if err != nil {
		db.Close()
		return nil, fmt.Errorf("inspect: %v", err)
	}
	cur, _ := db.Inspect(ctx)
	changes, err := db.Diff(cur, desired)
	if err == nil {
		err = db.Apply(ctx, changes)
	}
	if err != nil {
		db.Close()
		return nil, fmt.Errorf("route atlas: creating the database through Atlas failed: %v", err)
	}
	return db, nil
}

func kinds(cs []schema.Change) string {
	var out []string
	for _, c := range cs {
		s := fmt.Sprintf("%T", c)
		if m, ok := c.(*schema.ModifyTable); ok {
			s += "{" + kinds(m.Changes) + "}"
		}
		out = append(out, s)
	}
	return strings.Join(out, ", ")
}

// sqlExport replicates cmdlog.sqlInspect: the dump-mode plan of (empty -> realm) formatted by DefaultFormatter.
func sqlExport(ctx context.Context, db *eng.DB, r *schema.Realm) (string, error) {
	var changes schema.Changes
	for _, s := range r.Schemas {
		for _, t := range s.Tables {
			changes = append(changes, &schema.AddTable{T: t})
		}
	}
	plan, err := db.Client.PlanChanges(ctx, "plan", changes, func(o *migrate.PlanOptions) {
		o.Mode = migrate.PlanModeDump
		o.SchemaQualifier = new(string)
		o.Indent = "  "
	})
	if err != nil {
		return "", err
	}
	f, err := migrate.DefaultFormatter.FormatFile(plan)
	if err != nil {
		return "", err
	}
	return string(f.Bytes()), nil
}

func checkCase(c Case) error {
	if c.CLI {
		return checkCLI(c)
	}
	ctx := context.Background()
	db, err := build(ctx, c.S, c.Route)
	if err != nil {
		return err
	}
	defer db.Close()
	r, err := db.Inspect(ctx)
	if err != nil {
		return fmt.Errorf("inspect: %v", err)
	}
	h, err := sqlite.MarshalHCL(r)
	if err != nil {
		return fmt.Errorf("MarshalHCL: %v", err)
	}
	// inspecting the same unchanged database twice yields identical output
	rb, err := db.Inspect(ctx)
	if err != nil {
		return fmt.Errorf("second inspect: %v", err)
	}
	hb, err := sqlite.MarshalHCL(rb)
	if err != nil {
		return fmt.Errorf("MarshalHCL (second inspect): %v", err)
	}
	if !bytes.Equal(h, hb) {
		return fmt.Errorf("two inspections of the unchanged database marshal differently:\n%s\n---\n%s", h, hb)
	}
	// HCL export -> evaluate -> no changes, both directions
	var r2 schema.Realm
	if err := sqlite.EvalHCLBytes(h, &r2, nil); err != nil {
		return fmt.Errorf("the HCL export does not evaluate: %v\n%s", err, h)
	}
	rc, _ := db.Inspect(ctx) // fresh copies: diff normalisation mutates its inputs
	if ch, err := db.Diff(rc, &r2); err != nil {
		return fmt.Errorf("diff(db, hcl): %v", err)
	} else if len(ch) > 0 {
		return fmt.Errorf("diff(database, evaluated HCL export) is not empty: %s\nHCL:\n%s", kinds(ch), h)
	}
	var r3 schema.Realm
	sqlite.EvalHCLBytes(h, &r3, nil)
	rd, _ := db.Inspect(ctx)
	if ch, err := db.Diff(&r3, rd); err != nil {
		return fmt.Errorf("diff(hcl, db): %v", err)
	} else if len(ch) > 0 {
		return fmt.Errorf("diff(evaluated HCL export, database) is not empty: %s\nHCL:\n%s", kinds(ch), h)
	}
	// the same loop for the schema-scoped document (Driver.InspectSchema -> MarshalHCL of the *schema.Schema): references
	// inside it are written unqualified, and the parent columns of a self-reference as plain column references
	s1, err := db.Client.InspectSchema(ctx, "main", nil)
	if err != nil {
		return fmt.Errorf("InspectSchema: %v", err)
	}
	hs, err := sqlite.MarshalHCL(s1)
	if err != nil {
		return fmt.Errorf("MarshalHCL(schema): %v", err)
	}
	for dir := 0; dir < 2; dir++ {
		var s2 schema.Schema
		if err := sqlite.EvalHCLBytes(hs, &s2, nil); err != nil {
			return fmt.Errorf("the schema-scoped HCL export does not evaluate: %v\n%s", err, hs)
		}
		sc, err := db.Client.InspectSchema(ctx, "main", nil)
		if err != nil {
			return fmt.Errorf("InspectSchema: %v", err)
		}
		from, to, what := sc, &s2, "diff(database, evaluated schema-scoped HCL export)"
		if dir == 1 {
			from, to, what = &s2, sc, "diff(evaluated schema-scoped HCL export, database)"
		}
		if ch, err := db.Client.SchemaDiff(from, to, schema.DiffNormalized()); err != nil {
			return fmt.Errorf("%s: %v", what, err)
		} else if len(ch) > 0 {
			return fmt.Errorf("%s is not empty: %s\nHCL:\n%s", what, kinds(ch), hs)
		}
	}
	// SQL export -> run on an empty database -> same database
	re, _ := db.Inspect(ctx)
	sqlText, err := sqlExport(ctx, db, re)
	if err != nil {
		return fmt.Errorf("SQL export: %v", err)
	}
	stmts, err := (*sqlite.Driver)(nil).ScanStmts(sqlText)
	if err != nil {
		return fmt.Errorf("SQL export does not scan: %v\n%s", err, sqlText)
	}
	d2, err := eng.New(ctx)
	if err != nil {
		return fmt.Errorf("harness: %v", err)
	}
	defer d2.Close()
	for _, s := range stmts {
		if err := d2.Exec(s.Text); err != nil {
			return fmt.Errorf("SQL export fails on an empty database: %v\nexport:\n%s", err, sqlText)
		}
	}
	ca, err := db.Catalog()
	if err != nil {
		return fmt.Errorf("harness: %v", err)
	}
	cb, err := d2.Catalog()
	if err != nil {
		return fmt.Errorf("harness: %v", err)
	}
	if df := sqliteref.Diff(ca, cb); len(df) > 0 {
		return fmt.Errorf("the database recreated from the SQL export differs from the original:\n  %s\nexport:\n%s", strings.Join(df, "\n  "), sqlText)
	}
	rf, _ := db.Inspect(ctx)
	rg, err := d2.Inspect(ctx)
	if err != nil {
		return fmt.Errorf("inspect recreated: %v", err)
	}
	if ch, err := db.Diff(rf, rg); err != nil || len(ch) > 0 {
		return fmt.Errorf("diff(original, recreated from SQL export) = %s (err %v)\nexport:\n%s", kinds(ch), err, sqlText)
	}
	rf2, _ := db.Inspect(ctx)
	rg2, _ := d2.Inspect(ctx)
	if ch, err := db.Diff(rg2, rf2); err != nil || len(ch) > 0 {
		return fmt.Errorf("diff(recreated from SQL export, original) = %s (err %v)\nexport:\n%s", kinds(ch), err, sqlText)
	}
	return nil
}

func checkCLI(c Case) error {
	sb, err := cli.NewSandbox()
	if err != nil {
		return fmt.Errorf("harness: %v", err)
	}
	defer sb.Close()
	orig := sb.Path("orig.db")
	db, err := sqliteref.OpenFile(orig)
	if err != nil {
		return fmt.Errorf("harness: %v", err)
	}
	defer db.Close()
	for _, s := range append([]string{"PRAGMA user_version = 0"}, c.S.DDL(model.Style(1-c.Route%2))...) {
		if _, err := db.Exec(s); err != nil {
			return fmt.Errorf("harness: generated DDL rejected by SQLite: %v", err)
		}
	}
	url := "sqlite://" + orig
	i1 := sb.Run("schema", "inspect", "--url", url)
	i2 := sb.Run("schema", "inspect", "--url", url)
	if i1.Code != 0 {
		return fmt.Errorf("schema inspect failed: %v", i1)
	}
	if i1.Stdout != i2.Stdout {
		return fmt.Errorf("two `schema inspect` runs on the unchanged database differ:\n%s\n---\n%s", i1.Stdout, i2.Stdout)
	}
	sb.WriteFile("schema.hcl", i1.Stdout)
	for _, dir := range [][2]string{{url, "file://schema.hcl"}, {"file://schema.hcl", url}} {
		d := sb.Run("schema", "diff", "--from", dir[0], "--to", dir[1], "--dev-url", "sqlite://dev?mode=memory")
		if d.Code != 0 || !strings.Contains(d.Stdout, "Schemas are synced") {
			return fmt.Errorf("schema diff %s -> %s is not empty: %v\nHCL:\n%s", dir[0], dir[1], d, i1.Stdout)
		}
	}
	s1 := sb.Run("schema", "inspect", "--url", url, "--format", "{{ sql . }}")
	if s1.Code != 0 {
		return fmt.Errorf("schema inspect --format sql failed: %v", s1)
	}
	stmts, err := (*sqlite.Driver)(nil).ScanStmts(s1.Stdout)
	if err != nil {
		return fmt.Errorf("SQL export does not scan: %v\n%s", err, s1.Stdout)
	}
	db2, err := sqliteref.OpenFile(sb.Path("copy.db"))
	if err != nil {
		return fmt.Errorf("harness: %v", err)
	}
	defer db2.Close()
	db2.Exec("PRAGMA user_version = 0")
	for _, s := range stmts {
		if _, err := db2.Exec(s.Text); err != nil {
			return fmt.Errorf("SQL export fails on an empty database: %v\nexport:\n%s", err, s1.Stdout)
		}
	}
	ca, err := sqliteref.Dump(db)
	if err != nil {
		return fmt.Errorf("harness: %v", err)
	}
	cb, err := sqliteref.Dump(db2)
	if err != nil {
		return fmt.Errorf("harness: %v", err)
	}
	if df := sqliteref.Diff(ca, cb); len(df) > 0 {
		return fmt.Errorf("the database recreated from `schema inspect --format sql` differs from the original:\n  %s\nexport:\n%s", strings.Join(df, "\n  "), s1.Stdout)
	}
	d := sb.Run("schema", "diff", "--from", url, "--to", "sqlite://"+sb.Path("copy.db"))
	if d.Code != 0 || !strings.Contains(d.Stdout, "Schemas are synced") {
		return fmt.Errorf("schema diff original -> recreated is not empty: %v", d)
	}
	return nil
}
