package c17

import (
	"fmt"
	"strings"
	"testing"

	"pgregory.net/rapid"

	"verif/ev"
	"verif/model"
)

var known = ev.Matcher[Case]{}

const rule = "SQLite (current, desired) pairs on a real engine, biased to reversible plans: desired = 1-4 edits drawn from {add/drop table (with indexes, FKs, checks), add/drop index, add column} " +
	"(70%) or from the full edit catalogue (30%, mostly irreversible rebuilds, for the flag part). If Plan.Reversible: statements are executed, then ReverseStmts() of the changes in reverse order; " +
	"oracle = harness' PRAGMA catalog before == after and Atlas diff original<->result empty in both directions; for every plan: Reversible => every change with a schema Source has >=1 reverse statement. " +
	"Dialect-wide flag/down-file consistency is the sub-check `downfiles` (MySQL, PostgreSQL, SQLite plans x formatters with a down section). " +
	"non-trivial = reversible plan with >=2 statements (engine part) / plan with >=1 reverse statement (down-file part); distinct key = (edit kinds, features, #statements)"

var reversibleKinds = []string{"add-table", "drop-table", "add-index", "drop-index", "add-column", "add-index", "add-table"}

func genCaseInlineUnique(t *rapid.T) Case {
	return genCaseOpts(t, model.Opts{WordNames: true, NoExprIndex: true})
}

func genCase(t *rapid.T) Case {
	return genCaseOpts(t, model.Opts{NoInlineUnique: true, WordNames: true})
}

func genCaseOpts(t *rapid.T, o model.Opts) Case {
	c := Case{A: model.GenSchema(t, 3, o), Route: rapid.IntRange(0, 1).Draw(t, "route")}
	if rapid.IntRange(0, 9).Draw(t, "biased") < 7 {
		o.Kinds = reversibleKinds
	}
	c.B = c.A.Clone()
	for n := rapid.IntRange(1, 4).Draw(t, "nedits"); n > 0; n-- {
		if k := model.Edit(t, &c.B, o, nil); k != "" {
			c.Edits = append(c.Edits, k)
		}
	}
	return c
}

func mkCheck(col *ev.Collector) func(Case) error {
	return func(c Case) error {
		out, err := checkCase(c)
		if out.Rejected != "" {
			col.Reject(out.Rejected)
			return err
		}
		switch {
		case out.Stmts == 0:
			col.Class("engine/empty-plan")
		case out.Reversible:
			col.Class("engine/reversible")
			if out.Stmts >= 2 {
				col.NonTrivial(fmt.Sprintf("%s|%s|%d", strings.Join(c.Edits, ","), strings.Join(c.B.Features(), ","), out.Stmts))
			}
		default:
			col.Class("engine/irreversible")
		}
		for _, e := range c.Edits {
			col.Class("edit/" + e)
		}
		col.Sample(fmt.Sprintf("engine/reversible=%v", out.Reversible), c)
		return err
	}
}

func TestCheck(t *testing.T) {
	col := ev.New("C17", "exploration", rule)
	defer col.Finish()
	if !ev.Rapid(t, col, "engine-up-down", col.N(4000, 600000), genCase, mkCheck(col), known) {
		return
	}
	if !ev.Rapid(t, col, "engine-up-down-inline-unique", col.N(1000, 100000), genCaseInlineUnique, mkCheck(col), known) {
		return
	}
	runDownFiles(t, col)
}

func TestReplay(t *testing.T) {
	if ev.ReplaySub() == "downfiles-dialects" {
		ev.ReplayFile(t, "C17", func(_ string, c GCase) error { _, err := checkDialectDown(c); return err })
		return
	}
	if strings.HasPrefix(ev.ReplaySub(), "downfiles") {
		ev.ReplayFile(t, "C17", func(_ string, c DCase) error { _, err := checkDown(c); return err })
		return
	}
	ev.ReplayFile(t, "C17", func(_ string, c Case) error { _, err := checkCase(c); return err })
}
