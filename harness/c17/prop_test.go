package c17

import (
	"fmt"
	"strings"
	"testing"

	"pgregory.net/rapid"

	"verif/c04"
	"verif/ev"
	"verif/model"
)

var known = ev.Matcher[Case]{}

const rule = "SQLite (current, desired) pairs on a real engine, biased to reversible plans: desired = 1-4 edits drawn from {add/drop table (with indexes, FKs, checks), add/drop index, add column} " +
	"(70%) or from the full edit catalogue (30%, mostly irreversible rebuilds, for the flag part). If Plan.Reversible: statements are executed, then ReverseStmts() of the changes in reverse order; " +
	"oracle = harness' PRAGMA catalog before == after and Atlas diff original<->result empty in both directions; for every plan: Reversible => every change with a schema Source has >=1 reverse statement. " +
	"Dialect-wide flag/down-file consistency is the sub-check `downfiles` (MySQL, PostgreSQL, SQLite plans x formatters with a down section). " +
	"Sub-check `fk-graphs-reverse`: MySQL / PostgreSQL plans over foreign-key graphs (every graph of <=2 tables in quick, <=3 in thorough; random graphs of 5-8 tables, MySQL flavours, two schemas) replayed on a reference catalogue, then their reverse statements last change first: dependency rules respected, initial tables and keys back. " +
	"non-trivial = reversible plan with >=2 statements (engine part) / plan with >=1 reverse statement (down-file part); distinct key = (edit kinds, features, #statements)"

var reversibleKinds = []string{"add-table", "drop-table", "add-index", "drop-index", "add-column", "add-index", "add-table"}

func genCaseInlineUnique(t *rapid.T) Case {
	return genCaseOpts(t, model.Opts{WordNames: true, NoExprIndex: true})
}

func genCase(t *rapid.T) Case {
	return genCaseOpts(t, model.Opts{NoInlineUnique: true, WordNames: true})
}

func genCaseOpts(t *rapid.T, o model.Opts) Case {
	c := Case{A: model.GenSchema(t, 3, o), Route: rapid.IntRange(0, 1).Draw(t, "route")}
	if rapid.IntRange(0, 9).Draw(t, "biased") < 7 {
		o.Kinds = reversibleKinds
	}
	c.B = c.A.Clone()
	for n := rapid.IntRange(1, 4).Draw(t, "nedits"); n > 0; n-- {
		if k := model.Edit(t, &c.B, o, nil); k != "" {
			c.Edits = append(c.Edits, k)
		}
	}
	return c
}

func mkCheck(col *ev.Collector) func(Case) error {
	return func(c Case) error {
		out, err := checkCase(c)
		if out.Rejected != "" {
			col.Reject(out.Rejected)
			return err
		}
		switch {
		case out.Stmts == 0:
			col.Class("engine/empty-plan")
		case out.Reversible:
			col.Class("engine/reversible")
			if out.Stmts >= 2 {
				col.NonTrivial(fmt.Sprintf("%s|%s|%d", strings.Join(c.Edits, ","), strings.Join(c.B.Features(), ","), out.Stmts))
			}
		default:
			col.Class("engine/irreversible")
		}
		for _, e := range c.Edits {
			col.Class("edit/" + e)
		}
		col.Sample(fmt.Sprintf("engine/reversible=%v", out.Reversible), c)
		return err
	}
}

func TestCheck(t *testing.T) {
	col := ev.New("C17", "exploration", rule)
	defer col.Finish()
	if !ev.Rapid(t, col, "engine-up-down", col.N(4000, 600000), genCase, mkCheck(col), known) {
		return
	}
	if !ev.Rapid(t, col, "engine-up-down-inline-unique", col.N(1000, 100000), genCaseInlineUnique, mkCheck(col), known) {
		return
	}
	if !runFKGraphs(t, col) {
		return
	}
	runDownFiles(t, col)
}

// runFKGraphs: MySQL and PostgreSQL have no engine here; what their reverse statements do to tables and foreign keys is
// replayed on C04's reference catalogue: every graph of up to 3 tables (created / dropped / kept, self references, cycles)
// x dialect x plan mode, then random graphs of 5-8 tables incl. the MySQL flavours and two-schema realms.
func runFKGraphs(t *testing.T, col *ev.Collector) bool {
	check := func(c c04.Case) error {
		edges, rev, err := c04.CheckReverse(c)
		col.Class(fmt.Sprintf("fk-graphs/%s/reversible=%v", c.Dialect, rev))
		if rev && edges > 0 {
			col.NonTrivial(fmt.Sprintf("fkgraph|%s|%d|%v|%v|%v|%d|%s|%v", c.Dialect, c.Mode, c.Role, c.FromE, c.ToE, c.Names, c.Flavour, c.Split))
		}
		col.Sample("fk-graphs/"+c.Dialect, c)
		return err
	}
	i := 0
	for _, d := range []string{"mysql", "postgres"} {
		for _, mode := range []int{0, 2} {
			for n := 1; n <= 3; n++ {
				if n == 3 && !col.Thorough() {
					continue // 27 x 512 graphs per dialect and mode: thorough tier
				}
				for _, c := range c04.EnumCases(n, d, mode) {
					i++
					if !col.Mine(i) {
						continue
					}
					if !ev.Each(col, "fk-graphs-reverse", c, check, knownFK) {
						return false
					}
				}
			}
		}
	}
	return ev.Rapid(t, col, "fk-graphs-reverse-random", col.N(1500, 100000), c04.GenRandom, check, knownFK)
}

var knownFK = ev.Matcher[c04.Case]{
	// a dropped table that references itself and another table: the planner detaches the foreign keys of the table before
	// dropping it (DetachCycles counts the self reference as a cycle) and plans the DROP TABLE for a copy without any
	// foreign key, so the reverse CREATE TABLE lacks the self reference. Matches only when nothing but self references of
	// tables is missing after the round trip.
	"detached-drop-loses-self-reference": func(c c04.Case, err error) bool {
		msg := err.Error()
		if !strings.Contains(msg, "does not give back the initial tables and foreign keys") {
			return false
		}
		line := func(prefix string) (tables string, fks map[string]bool) {
			fks = map[string]bool{}
			for _, l := range strings.Split(msg, "\n") {
				l = strings.TrimSpace(l)
				if !strings.HasPrefix(l, prefix) {
					continue
				}
				l = strings.TrimSpace(strings.TrimPrefix(l, prefix))
				i := strings.Index(l, " fks=[")
				if i < 0 {
					return "", nil
				}
				tables = l[:i]
				for _, f := range strings.Fields(strings.TrimSuffix(l[i+len(" fks=["):], "]")) {
					fks[f] = true
				}
				return tables, fks
			}
			return "", nil
		}
		it, ifk := line("initial ")
		at, afk := line("after ")
		if ifk == nil || afk == nil || it != at {
			return false
		}
		missing := 0
		for f := range afk {
			if !ifk[f] {
				return false // something appeared
			}
		}
		for f := range ifk {
			if afk[f] {
				continue
			}
			// "t0.fk_0_0->t0": only a reference of a table to itself may be missing
			dot, arrow := strings.Index(f, ".fk"), strings.Index(f, "->")
			if dot < 0 || arrow < 0 || f[:dot] != f[arrow+2:] {
				return false
			}
			missing++
		}
		return missing > 0
	},
}

func TestReplay(t *testing.T) {
	if strings.HasPrefix(ev.ReplaySub(), "fk-graphs") {
		ev.ReplayFile(t, "C17", func(_ string, c c04.Case) error { _, _, err := c04.CheckReverse(c); return err })
		return
	}
	if ev.ReplaySub() == "downfiles-dialects" {
		ev.ReplayFile(t, "C17", func(_ string, c GCase) error { _, err := checkDialectDown(c); return err })
		return
	}
	if strings.HasPrefix(ev.ReplaySub(), "downfiles") {
		ev.ReplayFile(t, "C17", func(_ string, c DCase) error { _, err := checkDown(c); return err })
		return
	}
	ev.ReplayFile(t, "C17", func(_ string, c Case) error { _, err := checkCase(c); return err })
}
