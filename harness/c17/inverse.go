package c17

import (
	"context"
	"fmt"
	"regexp"
	"sort"
	"strings"

	"ariga.io/atlas/sql/migrate"
	"ariga.io/atlas/sql/mysql"
	"ariga.io/atlas/sql/postgres"
	"ariga.io/atlas/sql/schema"

	"verif/c02"
	"verif/gm"
)

// The inverse-plan relation (MySQL, PostgreSQL: no server offline, so the reverse statements cannot be executed).
// For a plan P: from -> to that is reported reversible, Atlas is asked for the plan Q: to -> from. Q is Atlas' own
// statement of what it takes to get back. Then
//   - Q must exist: if the differ or the planner refuses to -> from, the change cannot be undone and P must not be
//     reported reversible;
//   - every clause of Q must be among the reverse statements of P (compared clause by clause: an ALTER TABLE is split at
//     its top-level commas, so grouping and order do not matter), except the one documented heuristic of the MySQL
//     planner (dropping the index a foreign key created implicitly);
//   - no reverse statement is an ALTER TABLE without a clause or declares an index without key parts.
// Extra clauses in the reverse (restoring an AUTO_INCREMENT counter the differ does not track downwards) are allowed.

var (
	reColDef  = regexp.MustCompile("^(ADD|MODIFY|CHANGE) COLUMN ")
	reCharset = regexp.MustCompile(" (CHARSET|COLLATE) \\w+")
)

var reAlter = regexp.MustCompile("(?s)^ALTER TABLE ((?:[`\"][^`\"]+[`\"]\\.)?[`\"][^`\"]+[`\"])\\s*(.*)$")

// splitTop splits at top-level commas (outside parentheses and quotes).
func splitTop(s string) []string {
	var out []string
	depth, start := 0, 0
	var quote rune
	for i, r := range s {
		switch {
		case quote != 0:
			if r == quote {
				quote = 0
			}
		case r == '\'' || r == '"' || r == '`':
			quote = r
		case r == '(':
			depth++
		case r == ')':
			depth--
		case r == ',' && depth == 0:
			out = append(out, strings.TrimSpace(s[start:i]))
			start = i + 1
		}
	}
	return append(out, strings.TrimSpace(s[start:]))
}

func atoms(stmts []string) (out []string, malformed []string) {
	for _, st := range stmts {
		st = strings.TrimSpace(st)
		m := reAlter.FindStringSubmatch(st)
		if m == nil {
			out = append(out, st)
			continue
		}
		if strings.TrimSpace(m[2]) == "" {
			malformed = append(malformed, st+"   <- ALTER TABLE without a clause")
			continue
		}
		for _, cl := range splitTop(m[2]) {
			// MySQL column definitions: the planner writes a column's CHARSET / COLLATE only when it differs from the table's
			// at planning time, and the table's own character set may change in the same plan; whether two spellings
			// denote the same column depends on that context, so the character set of a column definition is not compared
			if reColDef.MatchString(cl) {
				cl = reCharset.ReplaceAllString(cl, "")
			}
			// DROP PRIMARY KEY, ADD PRIMARY KEY (...) is one MySQL idiom written with a comma
			out = append(out, m[1]+": "+cl)
			if regexp.MustCompile("(?i)\\bINDEX [`\"][^`\"]+[`\"] \\(\\)").MatchString(cl) {
				malformed = append(malformed, st+"   <- index without key parts")
			}
		}
	}
	sort.Strings(out)
	return out, malformed
}

func planner(d string) migrate.PlanApplier {
	if d == "postgres" {
		return postgres.DefaultPlan
	}
	return mysql.DefaultPlan
}

type IOutcome struct {
	Reversible, Compared bool
	Stmts                int
}

func checkInverse(c GCase) (IOutcome, error) {
	var out IOutcome
	base := c02.Base(c.Dialect)
	edited := base.Clone()
	for _, e := range c.Edits {
		if _, err := c02.Apply(c.Dialect, &edited, e); err != nil {
			return out, fmt.Errorf("harness: %v", err)
		}
	}
	plan := func(a, b gm.Schema) (*migrate.Plan, error) {
		from, err := gm.Build(c.Dialect, a)
		if err != nil {
			return nil, fmt.Errorf("harness: %v", err)
		}
		to, err := gm.Build(c.Dialect, b)
		if err != nil {
			return nil, fmt.Errorf("harness: %v", err)
		}
		ch, err := gm.Differ(c.Dialect).SchemaDiff(from, to, schema.DiffNormalized())
		if err != nil {
			return nil, err
		}
		return planner(c.Dialect).PlanChanges(context.Background(), "p", ch, func(o *migrate.PlanOptions) { o.SchemaQualifier = new(string) })
	}
	p, err := plan(base, edited)
	if err != nil || len(p.Changes) == 0 {
		return out, nil // a refused change set is not this relation's business
	}
	out.Stmts = len(p.Changes)
	out.Reversible = p.Reversible
	if !p.Reversible {
		return out, nil
	}
	var fwd, rev []string
	for i := len(p.Changes) - 1; i >= 0; i-- {
		rs, err := p.Changes[i].ReverseStmts()
		if err != nil {
			return out, fmt.Errorf("%s: ReverseStmts: %v", c.Dialect, err)
		}
		rev = append(rev, rs...)
	}
	for _, ch := range p.Changes {
		fwd = append(fwd, ch.Cmd)
	}
	show := func() string {
		return fmt.Sprintf("\n  edits: %+v\n  plan:\n    %s\n  reverse statements:\n    %s", c.Edits, strings.Join(fwd, "\n    "), strings.Join(rev, "\n    "))
	}
	q, err := plan(edited, base)
	if err != nil {
		return out, fmt.Errorf("%s: the plan is reported reversible, but Atlas itself cannot plan the way back (desired -> current): %v%s", c.Dialect, err, show())
	}
	out.Compared = true
	var inv []string
	for _, ch := range q.Changes {
		inv = append(inv, ch.Cmd)
	}
	ra, bad := atoms(rev)
	if len(bad) > 0 {
		return out, fmt.Errorf("%s: a reverse statement of a plan that is reported reversible is empty or malformed:\n    %s%s", c.Dialect, strings.Join(bad, "\n    "), show())
	}
	qa, _ := atoms(inv)
	have := map[string]int{}
	for _, a := range ra {
		have[a]++
	}
	var missing []string
	for _, a := range qa {
		if have[a] > 0 {
			have[a]--
			continue
		}
		if c.Dialect == "mysql" && regexp.MustCompile("^.*: DROP INDEX [`\"]fk_").MatchString(a) {
			continue // the MySQL planner drops the index a foreign key created implicitly when the key's reference changes
		}
		missing = append(missing, a)
	}
	if len(missing) > 0 {
		kinds := map[string]bool{}
		for _, m := range missing {
			w := strings.Fields(m[strings.Index(m, ": ")+1:])
			if strings.HasPrefix(m, "COMMENT ON") {
				w = strings.Fields(m)
			}
			kinds[strings.Join(w[:min(2, len(w))], " ")] = true
		}
		var ks []string
		for k := range kinds {
			ks = append(ks, k)
		}
		sort.Strings(ks)
		return out, fmt.Errorf("%s: the reverse statements of a plan that is reported reversible lack what Atlas itself plans for the way back (missing-kinds: %s):\n    %s\n  plan of desired -> current:\n    %s%s",
			c.Dialect, strings.Join(ks, "|"), strings.Join(missing, "\n    "), strings.Join(inv, "\n    "), show())
	}
	return out, nil
}
