// Package c17: reverse statements undo the plan — up then down restores the original schema.
package c17

import (
	"context"
	"fmt"
	"strings"

	"ariga.io/atlas/sql/migrate"

	"verif/eng"
	"verif/model"
	"verif/sqliteref"
)

type Case struct {
	A     model.Schema `json:"a"`
	B     model.Schema `json:"b"`
	Route int          `json:"route"` // 0 native DDL, 1 atlas-style DDL
	Edits []string     `json:"edits"`
}

type Outcome struct {
	Reversible bool
	Stmts      int
	Reverses   int
	Rejected   string
	Kinds      string
}

func planDump(p *migrate.Plan) string {
	var b strings.Builder
	for i, c := range p.Changes {
		rs, _ := c.ReverseStmts()
		fmt.Fprintf(&b, "    [%d] %s\n         reverse: %q\n", i, c.Cmd, rs)
	}
	return b.String()
}

func checkCase(c Case) (Outcome, error) {
	model.SettleShortFKs(&c.A, &c.B)
	model.SettleShortFKs(&c.B, &c.A)
	var out Outcome
	ctx := context.Background()
	db, err := eng.New(ctx)
	if err != nil {
		return out, fmt.Errorf("harness: %v", err)
	}
	defer db.Close()
	if err := db.Exec(c.A.DDL(model.Style(1 - c.Route))...); err != nil {
		return out, fmt.Errorf("harness: generated DDL rejected by SQLite: %v", err)
	}
	ref, err := eng.New(ctx)
	if err != nil {
		return out, fmt.Errorf("harness: %v", err)
	}
	defer ref.Close()
	styleB := model.StyleAtlas
	for _, t := range c.B.Tables {
		if len(t.InlineUnique) > 0 {
			styleB = model.StyleNative // only the native style renders inline UNIQUE column constraints
		}
	}
	if err := ref.Exec(c.B.DDL(styleB)...); err != nil {
		return out, fmt.Errorf("harness: generated DDL rejected by SQLite: %v", err)
	}
	desired, err := ref.Inspect(ctx)
	if err != nil {
		return out, fmt.Errorf("inspect desired: %v", err)
	}
	cur, err := db.Inspect(ctx)
	if err != nil {
		return out, fmt.Errorf("inspect current: %v", err)
	}
	changes, err := db.Diff(cur, desired)
	if err != nil {
		return out, fmt.Errorf("diff: %v", err)
	}
	plan, err := db.Plan(ctx, changes)
	if err != nil {
		out.Rejected = "plan-time refusal"
		return out, nil
	}
	out.Stmts = len(plan.Changes)
	out.Reversible = plan.Reversible
	// flag consistency: a plan reported reversible has a reverse for every change that carries a schema source
	for i, ch := range plan.Changes {
		rs, err := ch.ReverseStmts()
		if err != nil {
			return out, fmt.Errorf("change %d: %v", i, err)
		}
		out.Reverses += len(rs)
		if plan.Reversible && len(rs) == 0 && ch.Source != nil {
			return out, fmt.Errorf("plan is reported reversible but change %d (%T) has no reverse statement:\n%s", i, ch.Source, planDump(plan))
		}
	}
	if !plan.Reversible || len(plan.Changes) == 0 {
		return out, nil
	}
	before, err := db.Catalog()
	if err != nil {
		return out, fmt.Errorf("harness: %v", err)
	}
	// up
	for i, ch := range plan.Changes {
		if err := db.Exec(ch.Cmd); err != nil {
			return out, fmt.Errorf("up statement %d failed: %v\n%s", i, err, planDump(plan))
		}
	}
	// down: the reverse statements of the changes in reverse order
	for i := len(plan.Changes) - 1; i >= 0; i-- {
		rs, _ := plan.Changes[i].ReverseStmts()
		for _, r := range rs {
			if err := db.Exec(r); err != nil {
				return out, fmt.Errorf("reverse of change %d failed: %v\n%s", i, err, planDump(plan))
			}
		}
	}
	after, err := db.Catalog()
	if err != nil {
		return out, fmt.Errorf("harness: %v", err)
	}
	if d := sqliteref.Diff(before, after); len(d) > 0 {
		return out, fmt.Errorf("up then down did not restore the schema:\n  %s\n%s", strings.Join(d, "\n  "), planDump(plan))
	}
	// Atlas' own view: no difference from the schema it started from, both directions
	orig, err := eng.New(ctx)
	if err != nil {
		return out, fmt.Errorf("harness: %v", err)
	}
	defer orig.Close()
	if err := orig.Exec(c.A.DDL(model.Style(1 - c.Route))...); err != nil {
		return out, fmt.Errorf("harness: %v", err)
	}
	for dir := 0; dir < 2; dir++ {
		x, err := db.Inspect(ctx)
		if err != nil {
			return out, fmt.Errorf("inspect after down: %v", err)
		}
		y, err := orig.Inspect(ctx)
		if err != nil {
			return out, fmt.Errorf("inspect original: %v", err)
		}
		if dir == 1 {
			x, y = y, x
		}
		ch, err := db.Diff(x, y)
		if err != nil || len(ch) > 0 {
			return out, fmt.Errorf("after up+down Atlas still sees %d changes (direction %d, err %v):\n%s", len(ch), dir, err, planDump(plan))
		}
	}
	return out, nil
}
