package c17

import (
	"context"
	"fmt"
	"strings"
	"testing"

	"ariga.io/atlas/sql/migrate"
	"ariga.io/atlas/sql/sqlite"
	"ariga.io/atlas/sql/sqltool"
	"pgregory.net/rapid"

	"verif/eng"
	"verif/ev"
	"verif/model"
)

// DCase: a SQLite plan written with every formatter that has a down section.
type DCase struct {
	A      model.Schema `json:"a"`
	B      model.Schema `json:"b"`
	Indent string       `json:"indent"`
	Edits  []string     `json:"edits"`
}

type fmtr struct {
	name string
	f    migrate.Formatter
}

var formatters = []fmtr{{"golang-migrate", sqltool.GolangMigrateFormatter}, {"goose", sqltool.GooseFormatter}, {"flyway", sqltool.FlywayFormatter},
	{"dbmate", sqltool.DBMateFormatter}, {"liquibase", sqltool.LiquibaseFormatter}}

// downSection extracts the text that holds the reverse statements.
func downSection(name string, files []migrate.File) (string, error) {
	switch name {
	case "golang-migrate":
		for _, f := range files {
			if strings.HasSuffix(f.Name(), ".down.sql") {
				return string(f.Bytes()), nil
			}
		}
	case "flyway":
		for _, f := range files {
			if strings.HasPrefix(f.Name(), "U") {
				return string(f.Bytes()), nil
			}
		}
	case "goose":
		s := string(files[0].Bytes())
		if i := strings.Index(s, "-- +goose Down\n"); i != -1 {
			return s[i+len("-- +goose Down\n"):], nil
		}
	case "dbmate":
		s := string(files[0].Bytes())
		if i := strings.Index(s, "-- migrate:down\n"); i != -1 {
			return s[i+len("-- migrate:down\n"):], nil
		}
	}
	return "", fmt.Errorf("no down section found in %d files of formatter %s", len(files), name)
}

type DOutcome struct {
	Reverses   int
	Reversible bool
}

func checkDown(c DCase) (DOutcome, error) {
	var out DOutcome
	ctx := context.Background()
	db, err := eng.New(ctx)
	if err != nil {
		return out, fmt.Errorf("harness: %v", err)
	}
	defer db.Close()
	if err := db.Exec(c.A.DDL(model.StyleNative)...); err != nil {
		return out, fmt.Errorf("harness: %v", err)
	}
	ref, err := eng.New(ctx)
	if err != nil {
		return out, fmt.Errorf("harness: %v", err)
	}
	defer ref.Close()
	if err := ref.Exec(c.B.DDL(model.StyleAtlas)...); err != nil {
		return out, fmt.Errorf("harness: %v", err)
	}
	cur, err := db.Inspect(ctx)
	if err != nil {
		return out, err
	}
	desired, err := ref.Inspect(ctx)
	if err != nil {
		return out, err
	}
	changes, err := db.Diff(cur, desired)
	if err != nil {
		return out, err
	}
	plan, err := sqlite.DefaultPlan.PlanChanges(ctx, "p", changes, func(o *migrate.PlanOptions) { o.Indent = c.Indent })
	if err != nil {
		return out, nil
	}
	plan.Version, plan.Name = "1", "p"
	out.Reversible = plan.Reversible
	// expected: reverse statements of the changes in reverse order
	var want []string
	for i := len(plan.Changes) - 1; i >= 0; i-- {
		rs, err := plan.Changes[i].ReverseStmts()
		if err != nil {
			return out, err
		}
		want = append(want, rs...)
	}
	out.Reverses = len(want)
	for _, f := range formatters {
		files, err := f.f.Format(plan)
		if err != nil {
			return out, fmt.Errorf("%s: Format: %v", f.name, err)
		}
		if f.name == "liquibase" {
			// rollback lines sit next to their change, in change order
			var wantL []string
			for _, ch := range plan.Changes {
				rs, _ := ch.ReverseStmts()
				wantL = append(wantL, rs...)
			}
			var got, rb []string
			text := string(files[0].Bytes())
			for _, l := range strings.Split(text, "\n") {
				if strings.HasPrefix(l, "--rollback: ") {
					rb = append(rb, strings.TrimPrefix(l, "--rollback: "))
				} else if !strings.HasPrefix(l, "--") && strings.TrimSpace(l) != "" && len(rb) > 0 && !strings.HasSuffix(rb[len(rb)-1], ";") {
					return out, fmt.Errorf("liquibase: a rollback statement continues on a line that is not a rollback comment (%q):\n%s", l, text)
				}
			}
			rstmts, err := (*sqlite.Driver)(nil).ScanStmts(strings.Join(rb, "\n"))
			if err != nil {
				return out, fmt.Errorf("liquibase: rollback lines do not scan: %v\n%s", err, text)
			}
			for _, s := range rstmts {
				got = append(got, strings.TrimSuffix(s.Text, ";"))
			}
			if strings.Join(got, "\x00") != strings.Join(wantL, "\x00") {
				return out, fmt.Errorf("liquibase: rollback lines are not exactly the reverse statements\n got:  %q\n want: %q\n file:\n%s", got, wantL, text)
			}
			continue
		}
		down, err := downSection(f.name, files)
		if err != nil {
			if len(want) == 0 {
				continue
			}
			return out, err
		}
		stmts, err := (*sqlite.Driver)(nil).ScanStmts(down)
		if err != nil {
			return out, fmt.Errorf("%s: down section does not scan: %v\n%s", f.name, err, down)
		}
		var got []string
		for _, s := range stmts {
			got = append(got, strings.TrimSuffix(s.Text, ";"))
		}
		if strings.Join(got, "\x00") != strings.Join(want, "\x00") {
			return out, fmt.Errorf("%s: the down file is not exactly the reverse statements in reverse order\n got:  %q\n want: %q\n down:\n%s", f.name, got, want, down)
		}
	}
	return out, nil
}

func genDown(t *rapid.T) DCase {
	o := model.Opts{NoInlineUnique: true, WordNames: true}
	c := DCase{A: model.GenSchema(t, 3, o), Indent: rapid.SampledFrom([]string{"", "  ", "\t"}).Draw(t, "indent")}
	if rapid.IntRange(0, 9).Draw(t, "biased") < 7 {
		o.Kinds = reversibleKinds
	}
	c.B = c.A.Clone()
	for n := rapid.IntRange(1, 4).Draw(t, "nedits"); n > 0; n-- {
		if k := model.Edit(t, &c.B, o, nil); k != "" {
			c.Edits = append(c.Edits, k)
		}
	}
	return c
}

var knownD = ev.Matcher[DCase]{}

func runDownFiles(t *testing.T, col *ev.Collector) {
	check := func(c DCase) error {
		out, err := checkDown(c)
		col.Class(fmt.Sprintf("downfiles/reversible=%v", out.Reversible))
		if out.Reverses > 0 {
			col.NonTrivial(fmt.Sprintf("down|%v|%q|%d", c.Edits, c.Indent, out.Reverses))
		}
		col.Sample("downfiles", c)
		return err
	}
	ev.Rapid(t, col, "downfiles-sqlite", col.N(1500, 150000), genDown, check, knownD)
}
