package c17

import (
	"context"
	"fmt"
	"regexp"
	"strings"
	"testing"

	"ariga.io/atlas/sql/migrate"
	"ariga.io/atlas/sql/mysql"
	"ariga.io/atlas/sql/postgres"
	"ariga.io/atlas/sql/schema"
	"ariga.io/atlas/sql/sqlite"
	"ariga.io/atlas/sql/sqltool"
	"pgregory.net/rapid"

	"verif/c02"
	"verif/eng"
	"verif/ev"
	"verif/gm"
	"verif/model"
)

// DCase: a SQLite plan written with every formatter that has a down section.
type DCase struct {
	A      model.Schema `json:"a"`
	B      model.Schema `json:"b"`
	Indent string       `json:"indent"`
	Edits  []string     `json:"edits"`
}

type fmtr struct {
	name string
	f    migrate.Formatter
}

var formatters = []fmtr{{"golang-migrate", sqltool.GolangMigrateFormatter}, {"goose", sqltool.GooseFormatter}, {"flyway", sqltool.FlywayFormatter},
	{"dbmate", sqltool.DBMateFormatter}, {"liquibase", sqltool.LiquibaseFormatter}}

// downSection extracts the text that holds the reverse statements.
func downSection(name string, files []migrate.File) (string, error) {
	switch name {
	case "golang-migrate":
		for _, f := range files {
			if strings.HasSuffix(f.Name(), ".down.sql") {
				return string(f.Bytes()), nil
			}
		}
	case "flyway":
		for _, f := range files {
			if strings.HasPrefix(f.Name(), "U") {
				return string(f.Bytes()), nil
			}
		}
	case "goose":
		s := string(files[0].Bytes())
		if i := strings.Index(s, "-- +goose Down\n"); i != -1 {
			return s[i+len("-- +goose Down\n"):], nil
		}
	case "dbmate":
		s := string(files[0].Bytes())
		if i := strings.Index(s, "-- migrate:down\n"); i != -1 {
			return s[i+len("-- migrate:down\n"):], nil
		}
	}
	return "", fmt.Errorf("no down section found in %d files of formatter %s", len(files), name)
}

type DOutcome struct {
	Reverses   int
	Reversible bool
}

func checkDown(c DCase) (DOutcome, error) {
	model.SettleShortFKs(&c.A, &c.B)
	model.SettleShortFKs(&c.B, &c.A)
	var out DOutcome
	ctx := context.Background()
	db, err := eng.New(ctx)
	if err != nil {
		return out, fmt.Errorf("harness: %v", err)
	}
	defer db.Close()
	if err := db.Exec(c.A.DDL(model.StyleNative)...); err != nil {
		return out, fmt.Errorf("harness: %v", err)
	}
	ref, err := eng.New(ctx)
	if err != nil {
		return out, fmt.Errorf("harness: %v", err)
	}
	defer ref.Close()
	if err := ref.Exec(c.B.DDL(model.StyleAtlas)...); err != nil {
		return out, fmt.Errorf("harness: %v", err)
	}
	cur, err := db.Inspect(ctx)
	if err != nil {
		return out, err
	}
	desired, err := ref.Inspect(ctx)
	if err != nil {
		return out, err
	}
	changes, err := db.Diff(cur, desired)
	if err != nil {
		return out, err
	}
	plan, err := sqlite.DefaultPlan.PlanChanges(ctx, "p", changes, func(o *migrate.PlanOptions) { o.Indent = c.Indent })
	if err != nil {
		return out, nil
	}
	plan.Version, plan.Name = "1", "p"
	out.Reversible = plan.Reversible
	n, err := checkPlanDown(plan, func(in string) ([]*migrate.Stmt, error) { return (*sqlite.Driver)(nil).ScanStmts(in) })
	out.Reverses = n
	if err != nil {
		return out, err
	}
	return out, nil
}

// checkPlanDown: every formatter's down section / rollback lines are exactly the reverse statements (in reverse change order).
func checkPlanDown(plan *migrate.Plan, scan func(string) ([]*migrate.Stmt, error)) (int, error) {
	type outT struct{ Reverses int }
	var out outT
	// expected: reverse statements of the changes in reverse order
	var want []string
	for i := len(plan.Changes) - 1; i >= 0; i-- {
		rs, err := plan.Changes[i].ReverseStmts()
		if err != nil {
			return out.Reverses, err
		}
		want = append(want, rs...)
	}
	out.Reverses = len(want)
	for _, f := range formatters {
		files, err := f.f.Format(plan)
		if err != nil {
			return out.Reverses, fmt.Errorf("%s: Format: %v", f.name, err)
		}
		if f.name == "liquibase" {
			// rollback lines sit next to their change, in change order
			var wantL []string
			for _, ch := range plan.Changes {
				rs, _ := ch.ReverseStmts()
				wantL = append(wantL, rs...)
			}
			var got, rb []string
			text := string(files[0].Bytes())
			for _, l := range strings.Split(text, "\n") {
				if strings.HasPrefix(l, "--rollback: ") {
					rb = append(rb, strings.TrimPrefix(l, "--rollback: "))
				} else if !strings.HasPrefix(l, "--") && strings.TrimSpace(l) != "" && len(rb) > 0 && !strings.HasSuffix(rb[len(rb)-1], ";") {
					return out.Reverses, fmt.Errorf("liquibase: a rollback statement continues on a line that is not a rollback comment (%q):\n%s", l, text)
				}
			}
			rstmts, err := scan(strings.Join(rb, "\n"))
			if err != nil {
				return out.Reverses, fmt.Errorf("liquibase: rollback lines do not scan: %v\n%s", err, text)
			}
			for _, s := range rstmts {
				got = append(got, strings.TrimSuffix(s.Text, ";"))
			}
			if strings.Join(got, "\x00") != strings.Join(wantL, "\x00") {
				return out.Reverses, fmt.Errorf("liquibase: rollback lines are not exactly the reverse statements\n got:  %q\n want: %q\n file:\n%s", got, wantL, text)
			}
			continue
		}
		down, err := downSection(f.name, files)
		if err != nil {
			if len(want) == 0 {
				continue
			}
			return out.Reverses, err
		}
		stmts, err := scan(down)
		if err != nil {
			return out.Reverses, fmt.Errorf("%s: down section does not scan: %v\n%s", f.name, err, down)
		}
		var got []string
		for _, s := range stmts {
			got = append(got, strings.TrimSuffix(s.Text, ";"))
		}
		if strings.Join(got, "\x00") != strings.Join(want, "\x00") {
			return out.Reverses, fmt.Errorf("%s: the down file is not exactly the reverse statements in reverse order\n got:  %q\n want: %q\n down:\n%s", f.name, got, want, down)
		}
	}
	return out.Reverses, nil
}

func genDown(t *rapid.T) DCase {
	o := model.Opts{NoInlineUnique: true, WordNames: true}
	c := DCase{A: model.GenSchema(t, 3, o), Indent: rapid.SampledFrom([]string{"", "  ", "\t"}).Draw(t, "indent")}
	if rapid.IntRange(0, 9).Draw(t, "biased") < 7 {
		o.Kinds = reversibleKinds
	}
	c.B = c.A.Clone()
	for n := rapid.IntRange(1, 4).Draw(t, "nedits"); n > 0; n-- {
		if k := model.Edit(t, &c.B, o, nil); k != "" {
			c.Edits = append(c.Edits, k)
		}
	}
	return c
}

var knownD = ev.Matcher[DCase]{}

func runDownFiles(t *testing.T, col *ev.Collector) {
	check := func(c DCase) error {
		out, err := checkDown(c)
		col.Class(fmt.Sprintf("downfiles/reversible=%v", out.Reversible))
		if out.Reverses > 0 {
			col.NonTrivial(fmt.Sprintf("down|%v|%q|%d", c.Edits, c.Indent, out.Reverses))
		}
		col.Sample("downfiles", c)
		return err
	}
	if !ev.Rapid(t, col, "downfiles-sqlite", col.N(1500, 150000), genDown, check, knownD) {
		return
	}
	if !runDialectDown(t, col) {
		return
	}
	runInverse(t, col)
}

// GCase: plans of all three dialects (no engine) for the reversible flag and the down files.
type GCase struct {
	Dialect  string        `json:"dialect"`
	Scenario string        `json:"scenario"`
	Edits    []c02.EditRef `json:"edits"`
	Indent   string        `json:"indent"`
	Flavour  string        `json:"flavour,omitempty"` // server the driver is opened against (MySQL family, PostgreSQL family; "" = the Default planner)
	// Unnamed: tables that gain a CHECK without a name in the desired schema. Such an addition cannot be undone by name,
	// so a plan that contains it has a change without reverse statement and must not be reported reversible.
	Unnamed []string `json:"unnamed,omitempty"`
}

func checkDialectDown(c GCase) (DOutcome, error) {
	var out DOutcome
	base := c02.Base(c.Dialect)
	edited := base.Clone()
	for _, e := range c.Edits {
		if _, err := c02.Apply(c.Dialect, &edited, e); err != nil {
			return out, fmt.Errorf("harness: %v", err)
		}
	}
	for _, tn := range c.Unnamed {
		if tb := edited.Table(tn); tb != nil {
			q := "\""
			if c.Dialect == "mysql" {
				q = "`"
			}
			tb.Checks = append(tb.Checks, gm.Check{Expr: q + tb.Cols[0].Name + q + " <> 424242"})
		}
	}
	from, err := gm.Build(c.Dialect, base)
	if err != nil {
		return out, fmt.Errorf("harness: %v", err)
	}
	to, err := gm.Build(c.Dialect, edited)
	if err != nil {
		return out, fmt.Errorf("harness: %v", err)
	}
	empty := gm.Empty(c.Dialect, base)
	var changes []schema.Change
	switch c.Scenario {
	case "create":
		changes, err = gm.Differ(c.Dialect).SchemaDiff(empty, to, schema.DiffNormalized())
	case "drop":
		changes, err = gm.Differ(c.Dialect).SchemaDiff(from, empty, schema.DiffNormalized())
	default:
		changes, err = gm.Differ(c.Dialect).SchemaDiff(from, to, schema.DiffNormalized())
	}
	if err != nil {
		return out, fmt.Errorf("harness: %v", err)
	}
	var pl migrate.PlanApplier
	scan := func(in string) ([]*migrate.Stmt, error) { return (*sqlite.Driver)(nil).ScanStmts(in) }
	switch c.Dialect {
	case "mysql":
		pl = mysql.DefaultPlan
		if c.Flavour != "" {
			drv, err := gm.OpenMySQL(c.Flavour)
			if err != nil {
				return out, fmt.Errorf("harness: %v", err)
			}
			pl = drv
		}
		scan = func(in string) ([]*migrate.Stmt, error) { return (*mysql.Driver)(nil).ScanStmts(in) }
	case "postgres":
		pl = postgres.DefaultPlan
		if c.Flavour != "" {
			drv, err := gm.OpenPostgres(c.Flavour)
			if err != nil {
				return out, fmt.Errorf("harness: %v", err)
			}
			pl = drv
		}
		scan = func(in string) ([]*migrate.Stmt, error) { return (*postgres.Driver)(nil).ScanStmts(in) }
	default:
		pl = sqlite.DefaultPlan
	}
	plan, err := pl.PlanChanges(context.Background(), "p", changes, func(o *migrate.PlanOptions) {
		o.Indent = c.Indent
		o.SchemaQualifier = new(string)
	})
	if err != nil {
		return out, nil
	}
	plan.Version, plan.Name = "1", "p"
	out.Reversible = plan.Reversible
	for i, ch := range plan.Changes {
		rs, err := ch.ReverseStmts()
		if err != nil {
			return out, err
		}
		if plan.Reversible && len(rs) == 0 && ch.Source != nil {
			return out, fmt.Errorf("%s: plan is reported reversible but change %d (%T: %s) has no reverse statement", c.Dialect, i, ch.Source, ch.Cmd)
		}
		if !plan.Reversible && len(rs) == 0 {
			out.Reverses = -1
		}
	}
	if !plan.Reversible && out.Reverses != -1 && len(plan.Changes) > 0 {
		return out, fmt.Errorf("%s: every change has reverse statements but the plan is not reported reversible", c.Dialect)
	}
	n, err := checkPlanDown(plan, scan)
	out.Reverses = n
	if err != nil {
		return out, fmt.Errorf("%s: %v", c.Dialect, err)
	}
	return out, nil
}

func genG(t *rapid.T) GCase {
	d := rapid.SampledFrom([]string{"mysql", "postgres", "sqlite"}).Draw(t, "dialect")
	c := GCase{Dialect: d, Scenario: rapid.SampledFrom([]string{"create", "drop", "modify", "modify"}).Draw(t, "scenario"), Indent: rapid.SampledFrom([]string{"", "  ", "\t"}).Draw(t, "indent")}
	if d == "mysql" {
		c.Flavour = rapid.SampledFrom([]string{"", "mysql8", "mysql57", "maria", "tidb", "tidb"}).Draw(t, "flavour")
	}
	if d == "postgres" {
		c.Flavour = rapid.SampledFrom([]string{"", "", "pg15", "pg10", "crdb"}).Draw(t, "pgflavour")
	}
	if c.Scenario == "modify" && rapid.IntRange(0, 2).Draw(t, "unnamedchecks") == 0 {
		c.Unnamed = rapid.SliceOfNDistinct(rapid.SampledFrom([]string{"users", "posts", "tags", "logs"}), 1, 2, rapid.ID[string]).Draw(t, "unnamed")
	}
	if c.Scenario == "modify" {
		sites := c02.Sites(d, c02.Base(d))
		perm := rapid.Permutation(sites).Draw(t, "sites")
		n := rapid.IntRange(1, 6).Draw(t, "nedits")
		var chosen []c02.Site
		for _, s := range perm {
			if len(chosen) == n {
				break
			}
			ok := true
			for _, x := range chosen {
				if c02.Conflict(x, s) {
					ok = false
				}
			}
			if ok {
				chosen = append(chosen, s)
				c.Edits = append(c.Edits, s.E)
			}
		}
	}
	return c
}

var knownInv = ev.Matcher[GCase]{
	// PostgreSQL: the reverse of DROP COLUMN / DROP INDEX re-creates the object without its comment (comments are separate
	// statements of the forward plan; the reverse holds the ALTER / CREATE INDEX statement only)
	"postgres-reverse-lacks-comment": func(c GCase, err error) bool {
		return c.Dialect == "postgres" && strings.Contains(err.Error(), "(missing-kinds: COMMENT ON)")
	},
	// MySQL and PostgreSQL drop an index together with the last column it covers, so the planners leave the DROP INDEX out;
	// the reverse re-adds the column only, the index (and its comment) is gone after up and down
	"auto-dropped-index-not-restored": func(c GCase, err error) bool {
		m := reMissingKinds.FindStringSubmatch(err.Error())
		if m == nil {
			return false
		}
		for _, k := range strings.Split(m[1], "|") {
			switch k {
			case "ADD INDEX", "ADD UNIQUE", "CREATE INDEX", "CREATE UNIQUE", "COMMENT ON":
			default:
				return false
			}
		}
		for _, e := range c.Edits {
			if e.Kind == "drop-indexed-column" {
				return true
			}
		}
		return false
	},
}

var reMissingKinds = regexp.MustCompile(`\(missing-kinds: ([^)]*)\)`)

func runInverse(t *testing.T, col *ev.Collector) bool {
	check := func(c GCase) error {
		out, err := checkInverse(c)
		switch {
		case !out.Reversible:
			col.Class("inverse-plan/" + c.Dialect + "/not-reversible-or-refused")
		case out.Compared:
			col.Class("inverse-plan/" + c.Dialect + "/compared")
			var ks []string
			for _, e := range c.Edits {
				ks = append(ks, e.Kind+"@"+e.Table+"."+e.Obj)
			}
			col.NonTrivial(fmt.Sprintf("inverse|%s|%v", c.Dialect, ks))
		}
		col.Sample("inverse-plan/"+c.Dialect, c)
		return err
	}
	for _, d := range []string{"mysql", "postgres"} {
		for _, s := range c02.Sites(d, c02.Base(d)) {
			if !ev.Each(col, "inverse-plan", GCase{Dialect: d, Scenario: "modify", Edits: []c02.EditRef{s.E}}, check, knownInv) {
				return false
			}
		}
	}
	gen := func(t *rapid.T) GCase {
		c := genG(t)
		c.Dialect = rapid.SampledFrom([]string{"mysql", "postgres"}).Draw(t, "idialect")
		c.Scenario, c.Flavour, c.Unnamed, c.Edits = "modify", "", nil, nil
		sites := c02.Sites(c.Dialect, c02.Base(c.Dialect))
		perm := rapid.Permutation(sites).Draw(t, "isites")
		n := rapid.IntRange(1, 5).Draw(t, "inedits")
		var chosen []c02.Site
		for _, s := range perm {
			if len(chosen) == n {
				break
			}
			ok := true
			for _, x := range chosen {
				if c02.Conflict(x, s) {
					ok = false
				}
			}
			if ok {
				chosen = append(chosen, s)
				c.Edits = append(c.Edits, s.E)
			}
		}
		return c
	}
	return ev.Rapid(t, col, "inverse-plan", col.N(1500, 150000), gen, check, knownInv)
}

func runDialectDown(t *testing.T, col *ev.Collector) bool {
	check := func(c GCase) error {
		out, err := checkDialectDown(c)
		col.Class(fmt.Sprintf("downfiles/%s%s/reversible=%v", c.Dialect, map[bool]string{true: "(" + c.Flavour + ")"}[c.Flavour != ""], out.Reversible))
		if out.Reverses > 0 {
			var ks []string
			for _, e := range c.Edits {
				ks = append(ks, e.Kind)
			}
			col.NonTrivial(fmt.Sprintf("down|%s%s|%s|%v|%q|%v", c.Dialect, c.Flavour, c.Scenario, ks, c.Indent, c.Unnamed))
		}
		col.Sample("downfiles/"+c.Dialect, c)
		return err
	}
	// every single catalogue edit, every dialect
	for _, d := range []string{"mysql", "postgres", "sqlite"} {
		for _, sc := range []string{"create", "drop"} {
			if !ev.Each(col, "downfiles-dialects", GCase{Dialect: d, Scenario: sc, Indent: "  "}, check, ev.Matcher[GCase]{}) {
				return false
			}
		}
		for _, s := range c02.Sites(d, c02.Base(d)) {
			if !ev.Each(col, "downfiles-dialects", GCase{Dialect: d, Scenario: "modify", Edits: []c02.EditRef{s.E}, Indent: "  "}, check, ev.Matcher[GCase]{}) {
				return false
			}
		}
		// a change that cannot be reversed (CHECK without a name) next to every single catalogue edit
		flavours := []string{""}
		if d == "mysql" {
			flavours = append(flavours, "tidb")
		}
		for _, fl := range flavours {
			for _, s := range c02.Sites(d, c02.Base(d)) {
				if s.E.Table != "users" && s.E.Table != "posts" {
					continue
				}
				if !ev.Each(col, "downfiles-dialects", GCase{Dialect: d, Scenario: "modify", Edits: []c02.EditRef{s.E}, Indent: "  ", Flavour: fl, Unnamed: []string{s.E.Table}}, check, ev.Matcher[GCase]{}) {
					return false
				}
			}
		}
		if d == "mysql" {
			// the TiDB planner plans every atomic change on its own and combines the flags itself
			for _, sc := range []string{"create", "drop"} {
				if !ev.Each(col, "downfiles-dialects", GCase{Dialect: d, Scenario: sc, Indent: "  ", Flavour: "tidb"}, check, ev.Matcher[GCase]{}) {
					return false
				}
			}
			for _, s := range c02.Sites(d, c02.Base(d)) {
				if !ev.Each(col, "downfiles-dialects", GCase{Dialect: d, Scenario: "modify", Edits: []c02.EditRef{s.E}, Indent: "  ", Flavour: "tidb"}, check, ev.Matcher[GCase]{}) {
					return false
				}
			}
		}
	}
	return ev.Rapid(t, col, "downfiles-dialects", col.N(1500, 150000), genG, check, ev.Matcher[GCase]{})
}
