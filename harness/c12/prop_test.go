package c12

import (
	"fmt"
	"testing"

	"pgregory.net/rapid"

	"verif/ev"
)

var known = ev.Matcher[Case]{}

const rule = "exhaustive: files of n<=5 statements (distinct ids, and an all-equal-ids variant) x progress k in 1..n-1 x " +
	"every edit {identity, change i, insert at i (fresh id / copy of neighbour), delete i, swap i<j, truncate to L in 0..n} x " +
	"cosmetic {none, comment lines, blank lines}, every edit also after a first attempt that ended like a killed process (progress recorded, no error text), and for tail-only edits a second partial failure at every later index k2 followed by a third run; random: ids from a 3-element pool (duplicates), 1-3 stacked edits. " +
	"API tier = migrate.Executor on MemDir with recording driver/revisions; CLI tier = atlas migrate apply --tx-mode none on a SQLite file. " +
	"non-trivial = the edited file differs from the original in statements or layout; distinct key = (old, k, new, cosmetic, tier)"

func key(c Case) string { return fmt.Sprintf("%v|%d|%d|%v|%d|%v|%v", c.Old, c.K, c.K2, c.New, c.Cosmetic, c.CLI, c.Quiet) + fmt.Sprint(c.NoHashes, c.OutOfOrder, c.Trigger, c.DryFirst) }

func classify(col *ev.Collector, c Case) {
	cls := "prefix-changed"
	if c.prefixUnchanged() {
		cls = "tail-only"
	}
	if len(c.New) < c.K {
		cls = "truncated-below-applied"
	}
	tier := "api"
	if c.CLI {
		tier = "cli"
	}
	col.Class(tier + "/" + cls)
	col.Class("edit/" + c.Edit)
	if c.Quiet {
		col.Class(tier + "/first-attempt-left-no-error-text")
	}
	if c.NoHashes {
		col.Class(tier + "/partial-revision-without-statement-checksums")
	}
	if c.OutOfOrder != 0 {
		col.Class(tier + "/out-of-order-file-left-half-applied-by-a-non-linear-run/next-run-" + []string{"", "non-linear", "linear"}[c.OutOfOrder])
	}
	if fmt.Sprint(c.Old) != fmt.Sprint(c.New) || c.Cosmetic != 0 {
		col.NonTrivial(key(c))
	}
	col.Sample(tier+"/"+cls, c)
}

// edits enumerates every single edit of old.
func edits(old []int) (out []struct {
	name string
	ids  []int
}) {
	add := func(name string, ids []int) {
		out = append(out, struct {
			name string
			ids  []int
		}{name, ids})
	}
	cp := func() []int { return append([]int{}, old...) }
	n := len(old)
	add("identity", cp())
	for i := 0; i < n; i++ {
		x := cp()
		x[i] = 9
		add("change", x)
		x = append(cp()[:i], cp()[i+1:]...)
		add("delete", x)
		for j := i + 1; j < n; j++ {
			x = cp()
			x[i], x[j] = x[j], x[i]
			add("swap", x)
		}
	}
	for i := 0; i <= n; i++ {
		x := append(append(cp()[:i], 9), old[i:]...)
		add("insert-fresh", x)
		if i < n {
			x = append(append(cp()[:i], old[i]), old[i:]...)
			add("insert-copy", x)
		}
	}
	for l := 0; l <= n; l++ {
		add("truncate", cp()[:l])
	}
	return
}

func enumerate(maxN int, f func(Case) bool) {
	for n := 2; n <= maxN; n++ {
		for variant := 0; variant < 2; variant++ {
			old := make([]int, n)
			for i := range old {
				old[i] = i + 1
				if variant == 1 {
					old[i] = 1
				}
			}
			for k := 1; k < n; k++ {
				for _, e := range edits(old) {
					for cosmetic := 0; cosmetic < 3; cosmetic++ {
						if !f(Case{Old: old, K: k, New: e.ids, Cosmetic: cosmetic, Edit: e.name}) {
							return
						}
					}
					// the same edit after a first attempt that ended like a killed process (progress recorded, no error text)
					if !f(Case{Old: old, K: k, New: e.ids, Edit: e.name, Quiet: true}) {
						return
					}
					// the same edit against a partial revision that carries no statement checksums
					if !f(Case{Old: old, K: k, New: e.ids, Edit: e.name, NoHashes: true}) {
						return
					}
					// a second partial failure during the resume (only meaningful when the applied prefix is unchanged)
					for k2 := k + 1; k2 < len(e.ids); k2++ {
						if !f(Case{Old: old, K: k, K2: k2, New: e.ids, Edit: e.name + "+second-failure"}) {
							return
						}
					}
				}
			}
		}
	}
}

func genCase(t *rapid.T) Case {
	n := rapid.IntRange(2, 6).Draw(t, "n")
	old := rapid.SliceOfN(rapid.IntRange(1, 3), n, n).Draw(t, "old")
	k := rapid.IntRange(1, n-1).Draw(t, "k")
	cur := append([]int{}, old...)
	name := ""
	for e := rapid.IntRange(1, 3).Draw(t, "edits"); e > 0; e-- {
		es := edits(cur)
		pick := es[rapid.IntRange(0, len(es)-1).Draw(t, "edit")]
		cur = pick.ids
		name += pick.name + "+"
	}
	c := Case{Old: old, K: k, New: cur, Cosmetic: rapid.IntRange(0, 2).Draw(t, "cosmetic"), Edit: "multi", Quiet: rapid.IntRange(0, 2).Draw(t, "quiet") == 0}
	if len(cur) > k+1 && rapid.Bool().Draw(t, "second") {
		c.K2 = rapid.IntRange(k+1, len(cur)-1).Draw(t, "k2")
	}
	return c
}

func TestCheck(t *testing.T) {
	col := ev.New("C12", "exploration", rule)
	defer col.Finish()
	check := func(c Case) error {
		classify(col, c)
		return checkCase(c)
	}
	// 1. exhaustive API tier (n<=4 quick, n<=5 thorough)
	maxN := 4
	if col.Thorough() {
		maxN = 5
	}
	i := 0
	ok := true
	enumerate(maxN, func(c Case) bool {
		i++
		if !col.Mine(i) {
			return true
		}
		ok = ev.Each(col, "api-exhaustive", c, check, known)
		return ok
	})
	col.Exhaustive = ok
	col.ExhScope = fmt.Sprintf("API tier: all single edits of files with <=%d statements at every progress k", maxN)
	if !ok {
		return
	}
	// 2. random stacked edits, API tier
	if !ev.Rapid(t, col, "api-random", col.N(3000, 200000), genCase, check, known) {
		return
	}
	// 3. CLI tier: exhaustive for n<=3 (quick: n<=3 without cosmetics), sampled beyond
	cliN := 3
	j := 0
	enumerate(cliN, func(c Case) bool {
		if !col.Thorough() && (c.Cosmetic != 0 || (c.Old[len(c.Old)-1] == 1 && len(c.Old) > 2)) {
			return true
		}
		j++
		if !col.Mine(j) {
			return true
		}
		c.CLI = true
		ok = ev.Each(col, "cli-exhaustive", c, check, known)
		// every fourth case also with a trigger at the head of the file and a --dry-run before the real run
		if ok && j%4 == 1 {
			c2 := c
			c2.Trigger, c2.DryFirst = true, true
			ok = ev.Each(col, "cli-exhaustive-trigger-dry-run", c2, check, known)
		}
		// every third case also as an out-of-order file whose first attempt ran with --exec-order non-linear
		if ok && j%3 == 0 {
			c.OutOfOrder = 1 + j/3%2
			ok = ev.Each(col, "cli-exhaustive-out-of-order", c, check, known)
		}
		return ok
	})
	if !ok {
		return
	}
	ev.Rapid(t, col, "cli-random", col.N(25, 1500), func(t *rapid.T) Case {
		c := genCase(t)
		c.CLI, c.OutOfOrder = true, rapid.SampledFrom([]int{0, 0, 1, 2}).Draw(t, "outoforder")
		c.Trigger, c.DryFirst = rapid.Bool().Draw(t, "trigger"), rapid.Bool().Draw(t, "dryfirst")
		return c
	}, check, known)
}

func TestReplay(t *testing.T) {
	ev.ReplayFile(t, "C12", func(_ string, c Case) error { return checkCase(c) })
}
