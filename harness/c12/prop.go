// Package c12: resuming a partially applied file whose applied part changed is refused, cleanly.
package c12

import (
	"context"
	"errors"
	"fmt"
	"reflect"
	"strings"

	"ariga.io/atlas/sql/migrate"

	"verif/cli"
	"verif/fake"
	"verif/sqliteref"
)

// Case: a one-file directory whose file had statements Old; the first attempt failed at
// statement index K (so K statements are recorded as applied); then the file was edited to New.
type Case struct {
	Old      []int  `json:"old"`      // statement ids of the original file
	K        int    `json:"k"`        // 1 <= K < len(Old)
	New      []int  `json:"new"`      // statement ids of the edited file
	Cosmetic int    `json:"cosmetic"` // 0 none; 1 comment lines between statements; 2 extra blank lines / CRLF-free spaces
	K2       int    `json:"k2"`       // > K: during the resume, statement index K2 of the new file fails too; a third run follows (0 = no second failure)
	Edit     string `json:"edit"`     // how New was derived (for humans / evidence classes)
	CLI      bool   `json:"cli"`      // run through the real binary on a SQLite file
	// Quiet (API tier): the first attempt ends like a killed process - the write that would record the failure is lost, so
	// the stored revision has Applied=K and no error text
	Quiet bool `json:"quiet,omitempty"`
	// NoHashes (API tier): the stored partial revision carries no statement checksums (a row written before the
	// partial_hashes column existed). The run must not crash: it resumes, or it refuses without executing anything.
	NoHashes bool `json:"no_hashes,omitempty"`
	// OutOfOrder (CLI tier): the file is added below an already applied one and its first attempt runs with
	// --exec-order non-linear, so its partial revision is not the newest one. 1: the next run is non-linear too (same
	// expectations as for the newest file); 2: the next run has the default linear order and finds a newer pending file as
	// well: it must be refused whatever the edit, with nothing executed and the revisions as they were.
	OutOfOrder int `json:"out_of_order,omitempty"`
	// Trigger (CLI tier): the file starts with a CREATE TRIGGER ... BEGIN ...; END; statement (part of what was applied): the
	// SQLite scanner keeps it in one piece, a generic one splits it at the inner semicolon
	Trigger bool `json:"trigger,omitempty"`
	// DryFirst (CLI tier): the run after the edit is first made with --dry-run: it must reach the same verdict as the real
	// run that follows and change nothing
	DryFirst bool `json:"dry_first,omitempty"`
}

func stmtText(id int) string { return fmt.Sprintf("INSERT INTO journal (id) VALUES (%d);", id) }

// render produces the file body. Cosmetic variants change only what the scanner does not make
// part of a statement text (comments that precede a statement, blank lines).
func render(ids []int, cosmetic int) string {
	var b strings.Builder
	for i, id := range ids {
		switch cosmetic {
		case 1:
			fmt.Fprintf(&b, "-- note %d\n", i)
		case 2:
			b.WriteString("\n\n  ")
		}
		b.WriteString(stmtText(id))
		b.WriteString("\n")
	}
	return b.String()
}

// prefixUnchanged is the oracle's side of "the statements that were already applied no longer match".
func (c Case) prefixUnchanged() bool {
	if len(c.New) < c.K {
		return false
	}
	for i := 0; i < c.K; i++ {
		if c.New[i] != c.Old[i] {
			return false
		}
	}
	return true
}

func checkCase(c Case) error {
	if c.K < 1 || c.K >= len(c.Old) {
		return fmt.Errorf("harness: bad case %+v", c)
	}
	if c.CLI {
		return checkCLI(c)
	}
	return checkAPI(c)
}

func revEq(a, b migrate.Revision) error {
	if a.Applied != b.Applied || a.Total != b.Total || a.Error != b.Error || a.ErrorStmt != b.ErrorStmt ||
		a.Hash != b.Hash || !reflect.DeepEqual(a.PartialHashes, b.PartialHashes) || a.Type != b.Type || a.Version != b.Version {
		return fmt.Errorf("stored revision changed:\n before %+v\n after  %+v", a, b)
	}
	return nil
}

func checkAPI(c Case) error {
	ctx := context.Background()
	dir := &migrate.MemDir{}
	write := func(ids []int, cosmetic int) error {
		if err := dir.WriteFile("1_a.sql", []byte(render(ids, cosmetic))); err != nil {
			return err
		}
		sum, err := dir.Checksum()
		if err != nil {
			return err
		}
		return migrate.WriteSumFile(dir, sum)
	}
	if err := write(c.Old, 0); err != nil {
		return fmt.Errorf("harness: %v", err)
	}
	drv := &fake.Driver{}
	revs := fake.NewRevs()
	drv.FailIf = func(_ string, call int) bool { return call == c.K }
	if c.Quiet {
		revs.FailWrite = func(_ int, r *migrate.Revision) bool { return r.Error != "" }
	}
	ex, err := migrate.NewExecutor(drv, dir, revs)
	if err != nil {
		return fmt.Errorf("harness: %v", err)
	}
	err = ex.ExecuteN(ctx, 0)
	revs.FailWrite = nil
	var se *migrate.StmtExecError
	if !errors.As(err, &se) {
		return fmt.Errorf("first attempt: want StmtExecError at statement %d, got %v", c.K, err)
	}
	before, ok := revs.Snapshot()["1"]
	if c.Quiet && ok && before.Error != "" {
		return fmt.Errorf("harness: the failure was recorded although its write was refused: %+v", before)
	}
	if !ok || before.Applied != c.K || before.Total != len(c.Old) {
		return fmt.Errorf("first attempt: revision %+v, want Applied=%d Total=%d", before, c.K, len(c.Old))
	}
	// Edit, re-hash, run again with a driver that never fails.
	if err := write(c.New, c.Cosmetic); err != nil {
		return fmt.Errorf("harness: %v", err)
	}
	drv.FailIf = nil
	drv.Log = nil
	if c.NoHashes {
		b := before
		b.PartialHashes = nil
		if err := revs.WriteRevision(ctx, &b); err != nil {
			return fmt.Errorf("harness: %v", err)
		}
		before = revs.Snapshot()["1"]
		err = ex.ExecuteN(ctx, 0)
		after := revs.Snapshot()["1"]
		if err != nil {
			if len(drv.Log) != 0 {
				return fmt.Errorf("partial revision without statement checksums: the run is refused (%v) but executed %d statements: %+v", err, len(drv.Log), drv.Log)
			}
			return revEq(before, after)
		}
		want := c.New[min(c.K, len(c.New)):]
		if len(drv.Log) != len(want) {
			return fmt.Errorf("partial revision without statement checksums: the run succeeded and executed %d statements, want the tail %v: %+v", len(drv.Log), want, drv.Log)
		}
		return nil
	}
	if c.K2 > c.K && c.K2 < len(c.New) && c.prefixUnchanged() {
		// second partial failure during the resume, then a third, clean run: it must continue at K2
		drv.ResetCalls()
		drv.FailIf = func(_ string, call int) bool { return call == c.K2-c.K }
		err = ex.ExecuteN(ctx, 0)
		if !errors.As(err, &se) {
			return fmt.Errorf("second attempt: want StmtExecError at statement %d, got %v", c.K2, err)
		}
		mid := revs.Snapshot()["1"]
		if mid.Applied != c.K2 {
			return fmt.Errorf("second attempt: revision %+v, want Applied=%d", mid, c.K2)
		}
		drv.FailIf = nil
		drv.Log = nil
		err = ex.ExecuteN(ctx, 0)
		if err != nil {
			return fmt.Errorf("no applied statement was edited (second partial failure at %d) but the third run is refused: %v", c.K2, err)
		}
		want := c.New[c.K2:]
		if len(drv.Log) != len(want) {
			return fmt.Errorf("third run executed %d statements, want the remaining tail %v: %+v", len(drv.Log), want, drv.Log)
		}
		for i, id := range want {
			if drv.Log[i].Text != stmtText(id) {
				return fmt.Errorf("third run statement %d = %q, want %q", i, drv.Log[i].Text, stmtText(id))
			}
		}
		if fin := revs.Snapshot()["1"]; fin.Applied != len(c.New) || fin.Error != "" {
			return fmt.Errorf("after the third run: revision %+v, want Applied=%d and no error", fin, len(c.New))
		}
		return nil
	}
	err = ex.ExecuteN(ctx, 0)
	after := revs.Snapshot()["1"]
	if c.prefixUnchanged() {
		if err != nil {
			return fmt.Errorf("applied prefix unchanged but resume failed: %v", err)
		}
		want := c.New[c.K:]
		if len(drv.Log) != len(want) {
			return fmt.Errorf("resume executed %d statements, want the new tail %v: %+v", len(drv.Log), want, drv.Log)
		}
		for i, id := range want {
			if drv.Log[i].Text != stmtText(id) {
				return fmt.Errorf("resume statement %d = %q, want %q", i, drv.Log[i].Text, stmtText(id))
			}
		}
		// a file that was completed carries no error, also when the failing tail was deleted and nothing was left to run
		if after.Applied != len(c.New) || after.Error != "" || after.ErrorStmt != "" {
			return fmt.Errorf("after resume: revision %+v, want Applied=%d and no error", after, len(c.New))
		}
		return nil
	}
	var he migrate.HistoryChangedError
	if !errors.As(err, &he) {
		return fmt.Errorf("applied prefix changed (old %v k=%d new %v): want HistoryChangedError, got %v", c.Old, c.K, c.New, err)
	}
	if len(drv.Log) != 0 {
		return fmt.Errorf("history changed but %d statements were executed: %+v", len(drv.Log), drv.Log)
	}
	return revEq(before, after)
}

type revRow struct {
	Version, Hash, PartialHashes, Error, ErrorStmt string
	Applied, Total                                  int
}

func readRevs(path string) (map[string]revRow, []int, error) {
	db, err := sqliteref.OpenFile(path)
	if err != nil {
		return nil, nil, err
	}
	defer db.Close()
	out := map[string]revRow{}
	rows, err := db.Query("SELECT version, applied, total, IFNULL(hash,''), IFNULL(partial_hashes,''), IFNULL(error,''), IFNULL(error_stmt,'') FROM atlas_schema_revisions")
	if err != nil {
		return nil, nil, err
	}
	for rows.Next() {
		var r revRow
		if err := rows.Scan(&r.Version, &r.Applied, &r.Total, &r.Hash, &r.PartialHashes, &r.Error, &r.ErrorStmt); err != nil {
			rows.Close()
			return nil, nil, err
		}
		out[r.Version] = r
	}
	rows.Close()
	var ids []int
	jr, err := db.Query("SELECT id FROM journal ORDER BY rowid")
	if err != nil {
		return nil, nil, err
	}
	defer jr.Close()
	for jr.Next() {
		var id int
		if err := jr.Scan(&id); err != nil {
			return nil, nil, err
		}
		ids = append(ids, id)
	}
	return out, ids, nil
}

const failingStmt = "INSERT INTO missing_table (id) VALUES (0);"

func checkCLI(c Case) error {
	sb, err := cli.NewSandbox()
	if err != nil {
		return fmt.Errorf("harness: %v", err)
	}
	defer sb.Close()
	// In the CLI tier the statement at index K of the old file is a really failing statement.
	prefix, extra := "", 0
	if c.Trigger {
		prefix, extra = "CREATE TRIGGER IF NOT EXISTS trg_journal AFTER INSERT ON journal BEGIN SELECT 1; SELECT 2; END;\n", 1
	}
	old := prefix + render(c.Old[:c.K], 0) + failingStmt + "\n" + render(c.Old[c.K+1:], 0)
	sb.WriteFile("m/0_init.sql", "CREATE TABLE journal (id integer);\n")
	url := "sqlite://" + sb.Path("db.sqlite")
	var order1, order2 []string
	if c.OutOfOrder != 0 {
		sb.WriteFile("m/2_z.sql", "CREATE TABLE z (id integer);\n")
		if r := sb.Run("migrate", "hash", "--dir", "file://m"); r.Code != 0 {
			return fmt.Errorf("harness: %v", r)
		}
		if r := sb.Run("migrate", "apply", "--dir", "file://m", "--url", url, "--tx-mode", "none"); r.Code != 0 {
			return fmt.Errorf("harness: %v", r)
		}
		order1 = []string{"--exec-order", "non-linear"}
		if c.OutOfOrder == 1 {
			order2 = order1
		}
	}
	sb.WriteFile("m/1_a.sql", old)
	if r := sb.Run("migrate", "hash", "--dir", "file://m"); r.Code != 0 {
		return fmt.Errorf("harness: %v", r)
	}
	r1 := sb.Run(append([]string{"migrate", "apply", "--dir", "file://m", "--url", url, "--tx-mode", "none"}, order1...)...)
	if r1.Code == 0 {
		return fmt.Errorf("first attempt should fail: %v", r1)
	}
	before, ids, err := readRevs(sb.Path("db.sqlite"))
	if err != nil {
		return fmt.Errorf("harness: %v", err)
	}
	if before["1"].Applied != c.K+extra || !reflect.DeepEqual(ids, c.Old[:c.K]) {
		return fmt.Errorf("first attempt: revision %+v journal %v, want %d applied", before["1"], ids, c.K+extra)
	}
	sb.WriteFile("m/1_a.sql", prefix+render(c.New, c.Cosmetic))
	if r := sb.Run("migrate", "hash", "--dir", "file://m"); r.Code != 0 {
		return fmt.Errorf("harness: %v", r)
	}
	if c.OutOfOrder == 2 {
		sb.WriteFile("m/3_c.sql", "INSERT INTO journal (id) VALUES (999);\n")
		if r := sb.Run("migrate", "hash", "--dir", "file://m"); r.Code != 0 {
			return fmt.Errorf("harness: %v", r)
		}
	}
	if c.DryFirst && c.OutOfOrder != 2 {
		rd := sb.Run(append([]string{"migrate", "apply", "--dir", "file://m", "--url", url, "--tx-mode", "none", "--dry-run"}, order2...)...)
		afterDry, idsDry, err := readRevs(sb.Path("db.sqlite"))
		if err != nil {
			return fmt.Errorf("harness: %v", err)
		}
		if !reflect.DeepEqual(before, afterDry) || !reflect.DeepEqual(ids, idsDry) {
			return fmt.Errorf("--dry-run changed the database: revisions %+v -> %+v, journal %v -> %v", before, afterDry, ids, idsDry)
		}
		switch {
		case c.prefixUnchanged() && rd.Code != 0:
			return fmt.Errorf("applied prefix unchanged: the real run resumes, but the same command with --dry-run refuses: %v", rd)
		case !c.prefixUnchanged() && (rd.Code == 0 || !strings.Contains(rd.Stderr+rd.Stdout, "history changed")):
			return fmt.Errorf("applied prefix changed: --dry-run does not report it: %v", rd)
		}
	}
	r2 := sb.Run(append([]string{"migrate", "apply", "--dir", "file://m", "--url", url, "--tx-mode", "none"}, order2...)...)
	after, ids2, err := readRevs(sb.Path("db.sqlite"))
	if err != nil {
		return fmt.Errorf("harness: %v", err)
	}
	if strings.Contains(r2.Stderr, "panic:") || strings.Contains(r2.Stderr, "goroutine ") || r2.Code == 2 && strings.Contains(r2.Stderr, "runtime error") {
		return fmt.Errorf("CLI crashed: %v", r2)
	}
	if c.OutOfOrder == 2 {
		// a half-applied file below the newest revision, met by a linear run: refused as it stands
		if r2.Code == 0 {
			return fmt.Errorf("a file that a non-linear run left half applied lies below the newest revision; the next (linear) run must refuse, it succeeded: %v", r2)
		}
		if !reflect.DeepEqual(ids, ids2) {
			return fmt.Errorf("the run was refused but statements were executed: journal %v -> %v\n%v", ids, ids2, r2)
		}
		if !reflect.DeepEqual(before, after) {
			return fmt.Errorf("the run was refused but the stored revisions changed:\n before %+v\n after  %+v", before, after)
		}
		return nil
	}
	if c.prefixUnchanged() {
		if r2.Code != 0 {
			return fmt.Errorf("applied prefix unchanged but resume failed: %v", r2)
		}
		want := append(append([]int{}, c.Old[:c.K]...), c.New[c.K:]...)
		if !reflect.DeepEqual(ids2, want) && !(len(ids2) == 0 && len(want) == 0) {
			return fmt.Errorf("journal after resume %v, want %v", ids2, want)
		}
		if after["1"].Applied != len(c.New)+extra || (len(c.New) > c.K && after["1"].Error != "") {
			return fmt.Errorf("after resume: revision %+v", after["1"])
		}
		return nil
	}
	if r2.Code == 0 {
		return fmt.Errorf("applied prefix changed but apply succeeded: %v", r2)
	}
	if !strings.Contains(r2.Stderr+r2.Stdout, "history changed") {
		return fmt.Errorf("applied prefix changed: want a 'history changed' error: %v", r2)
	}
	if !reflect.DeepEqual(ids, ids2) {
		return fmt.Errorf("history changed but statements were executed: journal %v -> %v", ids, ids2)
	}
	if !reflect.DeepEqual(before["1"], after["1"]) {
		return fmt.Errorf("stored revision changed:\n before %+v\n after  %+v", before["1"], after["1"])
	}
	return nil
}
