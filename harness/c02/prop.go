// Package c02: diff is exact — every difference is reported once, and nothing else.
package c02

import (
	"fmt"
	"sort"
	"strconv"
	"strings"

	"ariga.io/atlas/sql/schema"

	"verif/gm"
)

// EditRef selects one catalogue edit at one site of the base schema.
type EditRef struct {
	Kind  string `json:"kind"`
	Table string `json:"table,omitempty"`
	Obj   string `json:"obj,omitempty"` // column / index / fk / check / enum name
	Arg   string `json:"arg,omitempty"`
}

type Case struct {
	Dialect string    `json:"dialect"`
	Base    gm.Schema `json:"base"`
	Edits   []EditRef `json:"edits"`
	Perm    int64     `json:"perm"`  // != 0: permute declaration order of the second graph (seed)
	Level   string    `json:"level"` // schema | realm | table
	Twins   []Twin    `json:"twins,omitempty"`
	// Short (MySQL): the desired graph writes column character sets the short way although the current graph carries both
	// attributes: 1 = COLLATE only (the collation determines the charset), 2 = CHARSET only where the collation is the
	// charset's default, 3 = alternating. The differ resolves the missing half, so no change may be reported for it.
	Short int `json:"short,omitempty"`
	// TwoSchemas (realm level): both realms hold a second schema crm with a copy of the users table. 1: nothing else;
	// 2: in the desired realm posts.fk_posts_user references crm.users instead of app.users; 3: the other way round.
	TwoSchemas int `json:"two_schemas,omitempty"`
	// Flavour (MySQL): the differ of a driver opened against a server of this flavour / version (gm.MySQLFlavours) instead
	// of mysql.DefaultDiff
	Flavour string `json:"flavour,omitempty"`
}

// DefaultCollation of the character sets used by the base (MySQL 8 defaults, as in the driver's embedded tables).
var DefaultCollation = map[string]string{"latin1": "latin1_swedish_ci", "utf8mb4": "utf8mb4_0900_ai_ci"}

// Shorthand rewrites the column character-set attributes of a model the short way (see Case.Short).
func Shorthand(m *gm.Schema, mode int) (n int) {
	if mode == 0 {
		return 0
	}
	k := 0
	for ti := range m.Tables {
		for ci := range m.Tables[ti].Cols {
			c := &m.Tables[ti].Cols[ci]
			if c.Charset == "" || c.Collation == "" {
				continue
			}
			k++
			switch {
			case mode == 1 || mode == 3 && k%2 == 1:
				c.Charset = ""
				n++
			case DefaultCollation[c.Charset] == c.Collation:
				c.Collation = ""
				n++
			}
		}
	}
	return n
}

// Describe flattens a change list into descriptors.
func Describe(prefix string, cs []schema.Change) []string {
	var out []string
	for _, c := range cs {
		switch c := c.(type) {
		case *schema.AddTable:
			out = append(out, "AddTable("+c.T.Name+")")
		case *schema.DropTable:
			out = append(out, "DropTable("+c.T.Name+")")
		case *schema.ModifyTable:
			if len(c.Changes) == 0 {
				out = append(out, "ModifyTable("+c.T.Name+"){}")
			}
			out = append(out, Describe(c.T.Name+":", c.Changes)...)
		case *schema.ModifySchema:
			out = append(out, Describe("schema:", c.Changes)...)
		case *schema.AddView:
			out = append(out, "AddView("+c.V.Name+")")
		case *schema.DropView:
			out = append(out, "DropView("+c.V.Name+")")
		case *schema.ModifyView:
			if len(c.Changes) == 0 {
				out = append(out, "ModifyView("+c.To.Name+"){}")
			}
			out = append(out, Describe("view "+c.To.Name+":", c.Changes)...)
		case *schema.AddColumn:
			out = append(out, prefix+"AddColumn("+c.C.Name+")")
		case *schema.DropColumn:
			out = append(out, prefix+"DropColumn("+c.C.Name+")")
		case *schema.ModifyColumn:
			out = append(out, prefix+"ModifyColumn("+c.To.Name+","+kinds(c.Change)+")")
		case *schema.AddIndex:
			out = append(out, prefix+"AddIndex("+c.I.Name+")")
		case *schema.DropIndex:
			out = append(out, prefix+"DropIndex("+c.I.Name+")")
		case *schema.ModifyIndex:
			out = append(out, prefix+"ModifyIndex("+c.To.Name+","+kinds(c.Change)+")")
		case *schema.AddPrimaryKey:
			out = append(out, prefix+"AddPrimaryKey")
		case *schema.DropPrimaryKey:
			out = append(out, prefix+"DropPrimaryKey")
		case *schema.ModifyPrimaryKey:
			out = append(out, prefix+"ModifyPrimaryKey("+kinds(c.Change)+")")
		case *schema.AddForeignKey:
			out = append(out, prefix+"AddForeignKey("+fkLabel(c.F.Symbol, c.F.RefTable.Name)+")")
		case *schema.DropForeignKey:
			out = append(out, prefix+"DropForeignKey("+fkLabel(c.F.Symbol, c.F.RefTable.Name)+")")
		case *schema.ModifyForeignKey:
			out = append(out, prefix+"ModifyForeignKey("+fkLabel(c.To.Symbol, c.From.RefTable.Name)+","+kinds(c.Change)+")")
		case *schema.AddCheck:
			out = append(out, prefix+"AddCheck("+c.C.Name+"|"+c.C.Expr+")")
		case *schema.DropCheck:
			out = append(out, prefix+"DropCheck("+c.C.Name+"|"+c.C.Expr+")")
		case *schema.ModifyCheck:
			out = append(out, prefix+"ModifyCheck("+c.To.Name+")")
		case *schema.AddAttr:
			out = append(out, prefix+"AddAttr("+attrName(c.A)+")")
		case *schema.DropAttr:
			out = append(out, prefix+"DropAttr("+attrName(c.A)+")")
		case *schema.ModifyAttr:
			out = append(out, prefix+"ModifyAttr("+attrName(c.To)+")")
		case *schema.AddObject:
			out = append(out, "AddObject("+objName(c.O)+")")
		case *schema.DropObject:
			out = append(out, "DropObject("+objName(c.O)+")")
		case *schema.ModifyObject:
			out = append(out, "ModifyObject("+objName(c.To)+")")
		default:
			out = append(out, prefix+fmt.Sprintf("%T", c))
		}
	}
	return out
}

func attrName(a schema.Attr) string {
	s := fmt.Sprintf("%T", a)
	return s[strings.LastIndex(s, ".")+1:]
}

func objName(o schema.Object) string {
	if e, ok := o.(*schema.EnumType); ok {
		return "enum " + e.T
	}
	return fmt.Sprintf("%T", o)
}

func kinds(k schema.ChangeKind) string {
	var s []string
	for _, x := range []struct {
		k schema.ChangeKind
		n string
	}{{schema.ChangeNull, "null"}, {schema.ChangeType, "type"}, {schema.ChangeDefault, "default"}, {schema.ChangeComment, "comment"},
		{schema.ChangeGenerated, "generated"}, {schema.ChangeCharset, "charset"}, {schema.ChangeCollate, "collate"}, {schema.ChangeAttr, "attr"},
		{schema.ChangeUnique, "unique"}, {schema.ChangeParts, "parts"}, {schema.ChangeColumn, "column"},
		{schema.ChangeRefColumn, "refcolumn"}, {schema.ChangeRefTable, "reftable"}, {schema.ChangeUpdateAction, "onupdate"}, {schema.ChangeDeleteAction, "ondelete"}} {
		if k.Is(x.k) {
			s = append(s, x.n)
		}
	}
	return strings.Join(s, "+")
}

// Apply performs the edit on the model and returns the descriptors the differ must report for it.
func Apply(dialect string, m *gm.Schema, e EditRef) ([]string, error) {
	t := m.Table(e.Table)
	need := func() error {
		if t == nil {
			return fmt.Errorf("harness: edit %+v: no table", e)
		}
		return nil
	}
	p := e.Table + ":"
	switch e.Kind {
	case "enum-add":
		m.Enums = append(m.Enums, gm.Enum{Name: e.Obj, Values: []string{"a", "b"}})
		return []string{"AddObject(enum " + e.Obj + ")"}, nil
	case "enum-drop":
		for i := range m.Enums {
			if m.Enums[i].Name == e.Obj {
				m.Enums = append(m.Enums[:i], m.Enums[i+1:]...)
				return []string{"DropObject(enum " + e.Obj + ")"}, nil
			}
		}
		return nil, fmt.Errorf("harness: enum-drop %+v", e)
	case "schema-charset": // MySQL: another default character set (and its collation) for the schema
		parts := strings.SplitN(e.Arg, "/", 2)
		m.Charset, m.Collation = parts[0], parts[1]
		return []string{"schema:ModifyAttr(Charset)", "schema:ModifyAttr(Collation)"}, nil
	case "schema-collate":
		m.Collation = e.Arg
		return []string{"schema:ModifyAttr(Collation)"}, nil
	case "schema-comment": // PostgreSQL
		had := m.Comment != ""
		m.Comment = e.Arg
		if had {
			return []string{"schema:ModifyAttr(Comment)"}, nil
		}
		return []string{"schema:AddAttr(Comment)"}, nil
	case "enum-add-value":
		for i := range m.Enums {
			if m.Enums[i].Name == e.Obj {
				m.Enums[i].Values = append(m.Enums[i].Values, e.Arg)
				return []string{"ModifyObject(enum " + e.Obj + ")"}, nil
			}
		}
		return nil, fmt.Errorf("harness: enum-add-value %+v", e)
	case "enum-insert-value":
		for i := range m.Enums {
			if m.Enums[i].Name == e.Obj {
				pos := 0
				fmt.Sscan(e.Arg, &pos)
				vs := m.Enums[i].Values
				if pos > len(vs) {
					pos = len(vs)
				}
				m.Enums[i].Values = append(append(append([]string{}, vs[:pos]...), "zz_inserted"), vs[pos:]...)
				return []string{"ModifyObject(enum " + e.Obj + ")"}, nil
			}
		}
		return nil, fmt.Errorf("harness: enum-insert-value %+v", e)
	case "add-table":
		m.Tables = append(m.Tables, gm.Table{Name: e.Obj, Cols: []gm.Col{{Name: "id", Type: IntType(dialect)}, {Name: "v", Type: IntType(dialect), Null: true}}, PK: []gm.Part{{Col: "id"}}})
		return []string{"AddTable(" + e.Obj + ")"}, nil
	case "drop-table":
		for i := range m.Tables {
			if m.Tables[i].Name == e.Table {
				m.Tables = append(m.Tables[:i], m.Tables[i+1:]...)
				return []string{"DropTable(" + e.Table + ")"}, nil
			}
		}
		return nil, fmt.Errorf("harness: drop-table %q", e.Table)
	}
	if err := need(); err != nil {
		return nil, err
	}
	col := func() (*gm.Col, error) {
		c := t.Col(e.Obj)
		if c == nil {
			return nil, fmt.Errorf("harness: edit %+v: no column", e)
		}
		return c, nil
	}
	idx := func() (*gm.Index, error) {
		for i := range t.Indexes {
			if t.Indexes[i].Name == e.Obj {
				return &t.Indexes[i], nil
			}
		}
		return nil, fmt.Errorf("harness: edit %+v: no index", e)
	}
	fk := func() (*gm.FK, error) {
		for i := range t.FKs {
			if t.FKs[i].Name == e.Obj {
				return &t.FKs[i], nil
			}
		}
		return nil, fmt.Errorf("harness: edit %+v: no fk", e)
	}
	switch e.Kind {
	case "add-column":
		ct := IntType(dialect)
		if e.Arg != "" {
			ct = e.Arg // a requested type
		}
		t.Cols = append(t.Cols, gm.Col{Name: e.Obj, Type: ct, Null: true})
		return []string{p + "AddColumn(" + e.Obj + ")"}, nil
	case "drop-column":
		for i := range t.Cols {
			if t.Cols[i].Name == e.Obj {
				t.Cols = append(t.Cols[:i], t.Cols[i+1:]...)
				return []string{p + "DropColumn(" + e.Obj + ")"}, nil
			}
		}
		return nil, fmt.Errorf("harness: drop-column %+v", e)
	case "modify-null":
		c, err := col()
		if err != nil {
			return nil, err
		}
		c.Null = !c.Null
		return []string{p + "ModifyColumn(" + e.Obj + ",null)"}, nil
	case "drop-opclass", "retype-drop-opclass":
		for i := range t.Indexes {
			if t.Indexes[i].Name == e.Obj && len(t.Indexes[i].Parts) == 1 {
				t.Indexes[i].Parts[0].OpClass = ""
				if e.Kind == "drop-opclass" {
					return nil, nil
				}
				c := t.Col(t.Indexes[i].Parts[0].Col)
				c.Type = e.Arg
				return []string{p + "ModifyColumn(" + c.Name + ",type)"}, nil
			}
		}
		return nil, fmt.Errorf("harness: %s %+v", e.Kind, e)
	case "modify-type":
		c, err := col()
		if err != nil {
			return nil, err
		}
		c.Type = e.Arg
		return []string{p + "ModifyColumn(" + e.Obj + ",type)"}, nil
	case "modify-default":
		c, err := col()
		if err != nil {
			return nil, err
		}
		c.Default, c.DefaultRaw = e.Arg, false
		return []string{p + "ModifyColumn(" + e.Obj + ",default)"}, nil
	case "modify-comment":
		c, err := col()
		if err != nil {
			return nil, err
		}
		c.Comment = e.Arg
		return []string{p + "ModifyColumn(" + e.Obj + ",comment)"}, nil
	case "modify-charset", "modify-collate":
		c, err := col()
		if err != nil {
			return nil, err
		}
		if e.Kind == "modify-collate" {
			c.Collation = e.Arg
			return []string{p + "ModifyColumn(" + e.Obj + ",collate)"}, nil
		}
		cc := strings.SplitN(e.Arg, "/", 2)
		c.Charset, c.Collation = cc[0], cc[1]
		return []string{p + "ModifyColumn(" + e.Obj + ",charset+collate)"}, nil
	case "drop-checked-column":
		for i := range t.Checks {
			if t.Checks[i].Name == e.Obj && t.Checks[i].Expr == e.Arg {
				t.Checks = append(t.Checks[:i], t.Checks[i+1:]...)
				break
			}
		}
		for i := range t.Cols {
			if t.Cols[i].Name == e.Obj {
				t.Cols = append(t.Cols[:i], t.Cols[i+1:]...)
				return []string{p + "DropColumn(" + e.Obj + ")", p + "DropCheck(" + e.Obj + "|" + e.Arg + ")"}, nil
			}
		}
		return nil, fmt.Errorf("harness: drop-checked-column %+v", e)
	case "drop-indexed-column":
		for i := range t.Indexes {
			if t.Indexes[i].Name == e.Arg {
				t.Indexes = append(t.Indexes[:i], t.Indexes[i+1:]...)
				break
			}
		}
		for i := range t.Cols {
			if t.Cols[i].Name == e.Obj {
				t.Cols = append(t.Cols[:i], t.Cols[i+1:]...)
				return []string{p + "DropColumn(" + e.Obj + ")", p + "DropIndex(" + e.Arg + ")"}, nil
			}
		}
		return nil, fmt.Errorf("harness: drop-indexed-column %+v", e)
	case "drop-generated":
		c, err := col()
		if err != nil {
			return nil, err
		}
		c.Gen = ""
		switch e.Arg {
		case "default":
			c.Default = "0"
			return []string{p + "ModifyColumn(" + e.Obj + ",default+generated)"}, nil
		case "null":
			c.Null = !c.Null
			return []string{p + "ModifyColumn(" + e.Obj + ",null+generated)"}, nil
		}
		return []string{p + "ModifyColumn(" + e.Obj + ",generated)"}, nil
	case "modify-generated":
		c, err := col()
		if err != nil {
			return nil, err
		}
		c.Gen = e.Arg
		return []string{p + "ModifyColumn(" + e.Obj + ",generated)"}, nil
	case "add-index":
		t.Indexes = append(t.Indexes, gm.Index{Name: e.Obj, Parts: []gm.Part{{Col: e.Arg}}})
		return []string{p + "AddIndex(" + e.Obj + ")"}, nil
	case "add-unnamed-index":
		t.Indexes = append(t.Indexes, gm.Index{Parts: []gm.Part{{Col: e.Arg}}})
		return []string{p + "AddIndex()"}, nil
	case "drop-index":
		for i := range t.Indexes {
			if t.Indexes[i].Name == e.Obj {
				t.Indexes = append(t.Indexes[:i], t.Indexes[i+1:]...)
				return []string{p + "DropIndex(" + e.Obj + ")"}, nil
			}
		}
		return nil, fmt.Errorf("harness: drop-index %+v", e)
	case "index-unique", "index-desc", "index-column", "index-prefix", "index-type", "index-where", "index-include", "index-comment", "index-add-part":
		ix, err := idx()
		if err != nil {
			return nil, err
		}
		kind := ""
		switch e.Kind {
		case "index-unique":
			ix.Unique, kind = !ix.Unique, "unique"
		case "index-desc":
			ix.Parts[len(ix.Parts)-1].Desc, kind = !ix.Parts[len(ix.Parts)-1].Desc, "parts"
		case "index-column":
			ix.Parts[0] = gm.Part{Col: e.Arg, Desc: ix.Parts[0].Desc}
			kind = "parts"
		case "index-add-part":
			ix.Parts = append(ix.Parts, gm.Part{Col: e.Arg})
			kind = "parts"
		case "index-prefix":
			ix.Parts[0].Prefix += 3
			kind = "parts"
		case "index-type":
			ix.Type, kind = e.Arg, "attr"
		case "index-where":
			ix.Where, kind = e.Arg, "attr"
		case "index-include":
			ix.Include, kind = []string{e.Arg}, "attr"
		case "index-comment":
			ix.Comment, kind = e.Arg, "comment"
		}
		return []string{p + "ModifyIndex(" + e.Obj + "," + kind + ")"}, nil
	case "add-pk":
		t.PK = []gm.Part{{Col: e.Arg}}
		return []string{p + "AddPrimaryKey"}, nil
	case "drop-pk":
		t.PK = nil
		return []string{p + "DropPrimaryKey"}, nil
	case "pk-add-part":
		t.PK = append(t.PK, gm.Part{Col: e.Arg})
		return []string{p + "ModifyPrimaryKey(parts)"}, nil
	case "add-fk":
		parts := strings.SplitN(e.Arg, ">", 2) // col>reftable (references its first PK column)
		ref := m.Table(parts[1])
		t.FKs = append(t.FKs, gm.FK{Name: e.Obj, Cols: []string{parts[0]}, RefTable: parts[1], RefCols: []string{ref.PK[0].Col}, OnDelete: "CASCADE", OnUpdate: "CASCADE"})
		return []string{p + "AddForeignKey(" + fkLabel(e.Obj, parts[1]) + ")"}, nil
	case "drop-fk":
		for i := range t.FKs {
			if t.FKs[i].Name == e.Obj {
				lbl := fkLabel(e.Obj, t.FKs[i].RefTable)
				t.FKs = append(t.FKs[:i], t.FKs[i+1:]...)
				return []string{p + "DropForeignKey(" + lbl + ")"}, nil
			}
		}
		return nil, fmt.Errorf("harness: drop-fk %+v", e)
	case "fk-ondelete", "fk-onupdate", "fk-column", "fk-refcolumn", "fk-reftable":
		f, err := fk()
		if err != nil {
			return nil, err
		}
		kind, lbl := "", fkLabel(e.Obj, f.RefTable)
		swap := func(a string) string {
			if a == "CASCADE" {
				return "SET NULL"
			}
			return "CASCADE"
		}
		switch e.Kind {
		case "fk-ondelete":
			f.OnDelete, kind = swap(f.OnDelete), "ondelete"
		case "fk-onupdate":
			f.OnUpdate, kind = swap(f.OnUpdate), "onupdate"
		case "fk-column":
			f.Cols[0], kind = e.Arg, "column"
		case "fk-refcolumn":
			f.RefCols[0], kind = e.Arg, "refcolumn"
		case "fk-reftable":
			ref := m.Table(e.Arg)
			f.RefTable, f.RefCols, kind = e.Arg, []string{ref.PK[0].Col}, "reftable+refcolumn"
			if len(f.Cols) > 1 {
				f.Cols = f.Cols[:1]
				kind = "column+reftable+refcolumn"
			}
		}
		// kinds() renders flags in a fixed order; normalise the expectation the same way
		return []string{p + "ModifyForeignKey(" + lbl + "," + orderKinds(kind) + ")"}, nil
	case "add-check":
		t.Checks = append(t.Checks, gm.Check{Name: e.Obj, Expr: e.Arg})
		return []string{p + "AddCheck(" + e.Obj + "|" + e.Arg + ")"}, nil
	case "drop-check":
		for i := range t.Checks {
			if t.Checks[i].Name == e.Obj && (e.Obj != "" || t.Checks[i].Expr == e.Arg) {
				x := t.Checks[i].Expr
				t.Checks = append(t.Checks[:i], t.Checks[i+1:]...)
				return []string{p + "DropCheck(" + e.Obj + "|" + x + ")"}, nil
			}
		}
		return nil, fmt.Errorf("harness: drop-check %+v", e)
	case "modify-check": // named check: new expression
		for i := range t.Checks {
			if t.Checks[i].Name == e.Obj {
				t.Checks[i].Expr = e.Arg
				return []string{p + "ModifyCheck(" + e.Obj + ")"}, nil
			}
		}
		return nil, fmt.Errorf("harness: modify-check %+v", e)
	case "table-comment":
		had := t.Comment != ""
		t.Comment = e.Arg
		if had {
			return []string{p + "ModifyAttr(Comment)"}, nil
		}
		return []string{p + "AddAttr(Comment)"}, nil
	case "table-charset":
		cc := strings.SplitN(e.Arg, "/", 2)
		t.Charset, t.Collation = cc[0], cc[1]
		return []string{p + "ModifyAttr(Charset)", p + "ModifyAttr(Collation)"}, nil
	case "table-collate":
		t.Collation = e.Arg
		return []string{p + "ModifyAttr(Collation)"}, nil
	case "table-engine":
		t.Engine = e.Arg
		return []string{p + "ModifyAttr(Engine)"}, nil
	case "table-engine-stated":
		t.Engine = e.Arg
		if strings.EqualFold(e.Arg, "InnoDB") {
			return nil, nil
		}
		return []string{p + "ModifyAttr(Engine)"}, nil
	case "table-autoinc":
		t.AutoIncStart += 1000
		return []string{p + "ModifyAttr(AutoIncrement)"}, nil
	case "table-without-rowid":
		t.WithoutRowID = !t.WithoutRowID
		if t.WithoutRowID {
			return []string{p + "AddAttr(WithoutRowID)"}, nil
		}
		return []string{p + "DropAttr(WithoutRowID)"}, nil
	case "table-strict":
		t.Strict = !t.Strict
		if t.Strict {
			return []string{p + "AddAttr(Strict)"}, nil
		}
		return []string{p + "DropAttr(Strict)"}, nil
	}
	return nil, fmt.Errorf("harness: unknown edit kind %q", e.Kind)
}

func orderKinds(k string) string {
	order := []string{"attr", "column", "refcolumn", "reftable", "onupdate", "ondelete"}
	have := map[string]bool{}
	for _, x := range strings.Split(k, "+") {
		have[x] = true
	}
	var out []string
	for _, o := range order {
		if have[o] {
			out = append(out, o)
		}
	}
	return strings.Join(out, "+")
}

func IntType(dialect string) string {
	switch dialect {
	case "mysql":
		return "int"
	case "postgres":
		return "integer"
	}
	return "integer"
}

// Permute reorders tables, columns, indexes, FKs and checks of a built graph (declaration order only).
func Permute(s *schema.Schema, seed int64) {
	r := uint64(seed)*6364136223846793005 + 1442695040888963407
	next := func(n int) int {
		r = r*6364136223846793005 + 1442695040888963407
		return int((r >> 33) % uint64(n))
	}
	shuffle := func(n int, swap func(i, j int)) {
		for i := n - 1; i > 0; i-- {
			swap(i, next(i+1))
		}
	}
	shuffle(len(s.Tables), func(i, j int) { s.Tables[i], s.Tables[j] = s.Tables[j], s.Tables[i] })
	shuffle(len(s.Objects), func(i, j int) { s.Objects[i], s.Objects[j] = s.Objects[j], s.Objects[i] })
	for _, t := range s.Tables {
		shuffle(len(t.Columns), func(i, j int) { t.Columns[i], t.Columns[j] = t.Columns[j], t.Columns[i] })
		shuffle(len(t.Indexes), func(i, j int) { t.Indexes[i], t.Indexes[j] = t.Indexes[j], t.Indexes[i] })
		// key parts carry their position (SeqNo, which the differ sorts by): listing them in another order is the same key
		for _, idx := range append(append([]*schema.Index{}, t.Indexes...), t.PrimaryKey) {
			if idx != nil {
				ps := idx.Parts
				shuffle(len(ps), func(i, j int) { ps[i], ps[j] = ps[j], ps[i] })
			}
		}
		shuffle(len(t.ForeignKeys), func(i, j int) { t.ForeignKeys[i], t.ForeignKeys[j] = t.ForeignKeys[j], t.ForeignKeys[i] })
		// positional labels of unnamed keys (SQLite) follow the declaration order
		pos := 0
		for _, fk := range t.ForeignKeys {
			if _, err := strconv.ParseUint(fk.Symbol, 10, 64); err == nil {
				fk.Symbol = strconv.Itoa(pos)
				pos++
			}
		}
		// checks live among the attributes: shuffle the attribute list
		shuffle(len(t.Attrs), func(i, j int) { t.Attrs[i], t.Attrs[j] = t.Attrs[j], t.Attrs[i] })
	}
}

// Outcome for classification.
type Outcome struct {
	Expected []string
}

func multiset(xs []string) string {
	s := append([]string{}, xs...)
	sort.Strings(s)
	return strings.Join(s, "\n    ")
}

func checkCase(c Case) (Outcome, error) {
	var out Outcome
	edited := c.Base.Clone()
	for _, e := range c.Edits {
		d, err := Apply(c.Dialect, &edited, e)
		if err != nil {
			return out, err
		}
		out.Expected = append(out.Expected, d...)
	}
	out.Expected = MergeModify(out.Expected)
	if c.Dialect == "mysql" {
		Shorthand(&edited, c.Short)
	}
	base := c.Base
	if len(c.Twins) > 0 {
		base = c.Base.Clone()
		for _, tw := range c.Twins {
			ft, tt := base.Table(tw.Table), edited.Table(tw.Table)
			if ft == nil || tt == nil {
				return out, fmt.Errorf("harness: twin %+v: table missing", tw)
			}
			fi, ti := -1, -1
			for i := range ft.Indexes {
				if ft.Indexes[i].Name == tw.Index {
					fi = i
				}
			}
			for i := range tt.Indexes {
				if tt.Indexes[i].Name == tw.Index {
					ti = i
				}
			}
			if fi < 0 || ti < 0 {
				return out, fmt.Errorf("harness: twin %+v: index missing", tw)
			}
			ft.Indexes[fi].Name = tw.Gen
			tt.Indexes[ti].Name = ""
			switch tw.Op {
			case "drop":
				tt.Indexes = append(tt.Indexes[:ti], tt.Indexes[ti+1:]...)
				out.Expected = append(out.Expected, tw.Table+":DropIndex("+tw.Gen+")")
			case "flip-unique":
				tt.Indexes[ti].Unique = !tt.Indexes[ti].Unique
				out.Expected = append(out.Expected, tw.Table+":DropIndex("+tw.Gen+")", tw.Table+":AddIndex()")
			}
		}
	}
	from, err := gm.Build(c.Dialect, base)
	if err != nil {
		return out, fmt.Errorf("harness: build base: %v", err)
	}
	to, err := gm.Build(c.Dialect, edited)
	if err != nil {
		return out, fmt.Errorf("harness: build edited: %v", err)
	}
	if c.TwoSchemas != 0 {
		for i, s := range []*schema.Schema{from, to} {
			only := gm.Schema{Name: "crm", Charset: base.Charset, Collation: base.Collation, Enums: base.Enums, Tables: []gm.Table{*base.Table("users")}}
			crm, err := gm.Build(c.Dialect, only)
			if err != nil {
				return out, fmt.Errorf("harness: build second schema: %v", err)
			}
			crm.Realm = s.Realm
			s.Realm.Schemas = append(s.Realm.Schemas, crm)
			if c.TwoSchemas == 2 && i == 1 || c.TwoSchemas == 3 && i == 0 {
				posts, _ := s.Table("posts")
				twin, _ := crm.Table("users")
				for _, fk := range posts.ForeignKeys {
					if fk.Symbol == "fk_posts_user" {
						fk.RefTable = twin
						for j, rc := range fk.RefColumns {
							fk.RefColumns[j], _ = twin.Column(rc.Name)
						}
					}
				}
			}
		}
		if c.TwoSchemas > 1 {
			out.Expected = append(out.Expected, "posts:ModifyForeignKey(fk_posts_user,refcolumn+reftable)")
		}
	}
	if c.Perm != 0 {
		Permute(to, c.Perm)
	}
	differ := gm.Differ(c.Dialect)
	if c.Dialect == "mysql" && c.Flavour != "" {
		drv, err := gm.OpenMySQL(c.Flavour)
		if err != nil {
			return out, fmt.Errorf("harness: %v", err)
		}
		differ = drv
	}
	if c.Dialect == "postgres" && c.Flavour != "" {
		drv, err := gm.OpenPostgres(c.Flavour)
		if err != nil {
			return out, fmt.Errorf("harness: %v", err)
		}
		differ = drv
	}
	var changes []schema.Change
	switch c.Level {
	case "realm":
		changes, err = differ.RealmDiff(from.Realm, to.Realm, schema.DiffNormalized())
	case "table":
		// table level: every table present on both sides
		for _, ft := range from.Tables {
			tt, ok := to.Table(ft.Name)
			if !ok {
				continue
			}
			cs, terr := differ.TableDiff(ft, tt, schema.DiffNormalized())
			if terr != nil {
				err = terr
				break
			}
			if len(cs) > 0 {
				changes = append(changes, &schema.ModifyTable{T: tt, Changes: cs})
			}
		}
	default:
		changes, err = differ.SchemaDiff(from, to, schema.DiffNormalized())
	}
	if err != nil {
		return out, fmt.Errorf("%s diff (%s level) failed: %v\n  edits: %+v", c.Dialect, c.Level, err, c.Edits)
	}
	got := Describe("", changes)
	want := out.Expected
	if c.Level == "table" {
		var w []string
		for _, d := range want {
			if !strings.HasPrefix(d, "AddTable(") && !strings.HasPrefix(d, "DropTable(") && !strings.Contains(d, "Object(") && !strings.HasPrefix(d, "schema:") {
				w = append(w, d)
			}
		}
		want = w
	}
	if multiset(got) != multiset(want) {
		return out, fmt.Errorf("%s %s-level diff is not exact\n  edits: %+v\n  reported:\n    %s\n  expected:\n    %s", c.Dialect, c.Level, c.Edits, multiset(got), multiset(want))
	}
	return out, nil
}

var kindOrder = []string{"null", "type", "default", "comment", "generated", "charset", "collate", "attr", "unique", "parts", "column", "refcolumn", "reftable", "onupdate", "ondelete"}

// MergeModify folds several expected Modify{Column,Index,ForeignKey} descriptors of the same object into one
// descriptor carrying the union of the kind flags: several elementary edits of one object are reported as one change.
func MergeModify(ds []string) []string {
	type acc struct {
		idx   int
		kinds map[string]bool
	}
	merged := map[string]*acc{}
	var out []string
	for _, d := range ds {
		i := strings.Index(d, ":Modify")
		j := strings.LastIndex(d, ",")
		if i == -1 || j == -1 || !strings.HasSuffix(d, ")") || strings.Contains(d, "ModifyCheck") || strings.Contains(d, "ModifyAttr") || strings.Contains(d, "ModifyPrimaryKey") {
			out = append(out, d)
			continue
		}
		key := d[:j]
		a, ok := merged[key]
		if !ok {
			a = &acc{idx: len(out), kinds: map[string]bool{}}
			merged[key] = a
			out = append(out, "")
		}
		for _, k := range strings.Split(d[j+1:len(d)-1], "+") {
			a.kinds[k] = true
		}
	}
	for key, a := range merged {
		var ks []string
		for _, k := range kindOrder {
			if a.kinds[k] {
				ks = append(ks, k)
			}
		}
		out[a.idx] = key + "," + strings.Join(ks, "+") + ")"
	}
	return out
}

// fkLabel: a foreign key written without a name carries its position as its label (SQLite: "0", "1", ...), which says nothing
// about which key it is once keys were added, dropped or listed in another order; such a key is identified by the table it
// referenced before the edits instead, on both sides of the comparison.
func fkLabel(sym, refTable string) string {
	if _, err := strconv.ParseUint(sym, 10, 64); err == nil {
		return "#->" + refTable
	}
	return sym
}
