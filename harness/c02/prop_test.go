package c02

import (
	"fmt"
	"sort"
	"strings"
	"testing"

	"pgregory.net/rapid"

	"verif/ev"
	"verif/gm"
)

var known = ev.Matcher[Case]{}

const rule = "per dialect (MySQL, PostgreSQL, SQLite differs; no database): a feature-rich base schema (5 tables: keys, unique/multi-part/DESC/prefix/partial/include/typed indexes, named+unnamed checks, FKs with actions, " +
	"generated column, comments, defaults, engine/auto_increment, enum, WITHOUT ROWID) or a random reduction of it (tables, indexes, checks, FKs removed); the edited copy is a second, independent build of the model after a set of " +
	"non-interfering elementary edits from a catalogue (one entry per change kind the differ can emit); exhaustive slice = every catalogue edit at every applicable site, at schema, realm and table level; random = sets of 0-8 edits, optionally with the " +
	"declaration order of tables/columns/indexes/FKs/attributes of the second graph permuted. Oracle: the flattened change set (DiffNormalized, the CLI's mode) equals the union of the edits' expected descriptors as a multiset " +
	"(nothing missing, nothing extra, nothing twice, kind flags exact); empty edit sets give the null relations diff(S,S), diff(S,copy), diff(S,permutation). " +
	"Generated-name twins: any subset of the base indexes carries the database-generated name (MySQL c/c_2, PostgreSQL <t>_<cols>_key, SQLite sqlite_autoindex_<t>_<n>) on the current side and no name on the desired side " +
	"(kept => no change; dropped => DropIndex of the generated name; uniqueness flipped => DropIndex+AddIndex), combined with the catalogue including additions of further unnamed indexes. " +
	"non-trivial = >=1 edit, or a non-identity permutation; distinct key = (dialect, level, sorted edit kinds+sites, permuted?)"

var dialects = []string{"mysql", "postgres", "sqlite"}

// reduce removes random parts of the base (still a valid, linked schema).
func reduce(t *rapid.T, s gm.Schema) gm.Schema {
	out := s.Clone()
	for ti := range out.Tables {
		tb := &out.Tables[ti]
		if len(tb.Checks) > 0 && rapid.IntRange(0, 3).Draw(t, "rmchk") == 0 {
			tb.Checks = tb.Checks[:len(tb.Checks)-1]
		}
		if len(tb.Indexes) > 0 && rapid.IntRange(0, 3).Draw(t, "rmidx") == 0 {
			// never remove the unique index an FK's ref column relies on
			last := tb.Indexes[len(tb.Indexes)-1]
			if last.Name != "idx_users_altid" {
				tb.Indexes = tb.Indexes[:len(tb.Indexes)-1]
			}
		}
	}
	if rapid.IntRange(0, 3).Draw(t, "rmlogs") == 0 {
		out.Tables = out.Tables[:len(out.Tables)-1] // logs
	}
	if rapid.IntRange(0, 3).Draw(t, "rmtagsfk") == 0 {
		out.Table("tags").FKs = nil
	}
	return out
}

func pickSites(t *rapid.T, sites []Site, n int) []EditRef {
	var chosen []Site
	perm := rapid.Permutation(sites).Draw(t, "siteperm")
	for _, s := range perm {
		if len(chosen) == n {
			break
		}
		ok := true
		for _, c := range chosen {
			if Conflict(c, s) {
				ok = false
			}
		}
		if ok {
			chosen = append(chosen, s)
		}
	}
	var out []EditRef
	for _, c := range chosen {
		out = append(out, c.E)
	}
	return out
}

func genCase(t *rapid.T) Case {
	d := rapid.SampledFrom(dialects).Draw(t, "dialect")
	base := Base(d)
	if rapid.Bool().Draw(t, "reduce") {
		base = reduce(t, base)
	}
	c := Case{Dialect: d, Base: base, Level: rapid.SampledFrom([]string{"schema", "schema", "realm", "table"}).Draw(t, "level")}
	sites := AllSites(d, base)
	if rapid.IntRange(0, 2).Draw(t, "twins") == 0 {
		for _, tw := range TwinCandidates(d, base) {
			if rapid.Bool().Draw(t, "twin") {
				tw.Op = rapid.SampledFrom([]string{"keep", "keep", "keep", "drop", "flip-unique"}).Draw(t, "twinop")
				c.Twins = append(c.Twins, tw)
			}
		}
		var ok []Site
		for _, st := range sites {
			if !TwinConflict(st, c.Twins) {
				ok = append(ok, st)
			}
		}
		sites = ok
	}
	c.Edits = pickSites(t, sites, rapid.IntRange(0, 8).Draw(t, "nedits"))
	if d == "mysql" {
		c.Short = rapid.SampledFrom([]int{0, 0, 1, 2, 3}).Draw(t, "short")
	}
	if rapid.Bool().Draw(t, "permute") {
		c.Perm = int64(rapid.IntRange(1, 1<<30).Draw(t, "perm"))
	}
	return c
}

func mkCheck(col *ev.Collector) func(Case) error {
	return func(c Case) error {
		_, err := checkCase(c)
		var ks []string
		for _, e := range c.Edits {
			ks = append(ks, e.Kind+"@"+e.Table+"."+e.Obj)
			col.Class(c.Dialect + "/" + e.Kind)
		}
		sort.Strings(ks)
		if len(c.Edits) == 0 {
			col.Class(c.Dialect + "/null-relation")
		}
		if c.Short != 0 {
			col.Class(fmt.Sprintf("mysql/charset-shorthand-%d", c.Short))
		}
		var tws []string
		for _, tw := range c.Twins {
			col.Class(c.Dialect + "/generated-name-twin/" + tw.Op)
			tws = append(tws, tw.Index+":"+tw.Op)
		}
		if len(c.Edits) > 0 || c.Perm != 0 || len(c.Twins) > 0 || c.Short != 0 || c.TwoSchemas > 1 {
			col.NonTrivial(fmt.Sprintf("%s|%s|%s|%v|%s|%d|%s|%d", c.Dialect, c.Level, strings.Join(ks, ","), c.Perm != 0, strings.Join(tws, ","), c.Short, c.Flavour, c.TwoSchemas))
			if c.Flavour != "" {
				col.Class(c.Dialect + "/flavour=" + c.Flavour)
			}
		}
		sk := fmt.Sprintf("%s/%d-edits", c.Dialect, min(len(c.Edits), 3))
		if len(c.Twins) > 0 {
			sk += "/twins"
		}
		col.Sample(sk, Case{Dialect: c.Dialect, Edits: c.Edits, Perm: c.Perm, Level: c.Level, Twins: c.Twins, Short: c.Short})
		return err
	}
}

func TestCheck(t *testing.T) {
	col := ev.New("C02", "exploration", rule)
	defer col.Finish()
	check := mkCheck(col)
	i := 0
	nsites := 0
	for _, d := range dialects {
		base := Base(d)
		sites := AllSites(d, base)
		nsites += len(sites)
		if d == "mysql" {
			// the differ of a driver opened against each server flavour / version: null relations and every single edit.
			// Servers without CHECK constraints (5.7, TiDB) refuse a schema that has some: they get the base without checks.
			for _, fl := range []string{"mysql8", "maria", "mysql57", "tidb"} {
				fbase := base
				if fl == "mysql57" || fl == "tidb" {
					fbase = base.Clone()
					for i := range fbase.Tables {
						fbase.Tables[i].Checks = nil
					}
				}
				for _, perm := range []int64{0, 1} {
					if !ev.Each(col, "flavours-single-edit", Case{Dialect: d, Base: fbase, Level: "schema", Perm: perm, Flavour: fl}, check, known) {
						return
					}
				}
				for _, s := range AllSites(d, fbase) {
					if (fl == "mysql57" || fl == "tidb") && strings.Contains(s.E.Kind, "check") {
						continue // refused by contract on these servers
					}
					if !ev.Each(col, "flavours-single-edit", Case{Dialect: d, Base: fbase, Level: "schema", Edits: []EditRef{s.E}, Flavour: fl}, check, known) {
						return
					}
				}
			}
		}
		if d == "postgres" {
			// the differs of drivers opened against PostgreSQL 15 / 10 (every single edit) and CockroachDB (null relations only:
			// its differ deliberately equates the integer types and adds a rowid key)
			for _, fl := range []string{"pg15", "pg10", "crdb"} {
				for _, perm := range []int64{0, 1} {
					if !ev.Each(col, "flavours-single-edit", Case{Dialect: d, Base: base, Level: "schema", Perm: perm, Flavour: fl}, check, known) {
						return
					}
				}
				if fl == "crdb" {
					continue
				}
				for _, s := range AllSites(d, base) {
					if !ev.Each(col, "flavours-single-edit", Case{Dialect: d, Base: base, Level: "schema", Edits: []EditRef{s.E}, Flavour: fl}, check, known) {
						return
					}
				}
			}
		}
		if d != "sqlite" {
			// a second schema with a table of the same name: a foreign key re-pointed from one to the other
			for two := 1; two <= 3; two++ {
				if !ev.Each(col, "two-schemas-same-table-name", Case{Dialect: d, Base: base, Level: "realm", TwoSchemas: two}, check, known) {
					return
				}
			}
		}
		for _, level := range []string{"schema", "realm", "table"} {
			// null relations
			for _, perm := range []int64{0, 1, 2, 3} {
				if !ev.Each(col, "exhaustive-single-edit", Case{Dialect: d, Base: base, Level: level, Perm: perm}, check, known) {
					return
				}
			}
			if d == "mysql" {
				// the short ways of writing a column's character set on the desired side: alone, and under every single edit
				for short := 1; short <= 3; short++ {
					if !ev.Each(col, "exhaustive-single-edit", Case{Dialect: d, Base: base, Level: level, Short: short}, check, known) {
						return
					}
					for _, s := range sites {
						i++
						if !col.Mine(i) {
							continue
						}
						if !ev.Each(col, "exhaustive-single-edit", Case{Dialect: d, Base: base, Level: level, Edits: []EditRef{s.E}, Short: short}, check, known) {
							return
						}
					}
				}
			}
			for _, s := range sites {
				for _, perm := range []int64{0, 7} {
					i++
					if !col.Mine(i) {
						continue
					}
					if !ev.Each(col, "exhaustive-single-edit", Case{Dialect: d, Base: base, Level: level, Edits: []EditRef{s.E}, Perm: perm}, check, known) {
						return
					}
				}
			}
		}
	}
	// every combination of >=2 different aspect edits of the same object (column, index, foreign key):
	// the differ must report ONE Modify change carrying exactly the union of the kind flags
	for _, d := range dialects {
		base := Base(d)
		groups := map[string][]Site{}
		var order []string
		for _, st := range AllSites(d, base) {
			if !ModifyKind(st.E.Kind) {
				continue
			}
			k := st.E.Table + "." + st.E.Obj
			if _, ok := groups[k]; !ok {
				order = append(order, k)
			}
			groups[k] = append(groups[k], st)
		}
		for _, k := range order {
			g := groups[k]
			for mask := 1; mask < 1<<len(g); mask++ {
				var sel []Site
				for i := range g {
					if mask&(1<<i) != 0 {
						sel = append(sel, g[i])
					}
				}
				if len(sel) < 2 {
					continue
				}
				ok := true
				for i := range sel {
					for j := i + 1; j < len(sel); j++ {
						if Conflict(sel[i], sel[j]) {
							ok = false
						}
					}
				}
				if !ok {
					continue
				}
				var es []EditRef
				for _, x := range sel {
					es = append(es, x.E)
				}
				i++
				if !col.Mine(i) {
					continue
				}
				if !ev.Each(col, "exhaustive-same-object-combos", Case{Dialect: d, Base: base, Level: "schema", Edits: es}, check, known) {
					return
				}
			}
		}
	}
	// indexes that carry a database-generated name on the current side and no name on the desired side
	// (similar-unnamed-index matching): every subset kept => empty diff; the full set kept x every other catalogue edit;
	// every single twin dropped / made dissimilar x {nothing, every unnamed-index addition}
	for _, d := range dialects {
		base := Base(d)
		cands := TwinCandidates(d, base)
		sites := AllSites(d, base)
		run := func(tw []Twin, es []EditRef, level string) bool {
			i++
			if !col.Mine(i) {
				return true
			}
			return ev.Each(col, "exhaustive-generated-name-twins", Case{Dialect: d, Base: base, Level: level, Edits: es, Twins: tw}, check, known)
		}
		for mask := 1; mask < 1<<len(cands); mask++ {
			var tw []Twin
			for k := range cands {
				if mask&(1<<k) != 0 {
					tw = append(tw, cands[k])
				}
			}
			for _, level := range []string{"schema", "table"} {
				if !run(tw, nil, level) {
					return
				}
			}
		}
		for _, st := range sites {
			if !TwinConflict(st, cands) && !run(cands, []EditRef{st.E}, "schema") {
				return
			}
		}
		for k := range cands {
			for _, op := range []string{"drop", "flip-unique"} {
				tw := append([]Twin{}, cands...)
				tw[k].Op = op
				if !run(tw, nil, "schema") {
					return
				}
				for _, st := range sites {
					if st.E.Kind == "add-unnamed-index" && !TwinConflict(st, cands) && !run(tw, []EditRef{st.E}, "schema") {
						return
					}
				}
			}
		}
	}
	col.Exhaustive = true
	col.ExhScope = fmt.Sprintf("single-edit slice: every catalogue edit at every applicable site of the fixed base (%d sites over 3 dialects) x {schema, realm, table} level x {declared order, permuted}", nsites)
	ev.Rapid(t, col, "random-edit-sets", col.N(9000, 600000), genCase, check, known)
}

func TestReplay(t *testing.T) {
	ev.ReplayFile(t, "C02", func(_ string, c Case) error { _, err := checkCase(c); return err })
}
