package c02

import (
	"fmt"
	"strings"

	"verif/gm"
)

type dtypes struct {
	big, i, str, str2, text, dec, fl, boolean, ts string
}

func typesOf(d string) dtypes {
	switch d {
	case "mysql":
		return dtypes{"bigint", "int", "varchar(255)", "varchar(50)", "text", "decimal(10,2)", "double", "tinyint(1)", "timestamp"}
	case "postgres":
		return dtypes{"bigint", "integer", "character varying(255)", "character varying(50)", "text", "numeric(10,2)", "double precision", "boolean", "timestamp without time zone"}
	}
	return dtypes{"integer", "int", "varchar(255)", "varchar(50)", "text", "numeric(10,2)", "real", "boolean", "datetime"}
}

// Base returns the fixed feature-rich base schema of a dialect. Column names are distinctive so that
// "is this column mentioned by an expression" can be decided by substring.
func Base(d string) gm.Schema {
	ty := typesOf(d)
	q := func(c string) string {
		switch d {
		case "mysql":
			return "`" + c + "`"
		}
		return `"` + c + `"`
	}
	users := gm.Table{Name: "users", Comment: "users table",
		Cols: []gm.Col{
			{Name: "id", Type: ty.big},
			{Name: "alt_id", Type: ty.big},
			{Name: "uname", Type: ty.str, Default: "'anon'", Comment: "login name"},
			{Name: "email", Type: ty.str, Null: true},
			{Name: "age", Type: ty.i, Null: true, Default: "18"},
			{Name: "bio", Type: ty.text, Null: true},
			{Name: "score", Type: ty.dec, Null: true},
			{Name: "ufree1", Type: ty.i, Null: true},
			{Name: "ufree2", Type: ty.str2, Null: true, Default: "'x'", Comment: "spare"},
			{Name: "ufree3", Type: ty.fl, Null: true},
			{Name: "agep", Type: ty.i, Null: true, Gen: q("age") + " + 1", GenStored: true},
		},
		PK: []gm.Part{{Col: "id"}},
		Indexes: []gm.Index{
			{Name: "idx_users_email", Unique: true, Parts: []gm.Part{{Col: "email"}}},
			{Name: "idx_users_altid", Unique: true, Parts: []gm.Part{{Col: "alt_id"}}},
			{Name: "idx_users_name_age", Parts: []gm.Part{{Col: "uname"}, {Col: "age", Desc: true}}, Comment: "by name"},
		},
		Checks: []gm.Check{{Name: "ck_users_age", Expr: q("age") + " > 0"}, {Expr: q("score") + " >= 0"}},
	}
	accounts := gm.Table{Name: "accounts",
		Cols: []gm.Col{{Name: "id", Type: ty.big}, {Name: "balance", Type: ty.dec, Default: "0"}, {Name: "afree1", Type: ty.i, Null: true}},
		PK:   []gm.Part{{Col: "id"}},
	}
	posts := gm.Table{Name: "posts",
		Cols: []gm.Col{
			{Name: "id", Type: ty.big},
			{Name: "user_id", Type: ty.big, Null: true},
			{Name: "alt_user_id", Type: ty.big, Null: true},
			{Name: "title", Type: ty.str},
			{Name: "body", Type: ty.text, Null: true},
			{Name: "published", Type: ty.boolean, Default: defBool(d)},
			{Name: "created", Type: ty.ts, Null: true},
			{Name: "pfree1", Type: ty.i, Null: true},
			{Name: "pfree2", Type: ty.str2, Null: true},
		},
		PK: []gm.Part{{Col: "id"}},
		Indexes: []gm.Index{
			{Name: "idx_posts_user", Parts: []gm.Part{{Col: "user_id"}}},
			{Name: "idx_posts_altuser", Parts: []gm.Part{{Col: "alt_user_id"}}},
			{Name: "idx_posts_title", Parts: []gm.Part{{Col: "title"}}},
		},
		FKs: []gm.FK{{Name: "fk_posts_user", Cols: []string{"user_id"}, RefTable: "users", RefCols: []string{"id"}, OnDelete: "CASCADE", OnUpdate: "CASCADE"}},
	}
	tags := gm.Table{Name: "tags",
		Cols:    []gm.Col{{Name: "id", Type: ty.big}, {Name: "label", Type: ty.str2}, {Name: "post_id", Type: ty.big, Null: true}, {Name: "tfree1", Type: ty.i, Null: true}},
		PK:      []gm.Part{{Col: "id"}, {Col: "label"}},
		Indexes: []gm.Index{{Name: "idx_tags_post", Parts: []gm.Part{{Col: "post_id"}}}},
		FKs:     []gm.FK{{Name: "fk_tags_post", Cols: []string{"post_id"}, RefTable: "posts", RefCols: []string{"id"}, OnDelete: "SET NULL", OnUpdate: "CASCADE"}},
		Checks:  []gm.Check{{Name: "ck_tags_label", Expr: q("label") + " <> ''"}},
	}
	logs := gm.Table{Name: "logs",
		Cols: []gm.Col{{Name: "lid", Type: ty.big}, {Name: "msg", Type: ty.text, Null: true}, {Name: "lfree1", Type: ty.i, Null: true}, {Name: "lfree2", Type: ty.str2, Null: true}},
	}
	s := gm.Schema{Name: "app", Tables: []gm.Table{users, accounts, posts, tags, logs}}
	switch d {
	case "mysql":
		// character sets the way an inspected database carries them: schema default, every table and some columns with both
		// CHARSET and COLLATE (resolved offline from the tables embedded in the driver)
		s.Charset, s.Collation = "utf8mb4", "utf8mb4_0900_ai_ci"
		for i := range s.Tables {
			s.Tables[i].Charset, s.Tables[i].Collation = "utf8mb4", "utf8mb4_0900_ai_ci"
		}
		s.Tables[0].Charset, s.Tables[0].Collation = "latin1", "latin1_swedish_ci"
		s.Tables[0].Col("uname").Charset, s.Tables[0].Col("uname").Collation = "latin1", "latin1_bin"            // other collation than the table
		s.Tables[0].Col("ufree2").Charset, s.Tables[0].Col("ufree2").Collation = "utf8mb4", "utf8mb4_general_ci" // other charset than the table
		s.Tables[2].Col("pfree2").Charset, s.Tables[2].Col("pfree2").Collation = "latin1", "latin1_swedish_ci"   // other charset than the table
		s.Tables[2].Col("title").Charset, s.Tables[2].Col("title").Collation = "utf8mb4", "utf8mb4_0900_ai_ci"   // same as the table
		s.Tables[0].Indexes = append(s.Tables[0].Indexes, gm.Index{Name: "idx_users_bio", Parts: []gm.Part{{Col: "bio", Prefix: 10}}},
			// two indexes over expressions (their generated names are functional_index and functional_index_2)
			gm.Index{Name: "idx_users_fx1", Parts: []gm.Part{{Expr: "(`age` + 1)"}}}, gm.Index{Name: "idx_users_fx2", Parts: []gm.Part{{Expr: "(`age` + 2)"}}})
		// the shape a MariaDB inspection yields for a JSON column: a check named after the column with a json_valid() expression.
		// The differ hides the drop of such a check while the column stays (the database owns it) and reports it when the column goes too.
		s.Tables[1].Cols = append(s.Tables[1].Cols, gm.Col{Name: "meta", Type: "json", Null: true})
		s.Tables[1].Checks = append(s.Tables[1].Checks, gm.Check{Name: "meta", Expr: "json_valid(`meta`)"})
		s.Tables[0].Engine = "MyISAM"
		s.Tables[4].AutoIncStart = 100
		s.Tables[2].Cols[6].OnUpdate = ""
	case "postgres":
		s.Enums = []gm.Enum{{Name: "mood", Values: []string{"happy", "sad"}}, {Name: "spare_kind", Values: []string{"x", "y"}}}
		s.Tables[0].Cols = append(s.Tables[0].Cols, gm.Col{Name: "umood", Type: "enum:mood", Null: true})
		s.Tables[0].Indexes = append(s.Tables[0].Indexes,
			gm.Index{Name: "idx_users_score", Parts: []gm.Part{{Col: "score"}}, Where: `("score" > 0)`, Include: []string{"age"}, Type: "BTREE"},
			// an operator class written out although it is the default one for the column's type
			gm.Index{Name: "idx_users_bio", Parts: []gm.Part{{Col: "bio", OpClass: "text_ops"}}})
		// a column of a type Atlas does not know (an extension type)
		s.Tables[1].Cols = append(s.Tables[1].Cols, gm.Col{Name: "aext", Type: "citext", Null: true})
		// a serial column as inspected (it knows its sequence)
		s.Tables[2].Cols = append(s.Tables[2].Cols, gm.Col{Name: "pserial", Type: "serial:posts_pserial_seq"})
	case "sqlite":
		s.Tables[0].Indexes = append(s.Tables[0].Indexes, gm.Index{Name: "idx_users_score", Parts: []gm.Part{{Col: "score"}}, Where: `"score" > 0`})
		s.Tables[3].WithoutRowID = true
		// two foreign keys written without CONSTRAINT names: the inspection labels them by position ("0", "1")
		s.Tables[4].FKs = []gm.FK{{Name: "0", Cols: []string{"lid"}, RefTable: "users", RefCols: []string{"id"}}, {Name: "1", Cols: []string{"lid"}, RefTable: "accounts", RefCols: []string{"id"}}}
	}
	return s
}

func defBool(d string) string {
	switch d {
	case "mysql":
		return "0"
	case "postgres":
		return "false"
	}
	return "0"
}

// Twin turns one named index of the base into the pair the differ must match indirectly: in the current ("from") graph
// the index carries the name the database generates for an unnamed index / UNIQUE constraint, in the desired ("to") graph
// it has no name. Op: keep (no change expected), drop (absent from the desired graph: DropIndex of the generated name),
// flip-unique (the unnamed index differs in uniqueness, so it is not similar: DropIndex + AddIndex).
type Twin struct {
	Table string `json:"table"`
	Index string `json:"index"`
	Gen   string `json:"gen"`
	Op    string `json:"op"`
}

// TwinCandidates lists the base indexes that can be given a database-generated name in the dialect.
func TwinCandidates(d string, s gm.Schema) []Twin {
	var out []Twin
	for _, t := range s.Tables {
		seen := map[string]int{}
		n := 0
		for _, ix := range t.Indexes {
			plain := true
			var cols []string
			for _, p := range ix.Parts {
				if p.Col == "" {
					plain = false
				}
				cols = append(cols, p.Col)
			}
			if d == "mysql" && len(ix.Parts) > 0 && ix.Parts[0].Col == "" {
				// an unnamed index whose first part is an expression: functional_index, functional_index_2, ...
				seen["\x00fx"]++
				name := "functional_index"
				if seen["\x00fx"] > 1 {
					name = fmt.Sprintf("functional_index_%d", seen["\x00fx"])
				}
				out = append(out, Twin{Table: t.Name, Index: ix.Name, Gen: name, Op: "keep"})
				continue
			}
			if !plain || len(cols) == 0 {
				continue
			}
			switch d {
			case "mysql": // c, c_2, c_3 ... by first column
				seen[cols[0]]++
				name := cols[0]
				if seen[cols[0]] > 1 {
					name = fmt.Sprintf("%s_%d", cols[0], seen[cols[0]])
				}
				out = append(out, Twin{Table: t.Name, Index: ix.Name, Gen: name, Op: "keep"})
			case "postgres": // <table>_<cols>_key for UNIQUE constraints
				if ix.Unique && ix.Where == "" {
					out = append(out, Twin{Table: t.Name, Index: ix.Name, Gen: t.Name + "_" + strings.Join(cols, "_") + "_key", Op: "keep"})
				}
			case "sqlite": // sqlite_autoindex_<table>_<N> for UNIQUE constraints
				if ix.Unique && ix.Where == "" {
					n++
					out = append(out, Twin{Table: t.Name, Index: ix.Name, Gen: fmt.Sprintf("sqlite_autoindex_%s_%d", t.Name, n), Op: "keep"})
				}
			}
		}
	}
	return out
}

// TwinConflict reports whether a catalogue edit touches a twinned index (its expectation is written for the named index).
func TwinConflict(st Site, twins []Twin) bool {
	for _, tw := range twins {
		for _, o := range st.Owns {
			if o == tw.Table+".idx:"+tw.Index || o == "drop:"+tw.Table {
				return true
			}
		}
	}
	return false
}

// Site is one catalogue edit at one place, with the objects it owns (for non-interference).
type Site struct {
	E    EditRef
	Owns []string
}

// modifyKinds are edits that change one aspect of an existing object; two *different* ones may be combined on the
// same object (the differ then reports one Modify change with the union of the kind flags).
var modifyKinds = map[string]bool{"modify-null": true, "modify-type": true, "modify-default": true, "modify-comment": true, "modify-charset": true, "modify-collate": true,
	"index-unique": true, "index-desc": true, "index-type": true, "index-where": true, "index-comment": true,
	"fk-ondelete": true, "fk-onupdate": true, "fk-column": true, "fk-refcolumn": true}

// ModifyKind reports whether an edit kind changes one aspect of an existing object.
func ModifyKind(k string) bool { return modifyKinds[k] }

func Conflict(a, b Site) bool {
	combinable := modifyKinds[a.E.Kind] && modifyKinds[b.E.Kind] && a.E.Kind != b.E.Kind && a.E.Table == b.E.Table && a.E.Obj == b.E.Obj
	for _, x := range a.Owns {
		for _, y := range b.Owns {
			if x == y {
				if combinable && len(a.Owns) > 0 && len(b.Owns) > 0 && x == a.Owns[0] && y == b.Owns[0] {
					continue // the shared object itself; any further shared token still conflicts
				}
				return true
			}
			for _, p := range [][2]string{{x, y}, {y, x}} {
				if strings.HasPrefix(p[0], "drop:") {
					t := strings.TrimPrefix(p[0], "drop:")
					if strings.HasPrefix(p[1], t+".") || p[1] == "use:"+t || p[1] == "drop:"+t {
						return true
					}
				}
			}
		}
	}
	return false
}

// Sites enumerates every catalogue edit at every applicable site of the schema, without the additions of unnamed
// indexes: those exist for the differ only (no planner names them), the other checks that reuse the catalogue plan the edits.
func Sites(d string, s gm.Schema) []Site {
	var out []Site
	for _, st := range AllSites(d, s) {
		if st.E.Kind != "add-unnamed-index" {
			out = append(out, st)
		}
	}
	return out
}

// AllSites is Sites plus the unnamed-index additions.
func AllSites(d string, s gm.Schema) []Site {
	var out []Site
	add := func(e EditRef, owns ...string) { out = append(out, Site{e, owns}) }
	ty := typesOf(d)
	referenced := map[string]bool{}
	refCols := map[string]bool{}
	for _, t := range s.Tables {
		for _, fk := range t.FKs {
			if fk.RefTable != t.Name {
				referenced[fk.RefTable] = true
			}
			for _, c := range fk.RefCols {
				refCols[fk.RefTable+"."+c] = true
			}
		}
	}
	add(EditRef{Kind: "add-table", Obj: "zz_new"}, "zz_new")
	if d == "postgres" {
		add(EditRef{Kind: "enum-add", Obj: "zz_enum"}, "enum:zz_enum")
		usedEnum := map[string]bool{}
		for _, t := range s.Tables {
			for _, c := range t.Cols {
				if strings.HasPrefix(c.Type, "enum:") {
					usedEnum[strings.TrimPrefix(c.Type, "enum:")] = true
				}
			}
		}
		for _, e := range s.Enums {
			if !usedEnum[e.Name] {
				add(EditRef{Kind: "enum-drop", Obj: e.Name}, "enum:"+e.Name)
			}
			add(EditRef{Kind: "enum-add-value", Obj: e.Name, Arg: "zz_value"}, "enum:"+e.Name)
			// a value inserted before the first or between two values: planned with a BEFORE / AFTER position clause
			for pos := range e.Values {
				add(EditRef{Kind: "enum-insert-value", Obj: e.Name, Arg: fmt.Sprint(pos)}, "enum:"+e.Name)
			}
		}
	}
	for _, t := range s.Tables {
		T := t.Name
		if !referenced[T] {
			add(EditRef{Kind: "drop-table", Table: T}, "drop:"+T)
		}
		used := map[string]bool{}
		for _, p := range t.PK {
			used[p.Col] = true
		}
		for _, ix := range t.Indexes {
			for _, p := range ix.Parts {
				used[p.Col] = true
			}
			for _, c := range ix.Include {
				used[c] = true
			}
			for _, c := range t.Cols {
				if strings.Contains(ix.Where, c.Name) {
					used[c.Name] = true
				}
			}
		}
		for _, fk := range t.FKs {
			for _, c := range fk.Cols {
				used[c] = true
			}
		}
		for _, c := range t.Cols {
			if refCols[T+"."+c.Name] {
				used[c.Name] = true
			}
			for _, ck := range t.Checks {
				if strings.Contains(ck.Expr, c.Name) {
					used[c.Name] = true
				}
			}
			for _, g := range t.Cols {
				if g.Gen != "" && strings.Contains(g.Gen, c.Name) {
					used[c.Name] = true
				}
			}
		}
		var free []string
		for _, c := range t.Cols {
			if !used[c.Name] && c.Gen == "" && !c.AutoInc && !c.Identity && !strings.HasPrefix(c.Type, "enum:") {
				free = append(free, c.Name)
			}
		}
		add(EditRef{Kind: "add-column", Table: T, Obj: "zz_col"}, T+".col:zz_col")
		// PostgreSQL: a default operator class that is no longer written out (no change), alone and together with a
		// change of the column's type (one ModifyColumn; the class was the default for the type it was written for)
		for _, ix := range t.Indexes {
			if d == "postgres" && len(ix.Parts) == 1 && ix.Parts[0].OpClass != "" {
				add(EditRef{Kind: "drop-opclass", Table: T, Obj: ix.Name}, T+".idx:"+ix.Name)
				add(EditRef{Kind: "retype-drop-opclass", Table: T, Obj: ix.Name, Arg: ty.big}, T+".idx:"+ix.Name, T+".col:"+ix.Parts[0].Col)
			}
		}
		// a column dropped together with the single-column index on it (nothing else may use the column)
		for _, ix := range t.Indexes {
			if len(ix.Parts) != 1 || ix.Parts[0].Col == "" || ix.Where != "" || len(ix.Include) > 0 {
				continue
			}
			cn, uses := ix.Parts[0].Col, 0
			for _, o := range t.Indexes {
				for _, p := range o.Parts {
					if p.Col == cn {
						uses++
					}
				}
				for _, inc := range o.Include {
					if inc == cn {
						uses++
					}
				}
				if strings.Contains(o.Where, cn) {
					uses++
				}
			}
			for _, p := range t.PK {
				if p.Col == cn {
					uses++
				}
			}
			for _, fk := range t.FKs {
				for _, c := range fk.Cols {
					if c == cn {
						uses++
					}
				}
			}
			for _, ck := range t.Checks {
				if strings.Contains(ck.Expr, cn) {
					uses++
				}
			}
			for _, g := range t.Cols {
				if g.Gen != "" && strings.Contains(g.Gen, cn) {
					uses++
				}
			}
			if uses == 1 && !refCols[T+"."+cn] {
				add(EditRef{Kind: "drop-indexed-column", Table: T, Obj: cn, Arg: ix.Name}, T+".col:"+cn, T+".idx:"+ix.Name)
			}
		}
		for _, cn := range free {
			c := t.Col(cn)
			key := T + ".col:" + cn
			add(EditRef{Kind: "drop-column", Table: T, Obj: cn}, key)
			if !strings.Contains(c.Type, "serial") { // a serial column is NOT NULL by definition (the planner refuses otherwise)
				add(EditRef{Kind: "modify-null", Table: T, Obj: cn}, key)
			}
			newType := ty.big
			switch {
			case d == "sqlite" && (c.Type == ty.i || c.Type == ty.big):
				newType = ty.text
			case c.Type == ty.big:
				newType = ty.i
			}
			if c.Default == "" && c.Charset == "" { // an integer column cannot keep a CHARSET
				add(EditRef{Kind: "modify-type", Table: T, Obj: cn, Arg: newType}, key)
			}
			if d == "postgres" && c.Type == ty.i && c.Default == "" {
				add(EditRef{Kind: "modify-type", Table: T, Obj: cn, Arg: "serial"}, key) // an integer column becomes a serial one
			}
			if d == "postgres" && c.Type == "citext" {
				add(EditRef{Kind: "modify-type", Table: T, Obj: cn, Arg: "ltree"}, key) // from one unknown type to another
			}
			switch {
			case strings.HasPrefix(c.Default, "'"):
				add(EditRef{Kind: "modify-default", Table: T, Obj: cn, Arg: "'changed'"}, key)
			case c.Default == "" && (c.Type == ty.i || c.Type == ty.big):
				add(EditRef{Kind: "modify-default", Table: T, Obj: cn, Arg: "7"}, key)
			}
			if d != "sqlite" {
				add(EditRef{Kind: "modify-comment", Table: T, Obj: cn, Arg: "new comment"}, key)
			}
			add(EditRef{Kind: "add-index", Table: T, Obj: "zz_idx_" + cn, Arg: cn}, key, T+".idx:zz_idx_"+cn)
			add(EditRef{Kind: "add-unnamed-index", Table: T, Arg: cn}, key)
			if len(t.PK) == 0 && !c.Null {
				add(EditRef{Kind: "add-pk", Table: T, Arg: cn}, key, T+".pk")
			}
		}
		for _, c := range t.Cols {
			if d == "mysql" && c.Charset != "" {
				key := T + ".col:" + c.Name
				other := map[string][2]string{"latin1": {"utf8mb4", "utf8mb4_bin"}, "utf8mb4": {"latin1", "latin1_general_ci"}}[c.Charset]
				sameCs := map[string]string{"latin1_bin": "latin1_general_cs", "latin1_swedish_ci": "latin1_bin", "utf8mb4_general_ci": "utf8mb4_bin", "utf8mb4_0900_ai_ci": "utf8mb4_unicode_ci"}[c.Collation]
				// both touch the collation: never combined with each other (shared token), but with any other aspect of the column
				add(EditRef{Kind: "modify-charset", Table: T, Obj: c.Name, Arg: other[0] + "/" + other[1]}, key, key+"#collation")
				add(EditRef{Kind: "modify-collate", Table: T, Obj: c.Name, Arg: sameCs}, key, key+"#collation")
			}
		}
		if d == "mysql" && t.Charset != "" {
			other := map[string][2]string{"latin1": {"utf8mb4", "utf8mb4_bin"}, "utf8mb4": {"latin1", "latin1_general_ci"}}[t.Charset]
			sameCs := map[string]string{"latin1_swedish_ci": "latin1_bin", "utf8mb4_0900_ai_ci": "utf8mb4_unicode_ci"}[t.Collation]
			add(EditRef{Kind: "table-charset", Table: T, Arg: other[0] + "/" + other[1]}, T+".attr:charset")
			add(EditRef{Kind: "table-collate", Table: T, Arg: sameCs}, T+".attr:charset")
		}
		for _, c := range t.Cols {
			if c.Gen != "" && d == "postgres" {
				// the one change of a generated column PostgreSQL supports: DROP EXPRESSION, alone or together with
				// another aspect of the column (cannot be undone: a plain column cannot be made generated)
				add(EditRef{Kind: "drop-generated", Table: T, Obj: c.Name}, T+".col:"+c.Name)
				add(EditRef{Kind: "drop-generated", Table: T, Obj: c.Name, Arg: "default"}, T+".col:"+c.Name)
				add(EditRef{Kind: "drop-generated", Table: T, Obj: c.Name, Arg: "null"}, T+".col:"+c.Name)
			}
		}
		for _, c := range t.Cols {
			if c.Gen != "" && d != "postgres" { // PostgreSQL: "changing the generation expression for a column is not supported" (diff refuses)
				add(EditRef{Kind: "modify-generated", Table: T, Obj: c.Name, Arg: strings.Replace(c.Gen, "+ 1", "+ 2", 1)}, T+".col:"+c.Name)
			}
		}
		if len(t.PK) == 0 {
			for _, c := range t.Cols {
				if !c.Null && c.Gen == "" && used[c.Name] == false {
					add(EditRef{Kind: "add-pk", Table: T, Arg: c.Name}, T+".col:"+c.Name, T+".pk")
					break
				}
			}
		} else if !referenced[T] {
			pkFree := true
			for _, p := range t.PK {
				if refCols[T+"."+p.Col] {
					pkFree = false
				}
			}
			if pkFree {
				add(EditRef{Kind: "drop-pk", Table: T}, T+".pk")
				if len(free) > 0 {
					add(EditRef{Kind: "pk-add-part", Table: T, Arg: free[0]}, T+".pk", T+".col:"+free[0])
				}
			}
		}
		for _, ix := range t.Indexes {
			key := T + ".idx:" + ix.Name
			supportsFK := false
			for _, c := range refCols {
				_ = c
			}
			for _, p := range ix.Parts {
				if refCols[T+"."+p.Col] {
					supportsFK = true
				}
			}
			if !supportsFK {
				add(EditRef{Kind: "drop-index", Table: T, Obj: ix.Name}, key)
				add(EditRef{Kind: "index-unique", Table: T, Obj: ix.Name}, key)
			}
			add(EditRef{Kind: "index-desc", Table: T, Obj: ix.Name}, key)
			if len(free) > 0 {
				add(EditRef{Kind: "index-column", Table: T, Obj: ix.Name, Arg: free[len(free)-1]}, key, T+".col:"+free[len(free)-1])
				add(EditRef{Kind: "index-add-part", Table: T, Obj: ix.Name, Arg: free[len(free)-1]}, key, T+".col:"+free[len(free)-1])
			}
			if d != "sqlite" {
				add(EditRef{Kind: "index-comment", Table: T, Obj: ix.Name, Arg: "changed index comment"}, key)
			}
			switch d {
			case "mysql":
				if ix.Parts[0].Prefix > 0 {
					add(EditRef{Kind: "index-prefix", Table: T, Obj: ix.Name}, key)
				}
				add(EditRef{Kind: "index-type", Table: T, Obj: ix.Name, Arg: "HASH"}, key)
			case "postgres":
				add(EditRef{Kind: "index-type", Table: T, Obj: ix.Name, Arg: "HASH"}, key)
				if ix.Where != "" {
					add(EditRef{Kind: "index-where", Table: T, Obj: ix.Name, Arg: strings.Replace(ix.Where, "> 0", "> 1", 1)}, key)
				}
				if len(ix.Include) > 0 && len(free) > 0 {
					add(EditRef{Kind: "index-include", Table: T, Obj: ix.Name, Arg: free[0]}, key, T+".col:"+free[0])
				}
			case "sqlite":
				if ix.Where != "" {
					add(EditRef{Kind: "index-where", Table: T, Obj: ix.Name, Arg: strings.Replace(ix.Where, "> 0", "> 1", 1)}, key)
				}
			}
		}
		for _, fk := range t.FKs {
			key := T + ".fk:" + fk.Name
			add(EditRef{Kind: "drop-fk", Table: T, Obj: fk.Name}, key)
			add(EditRef{Kind: "fk-ondelete", Table: T, Obj: fk.Name}, key)
			add(EditRef{Kind: "fk-onupdate", Table: T, Obj: fk.Name}, key)
			if T == "posts" && fk.Name == "fk_posts_user" {
				add(EditRef{Kind: "fk-column", Table: T, Obj: fk.Name, Arg: "alt_user_id"}, key, T+".col:alt_user_id")
				add(EditRef{Kind: "fk-refcolumn", Table: T, Obj: fk.Name, Arg: "alt_id"}, key, "use:users", "users.col:alt_id", "users.idx:idx_users_altid")
				add(EditRef{Kind: "fk-reftable", Table: T, Obj: fk.Name, Arg: "accounts"}, key, "use:accounts", "accounts.pk")
			}
		}
		if T == "posts" {
			add(EditRef{Kind: "add-fk", Table: T, Obj: "zz_fk", Arg: "alt_user_id>accounts"}, T+".fk:zz_fk", T+".col:alt_user_id", "use:accounts", "accounts.pk")
		}
		for _, ck := range t.Checks {
			key := T + ".chk:" + ck.Name + ck.Expr
			if d == "mysql" && strings.HasPrefix(ck.Expr, "json_valid") && t.Col(ck.Name) != nil {
				// database-generated check: only its removal together with the column is a reportable change
				add(EditRef{Kind: "drop-checked-column", Table: T, Obj: ck.Name, Arg: ck.Expr}, key, T+".col:"+ck.Name)
				continue
			}
			add(EditRef{Kind: "drop-check", Table: T, Obj: ck.Name, Arg: ck.Expr}, key)
			if ck.Name != "" {
				add(EditRef{Kind: "modify-check", Table: T, Obj: ck.Name, Arg: strings.Replace(ck.Expr, "> 0", "> 1", 1) + " OR 1 = 1"}, key)
			}
		}
		if len(free) > 0 {
			qc := `"` + free[0] + `"`
			if d == "mysql" {
				qc = "`" + free[0] + "`"
			}
			add(EditRef{Kind: "add-check", Table: T, Obj: "zz_ck", Arg: qc + " <> 3"}, T+".chk:zz_ck", T+".col:"+free[0])
		}
		if d != "sqlite" {
			add(EditRef{Kind: "table-comment", Table: T, Arg: "changed table comment"}, T+".attr:comment")
		}
		switch d {
		case "mysql":
			if t.Engine != "" {
				add(EditRef{Kind: "table-engine", Table: T, Arg: "InnoDB"}, T+".attr:engine")
			} else {
				// the default engine written out on a table that had none stated: no change; any other engine: one
				add(EditRef{Kind: "table-engine-stated", Table: T, Arg: "InnoDB"}, T+".attr:engine")
				add(EditRef{Kind: "table-engine-stated", Table: T, Arg: "MyISAM"}, T+".attr:engine")
			}
			if t.AutoIncStart > 0 {
				add(EditRef{Kind: "table-autoinc", Table: T}, T+".attr:autoinc")
			}
		case "sqlite":
			if len(t.PK) > 0 {
				add(EditRef{Kind: "table-without-rowid", Table: T}, T+".attr:wr", T+".pk")
			}
			add(EditRef{Kind: "table-strict", Table: T}, T+".attr:strict")
		}
	}
	// attributes of the schema itself (reported inside a ModifySchema); last, so that the positions of the other sites stay
	switch d {
	case "mysql":
		add(EditRef{Kind: "schema-charset", Arg: "latin1/latin1_swedish_ci"}, "schema.attr:charset")
		add(EditRef{Kind: "schema-collate", Arg: "utf8mb4_general_ci"}, "schema.attr:charset")
	case "postgres":
		add(EditRef{Kind: "schema-comment", Arg: "application schema"}, "schema.attr:comment")
	}
	return out
}
