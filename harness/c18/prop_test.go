package c18

import (
	"fmt"
	"strings"
	"testing"

	"pgregory.net/rapid"

	"verif/ev"
)

var known = ev.Matcher[Case]{}

const rule = "every step kind x every table of the initial schema x column {a, b} x authoring route as a one-file history; random histories of 2-5 migration files after a fixed init file, each file = 1-3 schema evolution steps over a table model (add/drop table, add/drop plain column, add/drop VIRTUAL generated column, add/drop index, " +
	"manual table rebuild omitting a column, manual rebuild keeping all columns, scratch table created and dropped in the same file, column added and dropped in the same file, pre-existing column dropped and re-added under the same name, pre-existing table dropped and re-created); each file is authored either by the real `atlas migrate diff` " +
	"(Atlas' own SQL incl. its rebuild procedure) or as hand-written equivalent SQL; then `atlas migrate lint --dev-url sqlite://dev?mode=memory --latest N --format '{{ json . }}'` for every N up to the whole directory (init file included: empty base). Hand-written files are padded with 2-14 `SELECT 1` statements a third of the time (files longer than ten statements take another loader path). " +
	"Oracle: per file in the window the multiset of DS1xx diagnostics (code, object) equals the model's (a table or non-virtual column that existed before the file disappears => DS102/DS103; nothing for additive, virtual, index or same-file temporary objects); " +
	"each Pos lies inside the statement (or rebuild group) of that table; exit status non-zero iff the window holds a destructive file. " +
	"non-trivial = window with >=1 destructive file or >=1 rebuild; distinct key = (authoring routes, step kinds, N)"

var tables = []string{"base", "other", "events", "t3", "events", "_meta", "news", "Users"} // incl. names made of the letters of the rebuild prefix new_
var cols = []string{"a", "b", "c", "d", "g"}
var kinds = []string{"add-table", "drop-table", "add-column", "drop-column", "add-virtual", "drop-virtual", "add-index", "drop-index", "rebuild-omit", "rebuild-keep", "temp-table", "temp-column", "drop-column", "add-column", "drop-readd-column", "drop-recreate-table", "rebuild-omit-virtual-and-later", "rebuild-omit-virtual-and-later", "add-column"}

func handOnly(k string) bool {
	return k == "rebuild-omit" || k == "rebuild-keep" || k == "temp-table" || k == "temp-column" || k == "drop-readd-column" || k == "drop-recreate-table"
}

func genCase(t *rapid.T) Case {
	var c Case
	n := rapid.IntRange(2, 5).Draw(t, "files")
	for i := 0; i < n; i++ {
		f := FileSpec{Route: rapid.SampledFrom([]string{"diff", "hand"}).Draw(t, "route")}
		used := map[string]bool{}
		for k := rapid.IntRange(1, 3).Draw(t, "steps"); k > 0; k-- {
			s := Step{Kind: rapid.SampledFrom(kinds).Draw(t, "kind"), Table: rapid.SampledFrom(tables).Draw(t, "table"), Col: rapid.SampledFrom(cols).Draw(t, "col")}
			if used[s.Table] {
				continue // one step per table per file keeps "pre-existing" unambiguous
			}
			if f.Route == "diff" && handOnly(s.Kind) {
				continue
			}
			used[s.Table] = true
			f.Steps = append(f.Steps, s)
		}
		if f.Route == "hand" && rapid.IntRange(0, 2).Draw(t, "padded") == 0 {
			f.Pad = rapid.SampledFrom([]int{2, 9, 10, 11, 14}).Draw(t, "pad")
		}
		if len(f.Steps) > 0 {
			c.Files = append(c.Files, f)
		}
	}
	return c
}

func TestCheck(t *testing.T) {
	col := ev.New("C18", "exploration", rule)
	defer col.Finish()
	check := func(c Case) error {
		out, err := checkCase(c)
		for i, fi := range out.Files {
			cls := "additive"
			if len(fi.Wants) > 0 {
				cls = "destructive"
			}
			col.Class(fi.Route + "/" + cls)
			if fi.Rebuild {
				col.Class(fi.Route + "/rebuild")
			}
			if fi.Padded {
				col.Class(fi.Route + "/" + cls + "/padded-with-selects")
			}
			for _, k := range fi.Kinds {
				col.Class("step/" + k)
			}
			if len(fi.Wants) > 0 || fi.Rebuild {
				col.NonTrivial(fmt.Sprintf("%s|%s|%d", fi.Route, strings.Join(fi.Kinds, ","), len(out.Files)-i))
			}
		}
		col.Sample("history", c)
		return err
	}
	// every step kind on every table of the initial schema, authored by hand and (where the kind allows) by migrate diff:
	// one file after the fixed init file, so that each kind is judged on a pre-existing object whatever the random part draws
	seen := map[string]bool{}
	for _, k := range kinds {
		for _, tb := range []string{"base", "other", "events", "Users"} {
			for _, cn := range []string{"a", "b"} {
				for _, route := range []string{"hand", "diff"} {
					if route == "diff" && handOnly(k) || seen[k+tb+cn+route] {
						continue
					}
					seen[k+tb+cn+route] = true
					c := Case{Files: []FileSpec{{Route: route, Steps: []Step{{Kind: k, Table: tb, Col: cn}}}}}
					if !ev.Each(col, "each-kind-on-each-initial-table", c, check, known) {
						return
					}
				}
			}
		}
	}
	ev.Rapid(t, col, "histories", col.N(90, 4000), genCase, check, known)
}

func TestReplay(t *testing.T) {
	ev.ReplayFile(t, "C18", func(_ string, c Case) error { _, err := checkCase(c); return err })
}
