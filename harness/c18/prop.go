// Package c18: lint flags every destructive migration and no purely additive one.
package c18

import (
	"encoding/json"
	"fmt"
	"os"
	"path/filepath"
	"sort"
	"strings"

	"ariga.io/atlas/sql/sqlite"

	"verif/cli"
)

// Step is one schema evolution inside a migration file.
type Step struct {
	Kind  string `json:"kind"` // add-table drop-table add-column drop-column add-virtual drop-virtual add-index drop-index rebuild-omit rebuild-keep temp-table temp-column drop-readd-column drop-recreate-table rebuild-omit-virtual-and-later
	Table string `json:"table"`
	Col   string `json:"col,omitempty"`
}

type FileSpec struct {
	Route string `json:"route"` // diff (real `atlas migrate diff`) | hand (hand-written equivalent SQL)
	Steps []Step `json:"steps"`
	Pad   int    `json:"pad,omitempty"` // hand route: number of `SELECT 1` statements around the real ones (long files take other code paths in the loader)
}

type Case struct {
	Files []FileSpec `json:"files"`
}

type column struct {
	name    string
	virtual bool
}

type table struct {
	cols    []column
	indexes []string
}

type model map[string]*table

func (m model) clone() model {
	out := model{}
	for n, t := range m {
		c := &table{cols: append([]column{}, t.cols...), indexes: append([]string{}, t.indexes...)}
		out[n] = c
	}
	return out
}

func colDef(c column) string {
	if c.virtual {
		return fmt.Sprintf("`%s` text AS (`id` || 'x') VIRTUAL", c.name)
	}
	if c.name == "id" {
		return "`id` integer NOT NULL"
	}
	return fmt.Sprintf("`%s` text NULL", c.name)
}

func createTable(name string, t *table) string {
	var defs []string
	for _, c := range t.cols {
		defs = append(defs, colDef(c))
	}
	return fmt.Sprintf("CREATE TABLE `%s` (%s)", name, strings.Join(defs, ", "))
}

// schemaSQL renders the desired state for `migrate diff --to file://schema.sql`.
func (m model) schemaSQL() string {
	var names []string
	for n := range m {
		names = append(names, n)
	}
	sort.Strings(names)
	var b strings.Builder
	for _, n := range names {
		b.WriteString(createTable(n, m[n]) + ";\n")
		for _, ix := range m[n].indexes {
			fmt.Fprintf(&b, "CREATE INDEX `%s` ON `%s` (`id`);\n", ix, n)
		}
	}
	return b.String()
}

// want is one expected destructive diagnostic.
type want struct {
	code, object string
	table        string // for DS103: the table (Pos must fall on its drop/rebuild statements)
}

// apply performs a step on the model, returns the hand-written SQL for it and the expected diagnostics.
// pre is the state before the *file* (only objects that existed before the file count as destructive drops).
func apply(m, pre model, s Step) (sql []string, ws []want, ok bool) {
	t := m[s.Table]
	switch s.Kind {
	case "add-table":
		if t != nil {
			return nil, nil, false
		}
		m[s.Table] = &table{cols: []column{{name: "id"}, {name: "a"}, {name: "b"}}}
		return []string{createTable(s.Table, m[s.Table])}, nil, true
	case "drop-table":
		if t == nil {
			return nil, nil, false
		}
		delete(m, s.Table)
		if pre[s.Table] != nil {
			ws = append(ws, want{"DS102", s.Table, s.Table})
		}
		return []string{fmt.Sprintf("DROP TABLE `%s`", s.Table)}, ws, true
	}
	if t == nil {
		return nil, nil, false
	}
	has := func(n string) int {
		for i, c := range t.cols {
			if c.name == n {
				return i
			}
		}
		return -1
	}
	preHas := func(n string) bool {
		if pre[s.Table] == nil {
			return false
		}
		for _, c := range pre[s.Table].cols {
			if c.name == n && !c.virtual {
				return true
			}
		}
		return false
	}
	rebuild := func(nt *table, copyCols []string) []string {
		tmp := "new_" + s.Table
		q := "`" + strings.Join(copyCols, "`, `") + "`"
		out := []string{createTable(tmp, nt), fmt.Sprintf("INSERT INTO `%s` (%s) SELECT %s FROM `%s`", tmp, q, q, s.Table),
			fmt.Sprintf("DROP TABLE `%s`", s.Table), fmt.Sprintf("ALTER TABLE `%s` RENAME TO `%s`", tmp, s.Table)}
		for _, ix := range nt.indexes {
			out = append(out, fmt.Sprintf("CREATE INDEX `%s` ON `%s` (`id`)", ix, s.Table))
		}
		return out
	}
	plain := func(tb *table) []string {
		var out []string
		for _, c := range tb.cols {
			if !c.virtual {
				out = append(out, c.name)
			}
		}
		return out
	}
	switch s.Kind {
	case "add-column":
		if has(s.Col) != -1 {
			return nil, nil, false
		}
		t.cols = append(t.cols, column{name: s.Col})
		return []string{fmt.Sprintf("ALTER TABLE `%s` ADD COLUMN `%s` text NULL", s.Table, s.Col)}, nil, true
	case "add-virtual":
		if has(s.Col) != -1 {
			return nil, nil, false
		}
		t.cols = append(t.cols, column{name: s.Col, virtual: true})
		return []string{fmt.Sprintf("ALTER TABLE `%s` ADD COLUMN %s", s.Table, colDef(column{s.Col, true}))}, nil, true
	case "drop-column", "drop-virtual", "rebuild-omit":
		i := has(s.Col)
		if i == -1 || s.Col == "id" || t.cols[i].virtual != (s.Kind == "drop-virtual") || len(plain(t)) <= 1 && !t.cols[i].virtual {
			return nil, nil, false
		}
		if !t.cols[i].virtual && preHas(s.Col) {
			ws = append(ws, want{"DS103", s.Col, s.Table})
		}
		t.cols = append(t.cols[:i], t.cols[i+1:]...)
		if s.Kind == "rebuild-omit" {
			return rebuild(t, plain(t)), ws, true
		}
		return []string{fmt.Sprintf("ALTER TABLE `%s` DROP COLUMN `%s`", s.Table, s.Col)}, ws, true
	case "rebuild-omit-virtual-and-later":
		// one rebuild omits a VIRTUAL generated column together with every regular column that follows it
		vi := -1
		for i, c := range t.cols {
			if c.virtual {
				vi = i
				break
			}
		}
		if vi == -1 || vi == len(t.cols)-1 || vi < 2 {
			return nil, nil, false
		}
		for _, c := range t.cols[vi+1:] {
			if !c.virtual && preHas(c.name) {
				ws = append(ws, want{"DS103", c.name, s.Table})
			}
		}
		t.cols = t.cols[:vi]
		return rebuild(t, plain(t)), ws, true
	case "drop-readd-column": // the pre-existing column (and its data) is dropped, a new column of the same name is added
		i := has(s.Col)
		if i == -1 || s.Col == "id" || t.cols[i].virtual || len(plain(t)) <= 1 {
			return nil, nil, false
		}
		if preHas(s.Col) {
			ws = append(ws, want{"DS103", s.Col, s.Table})
		}
		c := t.cols[i]
		t.cols = append(append(t.cols[:i:i], t.cols[i+1:]...), c)
		return []string{fmt.Sprintf("ALTER TABLE `%s` DROP COLUMN `%s`", s.Table, s.Col), fmt.Sprintf("ALTER TABLE `%s` ADD COLUMN `%s` text NULL", s.Table, s.Col)}, ws, true
	case "drop-recreate-table": // the pre-existing table is dropped and a table of the same name is created
		if pre[s.Table] != nil {
			ws = append(ws, want{"DS102", s.Table, s.Table})
		}
		m[s.Table] = &table{cols: []column{{name: "id"}, {name: "a"}}}
		return []string{fmt.Sprintf("DROP TABLE `%s`", s.Table), createTable(s.Table, m[s.Table])}, ws, true
	case "rebuild-keep":
		return rebuild(t, plain(t)), nil, true
	case "add-index":
		ix := "ix_" + s.Table + "_" + s.Col
		for _, x := range t.indexes {
			if x == ix {
				return nil, nil, false
			}
		}
		t.indexes = append(t.indexes, ix)
		return []string{fmt.Sprintf("CREATE INDEX `%s` ON `%s` (`id`)", ix, s.Table)}, nil, true
	case "drop-index":
		if len(t.indexes) == 0 {
			return nil, nil, false
		}
		ix := t.indexes[len(t.indexes)-1]
		t.indexes = t.indexes[:len(t.indexes)-1]
		return []string{fmt.Sprintf("DROP INDEX `%s`", ix)}, nil, true
	case "temp-table":
		n := "scratch_" + s.Table
		return []string{fmt.Sprintf("CREATE TABLE `%s` (x integer)", n), fmt.Sprintf("INSERT INTO `%s` VALUES (1)", n), fmt.Sprintf("DROP TABLE `%s`", n)}, nil, true
	case "temp-column":
		if has("scratch_col") != -1 {
			return nil, nil, false
		}
		return []string{fmt.Sprintf("ALTER TABLE `%s` ADD COLUMN `scratch_col` text NULL", s.Table), fmt.Sprintf("ALTER TABLE `%s` DROP COLUMN `scratch_col`", s.Table)}, nil, true
	}
	return nil, nil, false
}

type lintJSON struct {
	Files []struct {
		Name    string
		Text    string
		Error   string
		Reports []struct {
			Text        string
			Diagnostics []struct {
				Pos  int
				Text string
				Code string
			}
		}
	}
}

// FileInfo is what the history produced for one file.
type FileInfo struct {
	Name    string
	Wants   []want
	Rebuild bool
	Route   string
	Kinds   []string
	Padded  bool
}

type Outcome struct {
	Files   []FileInfo
	Windows int
}

func checkCase(c Case) (Outcome, error) {
	var out Outcome
	sb, err := cli.NewSandbox()
	if err != nil {
		return out, fmt.Errorf("harness: %v", err)
	}
	defer sb.Close()
	os.MkdirAll(sb.Path("m"), 0o755)
	dev := "sqlite://dev?mode=memory"
	m := model{}
	// file 0: a fixed starting point so that later files have pre-existing objects
	m["base"] = &table{cols: []column{{name: "id"}, {name: "a"}, {name: "g", virtual: true}, {name: "b"}}, indexes: []string{"ix_base_0"}}
	m["other"] = &table{cols: []column{{name: "id"}, {name: "a"}, {name: "b"}}}
	m["events"] = &table{cols: []column{{name: "id"}, {name: "a"}, {name: "b"}}} // a name that starts with letters of the rebuild prefix new_
	m["Users"] = &table{cols: []column{{name: "id"}, {name: "a"}, {name: "b"}}}  // a mixed-case name (the rebuild goes through new_Users)
	// a table no step touches, with a trigger: files older than the lint window are replayed too, and a trigger body holds
	// semicolons of its own
	m["audit_log"] = &table{cols: []column{{name: "id"}, {name: "a"}}}
	sb.WriteFile("m/100_init.sql", m.schemaSQL()+"CREATE TRIGGER trg_audit_log AFTER INSERT ON audit_log BEGIN SELECT 1; SELECT 2; END;\n")
	rehash := func() error {
		if r := sb.Run("migrate", "hash", "--dir", "file://m"); r.Code != 0 {
			return fmt.Errorf("harness: %v", r)
		}
		return nil
	}
	if err := rehash(); err != nil {
		return out, err
	}
	texts := map[string]string{}
	for i, f := range c.Files {
		pre := m.clone()
		var stmts []string
		var info FileInfo
		info.Route = f.Route
		for _, s := range f.Steps {
			sql, ws, ok := apply(m, pre, s)
			if !ok {
				continue
			}
			info.Kinds = append(info.Kinds, s.Kind)
			stmts = append(stmts, sql...)
			info.Wants = append(info.Wants, ws...)
		}
		if len(info.Kinds) == 0 {
			continue
		}
		// a table dropped after its column was dropped in the same file: only the table drop remains observable
		var ws []want
		for _, w := range info.Wants {
			if w.code == "DS103" && m[w.table] == nil {
				continue
			}
			ws = append(ws, w)
		}
		info.Wants = ws
		name := fmt.Sprintf("%d_s.sql", 101+i)
		info.Name = name
		if f.Route == "diff" {
			sb.WriteFile("schema.sql", m.schemaSQL())
			before, _ := filepath.Glob(sb.Path("m", "*.sql"))
			r := sb.Run("migrate", "diff", "s", "--dir", "file://m", "--dev-url", dev, "--to", "file://schema.sql")
			if r.Code != 0 {
				return out, fmt.Errorf("harness: migrate diff failed: %v", r)
			}
			after, _ := filepath.Glob(sb.Path("m", "*.sql"))
			if len(after) != len(before)+1 {
				// no changes (e.g. steps cancelled out): nothing to lint for this step
				continue
			}
			seen := map[string]bool{}
			for _, b := range before {
				seen[b] = true
			}
			for _, a := range after {
				if !seen[a] {
					os.Rename(a, sb.Path("m", name))
				}
			}
		} else {
			padded := stmts
			if f.Pad > 0 {
				padded = nil
				for k := 0; k < f.Pad/2; k++ {
					padded = append(padded, "SELECT 1")
				}
				padded = append(padded, stmts...)
				for k := f.Pad / 2; k < f.Pad; k++ {
					padded = append(padded, "SELECT 1")
				}
				info.Padded = true
			}
			sb.WriteFile("m/"+name, strings.Join(padded, ";\n")+";\n")
		}
		if err := rehash(); err != nil {
			return out, err
		}
		b, _ := os.ReadFile(sb.Path("m", name))
		texts[name] = string(b)
		info.Rebuild = strings.Contains(string(b), "`new_")
		out.Files = append(out.Files, info)
	}
	// lint every window, the last one covering the whole directory (the init file included, so that the loader starts
	// from an empty base)
	initText, _ := os.ReadFile(sb.Path("m", "100_init.sql"))
	texts["100_init.sql"] = string(initText)
	all := append([]FileInfo{{Name: "100_init.sql", Route: "hand", Kinds: []string{"init"}}}, out.Files...)
	for n := 1; n <= len(all); n++ {
		out.Windows++
		// the window, the directory and the dev database are given on the command line, or (every other window) by the
		// selected env of a project file; for the first window of those also on the command line against another value in the env
		var r cli.Result
		switch {
		case n%2 == 1:
			r = sb.Run("migrate", "lint", "--dir", "file://m", "--dev-url", dev, "--latest", fmt.Sprint(n), "--format", "{{ json . }}")
		case n == 2:
			sb.WriteFile("atlas.hcl", fmt.Sprintf("env \"x\" {\n  dev = %q\n  migration {\n    dir = \"file://m\"\n  }\n  lint {\n    latest = %d\n  }\n}\n", dev, len(all)))
			r = sb.Run("migrate", "lint", "--env", "x", "-c", "file://atlas.hcl", "--latest", fmt.Sprint(n), "--format", "{{ json . }}")
		default:
			sb.WriteFile("atlas.hcl", fmt.Sprintf("env \"x\" {\n  dev = %q\n  migration {\n    dir = \"file://m\"\n  }\n  lint {\n    latest = %d\n  }\n}\n", dev, n))
			r = sb.Run("migrate", "lint", "--env", "x", "-c", "file://atlas.hcl", "--format", "{{ json . }}")
		}
		var lj lintJSON
		if err := json.Unmarshal([]byte(r.Stdout), &lj); err != nil {
			return out, fmt.Errorf("lint --latest %d: output is not JSON: %v", n, r)
		}
		window := all[len(all)-n:]
		anyDestructive := false
		for _, fi := range window {
			if len(fi.Wants) > 0 {
				anyDestructive = true
			}
			var got []string
			type diag struct {
				code, text string
				pos        int
			}
			var diags []diag
			found := false
			for _, lf := range lj.Files {
				if lf.Name != fi.Name {
					continue
				}
				found = true
				for _, rep := range lf.Reports {
					for _, d := range rep.Diagnostics {
						if strings.HasPrefix(d.Code, "DS1") {
							// one diagnostic may name several columns: Dropping non-virtual columns "b" and "d"
							for _, o := range objectsOf(d.Text) {
								got = append(got, d.Code+":"+o)
							}
							diags = append(diags, diag{d.Code, d.Text, d.Pos})
						}
					}
				}
			}
			if !found {
				return out, fmt.Errorf("lint --latest %d: file %s is not in the report (files in window: %d)\n%v", n, fi.Name, len(window), r)
			}
			var wantS []string
			for _, w := range fi.Wants {
				wantS = append(wantS, w.code+":"+w.object)
			}
			sort.Strings(got)
			sort.Strings(wantS)
			if strings.Join(got, ",") != strings.Join(wantS, ",") {
				return out, fmt.Errorf("lint --latest %d, file %s (%s route, steps %v): destructive diagnostics %v, the model says %v\nfile:\n%s", n, fi.Name, fi.Route, fi.Kinds, got, wantS, texts[fi.Name])
			}
			// position: on the statement (or rebuild group) that causes the drop
			stmts, err := (*sqlite.Driver)(nil).ScanStmts(texts[fi.Name])
			if err != nil {
				return out, fmt.Errorf("harness: %v", err)
			}
			for _, d := range diags {
				okPos := false
				obj := objectOf(d.text)
				for _, s := range stmts {
					if d.pos < s.Pos || d.pos >= s.Pos+len(s.Text) {
						continue
					}
					for _, w := range fi.Wants {
						if w.code != d.code || w.object != obj {
							continue
						}
						switch d.code {
						case "DS102":
							okPos = okPos || strings.Contains(s.Text, "DROP TABLE") && strings.Contains(s.Text, "`"+obj+"`")
						case "DS103":
							okPos = okPos || strings.Contains(s.Text, "`"+w.table+"`") || strings.Contains(s.Text, "`new_"+w.table+"`")
						}
					}
				}
				if !okPos {
					return out, fmt.Errorf("lint --latest %d, file %s: diagnostic %s %q reported at Pos %d which is not on the statement that causes it\nfile:\n%s", n, fi.Name, d.code, d.text, d.pos, texts[fi.Name])
				}
			}
		}
		if anyDestructive != (r.Code != 0) {
			return out, fmt.Errorf("lint --latest %d: exit status %d but destructive file in window = %v\n%v", n, r.Code, anyDestructive, r)
		}
	}
	return out, nil
}

// objectOf extracts the quoted object name from a diagnostic text.
// objectsOf returns every double-quoted name of a diagnostic text (the whole text if there is none).
func objectsOf(text string) []string {
	var out []string
	rest := text
	for {
		i := strings.Index(rest, `"`)
		if i == -1 {
			break
		}
		j := strings.Index(rest[i+1:], `"`)
		if j == -1 {
			break
		}
		out = append(out, rest[i+1:i+1+j])
		rest = rest[i+j+2:]
	}
	if len(out) == 0 {
		return []string{text}
	}
	return out
}

func objectOf(text string) string {
	i := strings.Index(text, `"`)
	if i == -1 {
		return text
	}
	j := strings.Index(text[i+1:], `"`)
	if j == -1 {
		return text
	}
	return text[i+1 : i+1+j]
}
