#!/usr/bin/env python3
"""Writes seeded/README.md and completes seeded/<id>/meta.json from the notes below."""
import json, os, glob
ROOT = os.path.dirname(os.path.dirname(os.path.abspath(__file__)))
NOTES = {
 "C01-a": ("sqlite alterTable: `return s.dropIndexes(...)` inside the loop — every change after the first DropIndex of a table is silently left out of the plan",
           "an in-place alterable table diff with a dropped index followed by another index change (rebuilds mask it)", "caught by C01 engine-pairs as written (second plan not empty)"),
 "C02-a": ("sqlx fkChange: the child-column comparison only runs when the referenced side is unchanged (two switches folded into one)",
           "ONE foreign key whose child columns AND referenced columns/table change in the same diff", "missed at first: the catalogue only combined edits of different objects. Added: different aspect edits of the SAME object are combinable (expected = one Modify change with the union of kind flags, c02.MergeModify) and every such combination is enumerated (sub-check exhaustive-same-object-combos). Caught since."),
 "C03-a": ("sqlite indexParts: early return for expression parts before the shared DESC suffix is written", "an index part that is both an expression and DESC, visible only after replaying the SQL export", "caught by C03 engine as written (independent catalog comparison)"),
 "C04-a": ("sqlx dependencies(): `dropped` map filled in the same loop that reads it, so cycles among dropped tables lose an edge and are not detached",
           "a plan dropping >=2 tables that form an FK cycle without self reference", "caught by C04 exhaustive (n=2) as written"),
 "C05-a": ("sqlite copyRows: IFNULL back-fill guarded by 'source was nullable' instead of 'target is NOT NULL'", "column nullable before and after + default added/changed + populated table with NULLs, rebuild path", "caught by C05 as written"),
 "C06-a": ("NewHashFile: the sum-ignore check runs before the file name is hashed, so an ignored file contributes nothing", "tampering (add/remove/rename/reorder) with a file carrying `atlas:sum ignore` that has a regular file after it", "caught by C06 exhaustive neighbourhood as written (reference model keeps the name of an ignored file that precedes a listed file)"),
 "C07-a": ("postgres ScanStmts sets BackslashEscapes: true", "PostgreSQL plan with a backslash directly before a closing quote (literal/identifier ending in `\\`), read through the driver scanner (atlas / liquibase dirs)", "caught by C07 literals as written"),
 "C08-a": ("Scanner.skipSpaces rewritten as a byte loop testing unicode.IsSpace(rune(byte))", "input where a statement is preceded by non-ASCII whitespace (U+00A0, U+0085, U+2028, U+3000) or a stray 0x85/0xA0 byte", "caught by C08 corpus/grammar as written"),
 "C09-a": ("Executor.Execute records sums[i] (index into the resumed tail) instead of sums[r.Applied]", "two statement faults in the same file of >=3 statements, the first at position >=1, then a clean run", "caught by C09 exhaustive-2-faults as written"),
 "C10-a": ("Executor.Execute appends the partial hash after the per-statement revision write (torn row: applied=k, k-1 hashes)", "tx-mode none + process death after the write that follows statement k>=1 of a multi-statement file + re-run", "caught by C10 crash-points as written (re-run panics)"),
 "C11-a": ("Pending, partial-checkpoint branch: `return all[idx:]` (later checkpoint files no longer skipped)", "last revision = partially applied checkpoint and a newer checkpoint exists in the directory", "caught by C11 api-exhaustive as written"),
 "C12-a": ("Executor.Execute records sums[i] instead of sums[r.Applied] (same slip as C09-a, produced independently)", "fail at k>=1, fix the tail, resume, fail again later, run again: falsely refused with history changed", "missed at first: C12 had exactly one failure per case. Added: a second partial failure at every later index during the resume followed by a third run (exhaustive + random). Caught since — and the strengthened check found a genuine defect of the unchanged tree (stale Revision.Total, fixed in 3e1e6ef)."),
 "C13-a": ("cmdapi tx: the per-file mode is stored in tx.mode, which modeFor reads as the global --tx-mode; a directive leaks into later files", "a file with a txmode directive different from --tx-mode, followed by a file without directive that fails at statement >0", "caught by C13 enumerated directive configurations as written"),
 "C14-a": ("sqlite Snapshot restore: returns early when the realm has no tables (views are not inspected)", "dev database that holds only views at restore time (view-only directory, or replay failing while only views exist)", "missed at first: replayed statements were tables and indexes only. Added Style 1/2 (view-only prefixes and end states, views on tables, triggers) at every failure position. Caught since."),
}
lines = ["# Seeded changes (produced by fresh sub-agents that saw only the property text)", "",
         "Each directory holds `patch.diff` (against /repo HEAD at the time), the agent's demonstration (`*_test.go.txt`), its README and `meta.json`",
         "(what I ran: demo passes without / fails with the patch; existing suites with the patch; exit code of our check against the patched tree).",
         "`TestDriver_LockAcquired` failures in `existing_tests_with_patch.root` are an artefact of several `go test` runs sharing /tmp/lock.lock at the same time, not of the patches.", "",
         "| id | change | needs, to manifest | our check |", "|---|---|---|---|"]
for d in sorted(glob.glob(os.path.join(ROOT, "seeded", "*", "meta.json"))):
    sid = os.path.basename(os.path.dirname(d))
    m = json.load(open(d))
    what, needs, verdict = NOTES.get(sid, ("(see agent_README.md)", "(see agent_README.md)", ""))
    m["change"], m["needs_to_manifest"], m["verdict"] = what, needs, verdict
    json.dump(m, open(d, "w"), indent=1)
    caught = {k: v["caught"] for k, v in m.get("checks", {}).items()}
    lines.append("| %s | %s | %s | %s (last run: %s) |" % (sid, what, needs, verdict, caught))
open(os.path.join(ROOT, "seeded", "README.md"), "w").write("\n".join(lines) + "\n")
print("\n".join(lines[-14:])[:1500])
