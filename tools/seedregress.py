#!/usr/bin/env python3
"""Re-runs every kept seeded change against the current /repo HEAD and the current checks.

  tools/seedregress.py [seed-id ...]

For each seeded/<id>/ the patch (patch_ported_to_fixed_tree.diff when present) is applied in a scratch worktree
by tools/mutate.py and the property's quick check must exit 1. Writes seeded/regress.json.
"""
import json, os, subprocess, sys, glob
ROOT = os.path.dirname(os.path.dirname(os.path.abspath(__file__)))
EXPECT_NOT_CAUGHT = {"C04-b": "neutralised by fix 8b8a59e (see seeded/README.md)",
                     "C14-d": "neutralised by fix 7dae99d (see seeded/README.md)"}
# seeds whose change breaks another property than the one the agent was given: run against that check
RUN_AGAINST = {"C01-d": "C05", "C09-d": "C11", "C12-h": "C11"}

def main():
    ids = sys.argv[1:] or sorted(os.path.basename(os.path.dirname(p)) for p in glob.glob(os.path.join(ROOT, "seeded", "*", "meta.json")))
    out = {}
    for sid in ids:
        d = os.path.join(ROOT, "seeded", sid)
        prop = RUN_AGAINST.get(sid, json.load(open(os.path.join(d, "meta.json")))["property"])
        patch = os.path.join(d, "patch_ported_to_fixed_tree.diff")
        if not os.path.exists(patch):
            patch = os.path.join(d, "patch.diff")
        r = subprocess.run([os.path.join(ROOT, "tools", "mutate.py"), prop, "regress-" + sid, "--patch", patch],
                           stdout=subprocess.PIPE, stderr=subprocess.STDOUT, text=True)
        res = None
        for l in r.stdout.splitlines():
            if l.startswith("{"):
                try: res = json.loads(l)
                except Exception: pass
        if res is None:
            out[sid] = {"property": prop, "status": "patch does not apply / tool error", "detail": r.stdout[-400:]}
        else:
            out[sid] = {"property": prop, "status": "caught" if res["caught"] else "NOT caught", "exit": res["exit"], "wall_s": res["wall_s"]}
        if sid in EXPECT_NOT_CAUGHT:
            out[sid]["note"] = EXPECT_NOT_CAUGHT[sid]
        print(sid, out[sid]["status"], out[sid].get("note", ""), flush=True)
    p = os.path.join(ROOT, "seeded", "regress.json")
    old = json.load(open(p)) if os.path.exists(p) else {}
    old.update(out)
    json.dump(old, open(p, "w"), indent=1, sort_keys=True)

main()
