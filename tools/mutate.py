#!/usr/bin/env python3
"""Sensitivity testing: apply a textual mutant to a scratch worktree of /repo and run a check against it.

  tools/mutate.py <ID> <name> <file> <old> <new> [tier]     (old must occur exactly once unless prefixed 'N:' count)
  tools/mutate.py <ID> <name> --patch <diff file> [tier]

Appends the outcome to mutants_log.jsonl. The worktree is removed afterwards.
"""
import json, os, subprocess, sys, tempfile, shutil, time
ROOT = os.path.dirname(os.path.dirname(os.path.abspath(__file__)))

def main():
    pid, name = sys.argv[1], sys.argv[2]
    wt = tempfile.mkdtemp(prefix="wt-%s-" % pid, dir="/tmp")
    os.rmdir(wt)
    subprocess.run(["git", "-C", "/repo", "worktree", "add", "--detach", "-q", wt, "HEAD"], check=True)
    try:
        if sys.argv[3] == "--patch":
            tier = sys.argv[5] if len(sys.argv) > 5 else "quick"
            subprocess.run(["git", "-C", wt, "apply", os.path.abspath(sys.argv[4])], check=True)
            desc = "patch " + sys.argv[4]
        else:
            f, old, new = sys.argv[3], sys.argv[4], sys.argv[5]
            tier = sys.argv[6] if len(sys.argv) > 6 else "quick"
            if os.path.isabs(f):  # never the tree itself: paths are relative to the scratch worktree
                f = os.path.relpath(f, "/repo")
            p = os.path.join(wt, f)
            s = open(p).read()
            if s.count(old) != 1:
                print("MUTANT-ERROR: %r occurs %d times in %s" % (old, s.count(old), f)); return 3
            open(p, "w").write(s.replace(old, new))
            desc = "%s: %r -> %r" % (f, old, new)
        env = dict(os.environ, VERIF_REPO=wt)
        t0 = time.time()
        r = subprocess.run([os.path.join(ROOT, "check"), pid, tier], env=env, stdout=subprocess.PIPE, stderr=subprocess.STDOUT, text=True)
        out = r.stdout
        viol = [l for l in out.splitlines() if l.startswith("VIOLATION")]
        res = {"property": pid, "mutant": name, "desc": desc, "tier": tier, "exit": r.returncode, "caught": r.returncode == 1,
               "wall_s": round(time.time() - t0, 1), "first_violation": (viol[0] if viol else None)}
        print(json.dumps(res))
        if r.returncode != 1:
            print(out[-2500:])
        else:
            i = out.find("VIOLATION")
            print(out[i:i+1200])
        with open(os.path.join(ROOT, "mutants_log.jsonl"), "a") as lf:
            lf.write(json.dumps(res) + "\n")
        # replays written for mutants are not findings of the real tree
        for l in viol:
            rp = l.split("replay=")[-1].strip()
            if os.path.exists(rp): os.remove(rp)
        return 0
    finally:
        import hashlib
        shutil.rmtree(os.path.join(ROOT, ".work", "alt-" + hashlib.sha1(wt.encode()).hexdigest()[:10]), ignore_errors=True)
        subprocess.run(["git", "-C", "/repo", "worktree", "remove", "--force", wt])
        shutil.rmtree(wt, ignore_errors=True)

sys.exit(main())
