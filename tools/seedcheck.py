#!/usr/bin/env python3
"""Verify a seeded change produced by a sub-agent and run our checks against it.

  tools/seedcheck.py <seed-id> <property> <agent-worktree> [--checks C09,C12] [--full] [--tier quick]

Steps (all in a fresh scratch worktree of /repo HEAD, removed afterwards):
  1. SEED/patch.diff applies; the tree builds.
  2. the demo test (untracked *_test.go in the agent worktree) FAILS with the patch and PASSES without it.
  3. (--full) the existing suites pass with the patch (root module and cmd/atlas).
  4. each listed check is run with VERIF_REPO=<scratch>; exit 1 = caught.
Writes /verif/seeded/<seed-id>/{patch.diff, demo file, meta.json}.
"""
import json, os, subprocess, sys, shutil, tempfile, time
ROOT = os.path.dirname(os.path.dirname(os.path.abspath(__file__)))
ENV = dict(os.environ, GOFLAGS="-mod=mod", GOPROXY="off", GIT_CONFIG_GLOBAL="/dev/null")

def sh(cmd, cwd, timeout=1800):
    r = subprocess.run(cmd, cwd=cwd, env=ENV, shell=True, stdout=subprocess.PIPE, stderr=subprocess.STDOUT, text=True, errors="replace", timeout=timeout)
    return r.returncode, r.stdout

def main():
    sid, prop, awt = sys.argv[1], sys.argv[2], sys.argv[3].rstrip("/")
    checks = [prop]
    tier = "quick"
    full = "--full" in sys.argv
    for i, a in enumerate(sys.argv):
        if a == "--checks": checks = sys.argv[i+1].split(",")
        if a == "--tier": tier = sys.argv[i+1]
    patch = os.path.join(awt, "SEED", "patch.diff")
    rc, out = sh("git status --porcelain", awt)
    demos = [l[3:] for l in out.splitlines() if l.startswith("?? ") and l.endswith("_test.go")]
    demos += [l[3:].rstrip("/") for l in out.splitlines() if l.startswith("?? ") and l.endswith("/") and not l[3:].startswith("SEED") and not l[3:].startswith(".cache")]
    wt = tempfile.mkdtemp(prefix="sv-%s-" % sid, dir="/tmp"); os.rmdir(wt)
    subprocess.run(["git", "-C", "/repo", "worktree", "add", "--detach", "-q", wt, "HEAD"], check=True)
    meta = {"seed": sid, "property": prop, "demo_files": demos, "ran": []}
    try:
        # copy demo files
        for d in demos:
            src = os.path.join(awt, d)
            dst = os.path.join(wt, d)
            if os.path.isdir(src):
                shutil.copytree(src, dst)
            else:
                os.makedirs(os.path.dirname(dst), exist_ok=True); shutil.copy(src, dst)
        pkgs = sorted(set(os.path.dirname(d) if d.endswith(".go") else d for d in demos))
        def run_demo(label):
            res = {}
            for p in pkgs:
                mod = wt
                rel = "./" + p
                if p.startswith("cmd/atlas"):
                    mod = os.path.join(wt, "cmd/atlas"); rel = "./" + p[len("cmd/atlas/"):]
                rc, out = sh("go test -count=1 %s 2>&1 | tail -15" % rel, mod)
                ok = "\nok " in "\n"+out or out.startswith("ok ")
                res[p] = "pass" if ok and "FAIL" not in out else "FAIL"
                meta["ran"].append("%s: go test %s -> %s" % (label, rel, res[p]))
            return res
        without = run_demo("without patch")
        rc, out = sh("git apply %s" % patch, wt)
        if rc != 0:
            print("PATCH DOES NOT APPLY:\n" + out); meta["error"] = "patch does not apply"; return 1
        rc, out = sh("go build ./... 2>&1 | tail -5", wt)
        with_ = run_demo("with patch")
        meta["demo_without_patch"], meta["demo_with_patch"] = without, with_
        print("demo without patch:", without, " with patch:", with_)
        if full:
            rc1, o1 = sh("go test -vet=off -count=1 ./... 2>&1 | grep -v '^ok\\|no test files' | head -20", wt, 3600)
            # exclude the demo packages' own failing demo from the verdict by moving demos away
            for d in demos:
                p = os.path.join(wt, d)
                if os.path.isdir(p): shutil.rmtree(p)
                elif os.path.exists(p): os.remove(p)
            rc1, o1 = sh("go test -vet=off -count=1 ./... 2>&1 | grep -v '^ok\\|no test files' | head -20", wt, 3600)
            rc2, o2 = sh("go test -vet=off -count=1 ./... 2>&1 | grep -v '^ok\\|no test files' | head -20", os.path.join(wt, "cmd/atlas"), 3600)
            meta["existing_tests_with_patch"] = {"root": o1.strip() or "all ok", "cmd/atlas": o2.strip() or "all ok"}
            print("existing suites with patch:", meta["existing_tests_with_patch"])
        else:
            for d in demos:
                p = os.path.join(wt, d)
                if os.path.isdir(p): shutil.rmtree(p)
                elif os.path.exists(p): os.remove(p)
        meta["checks"] = {}
        for c in checks:
            t0 = time.time()
            r = subprocess.run([os.path.join(ROOT, "check"), c, tier], env=dict(os.environ, VERIF_REPO=wt), stdout=subprocess.PIPE, stderr=subprocess.STDOUT, text=True, errors="replace")
            viol = [l for l in r.stdout.splitlines() if l.startswith("VIOLATION")]
            i = r.stdout.find("VIOLATION")
            meta["checks"][c] = {"tier": tier, "exit": r.returncode, "caught": r.returncode == 1, "wall_s": round(time.time()-t0, 1),
                                 "first": r.stdout[i:i+600] if i >= 0 else r.stdout[-400:]}
            print("check %s %s: exit %d (%s)" % (c, tier, r.returncode, "CAUGHT" if r.returncode == 1 else "not caught"))
            if i >= 0: print(r.stdout[i:i+500])
        out_dir = os.path.join(ROOT, "seeded", sid)
        os.makedirs(out_dir, exist_ok=True)
        shutil.copy(patch, os.path.join(out_dir, "patch.diff"))
        for d in demos:
            src = os.path.join(awt, d)
            if os.path.isfile(src): shutil.copy(src, os.path.join(out_dir, os.path.basename(d) + ".txt"))
        rd = os.path.join(awt, "SEED", "README.md")
        if os.path.exists(rd): shutil.copy(rd, os.path.join(out_dir, "agent_README.md"))
        mp = os.path.join(out_dir, "meta.json")
        old = json.load(open(mp)) if os.path.exists(mp) else {}
        old.update(meta)
        json.dump(old, open(mp, "w"), indent=1)
        return 0
    finally:
        import hashlib
        shutil.rmtree(os.path.join(ROOT, ".work", "alt-" + hashlib.sha1(wt.encode()).hexdigest()[:10]), ignore_errors=True)
        subprocess.run(["git", "-C", "/repo", "worktree", "remove", "--force", wt])
        shutil.rmtree(wt, ignore_errors=True)

sys.exit(main())
