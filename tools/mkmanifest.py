#!/usr/bin/env python3
"""Regenerates /verif/MANIFEST.json from the table below (single source of truth for claims)."""
import json, os, subprocess
ROOT = os.path.dirname(os.path.dirname(os.path.abspath(__file__)))

# id -> (category, technique, level text, level note, design section)
CLAIMED = {
 "C12": ("exploration",
   "exhaustive enumeration + rapid PBT against a prefix-equality oracle (API with recording driver, and real CLI on SQLite)",
   "Every (file of <=5 statements, progress k, single edit, cosmetic variant) is enumerated and run through migrate.Executor with a recording driver and revision store; "
   "for every edit that leaves the applied prefix alone a second partial failure at every later index followed by a third run; random stacked edits with duplicate statements on top; the same space for <=3 statements is run through the real `atlas migrate apply --tx-mode none` on a SQLite file. "
   "Oracle: applied-prefix texts unchanged => exactly the new tail runs (and after a second failure exactly the rest, never a false 'nothing pending'); otherwise HistoryChangedError, zero statements executed, stored revision unchanged, no panic.",
   "Statement texts are simple INSERTs so the scanner is not in question here (C08 covers it). The stored revision is compared on Applied/Total/PartialHashes/Error/ErrorStmt/Hash/Type; ExecutedAt/OperatorVersion are rewritten by design.",
   "4/C12"),
 "C09": ("fault_enumeration",
   "exhaustive fault-schedule enumeration + rapid PBT; invariants over the exec/write trace of a recording driver and revision store",
   "Every directory shape within the tier's bound x ExecuteN(0|1) x every schedule of one or two faulty runs (failing exec call at each index and/or failing revision write at each index, "
   "including the mark-started and deferred writes) is run against the real migrate.Executor, followed by clean runs until ErrNoPendingFiles. Checked after every run: nothing executes after the run's first fault; "
   "executed statements are consecutive in directory order starting at the first statement the stored history does not record; no revision claims a statement that never succeeded; clean runs make the promised progress; "
   "at the end every statement succeeded, repeats only for the statement whose own post-write failed (one per fired write fault), exactly once when only statements fail; all revisions complete without error.",
   "Faults are transient (the retried statement succeeds). The revision store is an in-memory model that drops a failed write entirely (no torn rows); the database side of atomicity is C10/C13.",
   "4/C09"),
 "C11": ("exploration",
   "exhaustive state enumeration + rapid PBT, differential against an executable reference model of the documented semantics; rapid-generated operation histories on the real CLI",
   "Every state (directory of <=4 quick / <=5 thorough versions, any checkpoint subset, any revision subset plus an optional ghost revision, last revision complete / partial / partial-but-resolved, "
   "3 exec orders, every first-run gate incl. every baseline) is built for the real migrate.Executor and Pending, ExecuteN(0..3) and ExecuteTo(every version) are compared with harness/c11/model.go "
   "(pending list, error type, HistoryNonLinearError fields, executed statements). CLI tier: random histories {add file in/out of order, checkpoint, failing statement, fix, apply n with exec-order/allow-dirty/baseline, migrate set} "
   "on a SQLite file; after every step `migrate status` JSON, the journal rows an apply really wrote and the post-`set` status are compared with the same model evaluated on the independently read revision table.",
   "The reference was written from the doc comments after reading the code: it is a declarative restatement that index-arithmetic mutants cannot also satisfy, not an independent specification. "
   "Three states where the docs are silent are excluded and counted (evidence.rejected). `migrate set` only on linear histories.",
   "4/C11"),
 "C08": ("exploration",
   "grammar-based rapid PBT + byte mutations + native coverage-guided fuzzing (go test -fuzz) with a position/losslessness oracle inside the target",
   "Inputs from a SQL token-soup grammar (quotes with both escape styles, E'' strings, three comment styles closed/unclosed, (un)balanced parens, dollar quotes, BEGIN[ ATOMIC]..END nesting, DELIMITER commands, atlas:delimiter header, invalid UTF-8), "
   "byte-level mutations of them, the repository's lexer test files and hostile constants are scanned with the four option sets real callers use. Oracle: no panic; on success every Text is found at src[Pos:], positions increase without overlap, "
   "and every byte between statements (and before the first / after the last) is accepted by the harness' own lexer as whitespace, comment, current delimiter, DELIMITER command or header directive — anything else is silently dropped SQL; collected comments precede their statement. "
   "thorough adds 10 minutes of native fuzzing on all cores with the same oracle.",
   "A clean scan error is always accepted. The gap lexer tracks the current delimiter by replaying DELIMITER commands itself; an unterminated comment in a gap is accepted leniently. "
   "Option sets not used by community drivers (GO command, TRY/CATCH, BeginEndTerminator) are not exercised. Termination is enforced by the test timeout (reported as inconclusive, not a violation).",
   "4/C08"),
 "C06": ("exploration",
   "exhaustive single-edit neighbourhood + rapid PBT against an independent reference model of the sum-file format; rapid operation histories over API writers and the real CLI",
   "Directories are generated (names incl. surprising sort orders and bystanders, contents incl. sum-ignore/checkpoint directives and near misses); atlas.sum written by WriteSumFile is compared byte-for-byte with an independent implementation of the format; "
   "after directory edits (add/remove/rename/swap/flip/insert/delete, 1-3 stacked) and atlas.sum edits (hash/name character, delete/duplicate/swap lines, truncate, remove) migrate.Validate must fail with a checksum error iff the model's protected sequence changed — both directions, on MemDir and LocalDir; "
   "the complete single-edit neighbourhood of fixed small directories is enumerated. Histories of Planner.WritePlan / WriteCheckpoint / MemDir.CopyFiles / `migrate new|hash|diff|import` and tamperings are replayed with the invariant that API Validate, `migrate validate` and `migrate apply` agree with the model after every step; library-only histories (1500 per quick run) add LocalDir.WriteFile over existing files and tamperings that shrink the directory followed by a re-hash, the effect of a tampering being decided by the harness' own sum implementation.",
   "SHA-256 collisions are ignored. Content of `atlas:sum ignore` files and trailing ignored files are outside the protected sequence by the format's own definition (model says must still validate). Whitespace-only edits of atlas.sum are not generated (unspecified).",
   "4/C06"),
 "C01": ("exploration",
   "rapid PBT over (current, desired) schema pairs executed on a real SQLite engine; convergence oracle = empty re-diff plus an Atlas-independent PRAGMA catalog comparison against a reference database; sample through the real CLI",
   "Pairs (A, edit*(A)) and independent pairs from a schema model covering the property's feature list are materialised on in-memory SQLite engines (A by native DDL, atlas-style DDL or Atlas itself; desired = inspection of a reference engine built from B, optionally through MarshalHCL/EvalHCLBytes). "
   "The CLI's diff/apply path (RealmDiff+DiffNormalized, ApplyChanges in a transaction with the CLI's plan options) is replicated in-process. Checked: every planned statement executes; re-inspect+re-diff is empty; "
   "the harness' own catalog (pragma_table_xinfo/index_list/index_xinfo/foreign_key_list + tokenised CREATE text) of the live database equals that of the reference modulo the equivalences Atlas documents. "
   "A sample of pairs goes through `atlas schema apply --auto-approve` + `atlas schema diff` on database files with --to hcl / sql (dev-url) / url.",
   "Tables are empty (data is C05). Type changes inside one Atlas type class, column order, quoting of defaults on columns with affinity, FK/check names are not demanded. Inline UNIQUE column constraints (SQLite's automatic indexes) are generated in their own sub-check (engine-pairs-inline-unique) since the two defects fixed in 6cf502f/da6a2d5. Plan-time refusals are counted as rejected.",
   "4/C01"),
 "C03": ("exploration",
   "rapid PBT closing the loop database -> export -> database on a real SQLite engine (round-trip oracle + independent PRAGMA catalog comparison), sample through the real CLI",
   "Databases are created on in-memory SQLite engines from the harness model by native DDL (inline constraints, double-quoted names), atlas-style DDL or Atlas itself. Checked: two inspections marshal to identical HCL bytes; "
   "EvalHCLBytes(MarshalHCL(inspect)) has an empty CLI-mode diff against the database in both directions; the dump-mode SQL export (replica of cmdlog.sqlInspect: PlanModeDump + DefaultFormatter), scanned with the SQLite statement scanner and executed on an empty engine, "
   "yields a database whose independent catalog equals the original and whose Atlas diffs are empty both ways. The CLI tier repeats the loop with `atlas schema inspect` (HCL and --format '{{ sql . }}') and `atlas schema diff` on database files.",
   "Identifiers outside \\w+ are generated in a separate sub-check because of the known finding C03/nonword-identifier-recovery. Inline UNIQUE column constraints are generated in their own sub-check (engine-inline-unique). Re-marshal byte equality belongs to C15 and is not demanded here.",
   "4/C03"),
 "C05": ("exploration",
   "rapid PBT with generated rows on a real SQLite engine; before/after row comparison keyed by an untouched key column (invariant over the plan's effect on data)",
   "Populated databases (0-6 rows per table, type-appropriate values, NULLs, distinct values under keys) are migrated to 1-4 random elementary edits of their schema through the CLI's diff/apply path, inside a transaction (2/3) or through Driver.ApplyChanges without one with foreign keys enforced (1/3); child rows reference existing parent rows (incl. a dedicated parent-link column with ON DELETE CASCADE / SET NULL / SET DEFAULT). "
   "An independent connection compares before and after: same key set per surviving table; every column present before and after with the same declared type keeps quote(value) in every row, except the documented NULL -> new DEFAULT under a column that became NOT NULL; "
   "tables outside the change set keep their stored CREATE text and rows including rowid. Both the in-place ALTER path and the new_<table> rebuild path are measured classes.",
   "Data-caused engine failures (unique/not-null/check/FK violations, STRICT type mismatches) are counted as rejected (about 13% in quick) and not judged. NULL under a column that becomes the rowid alias is replaced by the engine, and a DEFAULT that a STRICT table can never store is refused by the engine: neither is a loss. Values of columns whose declared type changed are outside the property.",
   "4/C05"),
 "C04": ("exploration",
   "exhaustive enumeration of FK graphs x table-role assignments + rapid PBT on larger graphs; oracle = reference catalogue replaying the planned SQL text under the database's FK rules",
   "Every directed FK graph with self loops over n<=3 (quick) / n<=4 (thorough) tables x every assignment of tables to kept/created/dropped x MySQL and PostgreSQL planners x plan modes x FK naming (per edge: a re-pointed key is drop+add; per table slot: it keeps its name and the differ reports ModifyForeignKey) is diffed (DefaultDiff.SchemaDiff) and planned (DefaultPlan.PlanChanges); "
   "random graphs over 5-8 tables with independent current/desired edge sets and two-column FKs on top. A reference catalogue parses each planned statement (CREATE TABLE .. REFERENCES, ADD CONSTRAINT, DROP FOREIGN KEY/CONSTRAINT, DROP TABLE) and enforces: "
   "the referenced table exists when an FK is declared (self references allowed), a table is dropped only when no other table references it, nothing is created or dropped twice, and the final catalogue (tables + FK edges) equals the desired one; PlanChanges must return without error within a watchdog, and planning the same change set a second time must give the same plan.",
   "No MySQL/PostgreSQL engine is available offline: the reference catalogue stands in for the server's FK rules. Index statements are ignored (an FK's dependency on a unique index of the referenced table is outside this property).",
   "4/C04"),
 "C17": ("exploration",
   "rapid PBT: up-then-down execution on a real SQLite engine (inverse/round-trip oracle with independent catalog comparison) + formatter down-section consistency against Plan.Changes[].ReverseStmts()",
   "SQLite (current, desired) pairs biased to reversible plans are planned; when Plan.Reversible the statements are executed and then the reverse statements of the changes in reverse order; the harness' PRAGMA catalog before must equal after and Atlas' diff original<->result must be empty both ways. "
   "For every plan: Reversible implies every change with a schema Source has a reverse statement. Down-file part: the same plans (indent '', two spaces, tab) are written with golang-migrate, goose, flyway, dbmate and liquibase formatters and the down section / rollback lines, "
   "scanned with the statement scanner, must be exactly the reverse statements in (reverse) change order; the same for MySQL and PostgreSQL plans built from the multi-dialect model, MySQL also through drivers opened (sqlmock answers the version query) as MySQL 8 / 5.7 / MariaDB / TiDB, with CHECK-without-name additions (irreversible) next to catalogue edits. A separate sub-check runs up-then-down on schemas with inline UNIQUE constraints (automatic indexes). Inverse-plan relation (MySQL, PostgreSQL): for a plan reported reversible Atlas must be able to plan desired -> current, every clause of that plan (ALTER TABLE split at top-level commas) must be among the reverse statements, and no reverse statement is an ALTER without a clause or an index without key parts.",
   "Engine execution is SQLite only; MySQL/PostgreSQL reverse statements are compared with the down files and with Atlas' own plan for the way back, but never executed (no server offline). PRAGMA foreign_keys bookkeeping statements carry no reverse by design and are skipped on the way down.",
   "4/C17"),
 "C02": ("exploration",
   "exhaustive single-edit enumeration + rapid PBT over non-interfering edit sets; metamorphic oracle: reported change set == union of expected change descriptors as a multiset; null relations under copy and permutation",
   "For MySQL, PostgreSQL and SQLite differs (DefaultDiff, DiffNormalized as the CLI uses) a base schema model is built twice into independent linked schema graphs; the second build carries a set of catalogue edits "
   "(add/drop table, column, index, PK, FK, check, enum; modify column null/type/default/comment/generated; modify index unique/parts(desc, column, added part, prefix)/attr(type, predicate, include)/comment; modify PK parts; "
   "modify FK column/ref column/ref table/on update/on delete; modify named check; table comment/engine/auto_increment/WITHOUT ROWID/STRICT). Each edit carries its expected descriptor; the flattened result of SchemaDiff / RealmDiff / TableDiff must equal "
   "the expected multiset exactly. Every catalogue edit at every applicable site is enumerated (3 levels x declared/permuted order); every pair of edits of different aspects of the SAME object (expected: one Modify* carrying the union of the change bits) is enumerated too; random sets of 0-8 non-interfering edits with random base reductions, declaration-order permutations, generated-name twins and charset shorthands on top.",
   "Expectations follow the differs' documented normal forms (NO ACTION == RESTRICT == '' in MySQL, SQLite type classes, MayWrap); the catalogue never uses an edit whose before/after are equivalent under them. MySQL character sets: the base carries CHARSET and COLLATE on the schema, every table and some columns the way an inspected database does; table/column charset and collation edits are in the catalogue, and the short ways of writing a column's character set on the desired side (COLLATE only, CHARSET only with the default collation) must give no change (resolved from the tables embedded in the driver, no server). Generated-name twins and unnamed-index additions cover similar-unnamed-index matching. "
   "PostgreSQL generated-expression changes are refused by the differ by design and are not in its catalogue.",
   "4/C02"),
 "C16": ("exploration",
   "enumeration of single catalogue edits x qualifier x plan mode + rapid PBT over edit sets; oracle = per-dialect identifier lexer over every planned and reverse statement (marker-name absence, exact qualifier on every table/type/index reference), rejection of spanning change sets",
   "A schema named with a unique marker (tables, PG enums, typed/partial/include indexes, comments on tables/columns/indexes, FKs, generated columns) is created, dropped or modified (C02 catalogue edits) and planned by the MySQL and PostgreSQL planners "
   "with qualifier {not requested, empty, custom} x plan mode {unset, in-place, deferred, dump}. Every Cmd and ReverseStmts() entry is tokenised (string literals skipped): with a requested qualifier the marker never appears and no statement creates/drops/alters a schema; "
   "every table / enum-type reference (and index reference in DROP/ALTER/COMMENT ON INDEX for PostgreSQL) is preceded by exactly the requested qualifier (none for the empty one; the schema's own name when none was requested). "
   "Change sets containing AddSchema/DropSchema, ModifySchema outside in-place modes, or tables of a second schema must make PlanChanges return an error.",
   "References into other schemas through an enum type or a foreign key are tolerated by design (Builder.RefTable doc comment; pinned test TestPlanChanges 'Empty qualifier') and are not generated. Sequences of serial columns are not in the model.",
   "4/C16"),
 "C15": ("exploration",
   "exhaustive type-grid enumeration (format/parse fixpoint + HCL conversion round trip) + rapid PBT over schemas (round-trip oracle: empty diffs both ways, byte-identical re-marshal)",
   "(a) every TypeSpec of the MySQL, PostgreSQL and SQLite type registries x a parameter grid (absent / zero / typical values per attribute, unsigned, enum/set value lists) is instantiated through the registry, formatted, parsed and formatted again (fixpoint) and sent through TypeRegistry.Convert/Type, the path MarshalHCL/EvalHCL use; the SQL form must come back unchanged. "
   "(b) per-dialect feature-rich schemas plus an `alltypes` table over the formatted grid types (random null/default/comment) and a generated `features` table (composite/DESC/prefix key parts, index parts with DESC/prefix/expressions, index types, predicates, INCLUDE, comments, checks, FK actions, MySQL column and table character sets) are marshalled with MarshalHCL, evaluated with EvalHCLBytes, diffed in both directions (DiffNormalized: must be empty), compared directly on the effective character set / collation of every table and string column (the differ cannot see a value lost together with all its ancestors'), and marshalled again (bytes must be identical). PostgreSQL time types in the inspector's long spelling and a hand-written catalogue of raw SQL types per dialect (not derived from the registered specs) go through the same round trip.",
   "Schema graphs are built with the exported builder API from ParseType'd types (the form an inspector yields), not inspected from servers. MySQL table-level AUTO_INCREMENT start values are excluded (not exported by design). A character set stated on an element although it equals the inherited one is removed before the comparison (Atlas writes it only when it differs from the parent's, by design). PostgreSQL/SQLite primary keys carry no per-part options (not representable in their HCL).",
   "4/C15"),
 "C10": ("fault_enumeration",
   "exhaustive crash-point enumeration on the real CLI binary (process killed at every instrumented point), invariants over journal rows and revision rows read by an independent SQLite client, then re-run",
   "The atlas binary is built with -tags verif; for every configuration (directory shape x tx-mode file/all/none x per-file txmode directives x an optional checkpoint file, before which nothing may ever run) a probe run records the sequence of instrumented points reached (before/after every statement, before/after every revision write, before/after commit) "
   "and the process is then exited (status 137, no deferred code, no rollback) at each point index in turn on a fresh SQLite file; the same command is run again. Checked right after the crash: no revision row claims a statement whose journal row is absent; in file/all modes no file is half applied; "
   "in all mode nothing is visible unless the crash came after the commit. Checked after the re-run: exit 0, every statement's row exists exactly once (none mode: only the statement in flight at the crash may exist twice), all revisions complete.",
   "Crash points are the instrumented ones; a crash inside SQLite's own commit is SQLite's guarantee. The init statement is CREATE TABLE IF NOT EXISTS so that re-executing the in-flight statement in none mode is possible at all. The stale advisory lock file a killed process leaves in TMPDIR is removed before the re-run (lock handling is not part of the property).",
   "4/C10"),
 "C13": ("exploration",
   "enumeration of (directory shape x failing-statement position x tx-mode x directives x count x dry-run) + rapid PBT, on the real CLI; oracle = documented post-state per transaction mode compared with an independent dump of the SQLite file; metamorphic fix-and-rerun == failure-free run",
   "`atlas migrate apply` runs on SQLite files for every listed configuration with a failing statement at every position (or none), failing at once (missing table) or on a foreign-key violation with _fk=1 (immediate without a transaction, found at commit inside one). The database is read by an independent connection (journal rows in insertion order, revision rows version/applied/total/error, schema objects). "
   "Checked: file mode = state after the last completely applied file, all mode = state before the command, none mode = exactly the successful prefix recorded with its error; per-file atlas:txmode directives follow the file's own mode; exit status matches; "
   "a --dry-run on the fresh database and on the database after the run changes nothing; after fixing the file and re-hashing, the re-run ends in the state of a failure-free run. `atlas schema apply` (default mode) on populated tables with plans engineered to succeed first and fail later on the data "
   "must leave the full data dump (schema text, rows, rowids) unchanged, with --auto-approve and with --dry-run.",
   "Timestamps, durations and file hashes of revision rows are masked; an absent revision table equals an empty one except in the strict dry-run comparison. SQLite only (transactional DDL).",
   "4/C13"),
 "C14": ("exploration",
   "enumeration of (command x dev-database kind x directory/schema shape x failing-statement position) + rapid PBT on the real CLI; oracle = before/after equality of an independent full dump of the dev database and of the directory's file hashes",
   "Every command that takes --dev-url (migrate diff, migrate validate, migrate lint, schema apply --to file://*.sql, schema diff between SQL files) is run against SQLite dev databases that are empty, hold tables+rows, hold only a view, hold a table with a trigger, or are in-memory, "
   "with migration directories / SQL schemas (tables only, views and triggers next to tables, views only) whose replay fails at every statement position or not at all. A non-empty dev database must make the command exit non-zero saying it is not clean and must be byte-for-byte unchanged in the independent dump (sqlite_master incl. views/triggers/internal tables, rows, rowids); "
   "an empty one must be handed back with the identical (empty) dump on success and on failure; the migration directory's files (SHA-256) are unchanged except that migrate diff may add one file and rewrite atlas.sum.",
   "SQLite only. The in-memory dev database cannot be inspected afterwards (only the directory invariant is checked for it).",
   "4/C14"),
 "C18": ("exploration",
   "rapid PBT over migration histories authored by the real `migrate diff` and by hand, linted by the real CLI on a real SQLite dev database; oracle = reference model tagging each file destructive/additive (iff, with code, object and position)",
   "Histories of 2-5 files (1-3 evolution steps each, over a small table model) are materialised as migration directories: each file either through `atlas migrate diff` (Atlas' own SQL including its new_<table> rebuild procedure) or as hand-written equivalent SQL "
   "(DROP TABLE, ALTER TABLE DROP COLUMN, manual rebuilds that omit or keep columns, scratch tables/columns created and dropped in the same file, a pre-existing column or table dropped and re-added / re-created under the same name in the same file, VIRTUAL generated columns). `atlas migrate lint --latest N --format json` is run for every window N up to the whole directory (empty base); hand-written files are padded with 2-14 `SELECT 1` statements a third of the time (files longer than ten statements take another loader path). "
   "For each file in the window the multiset of DS1xx diagnostics (code, object) must equal the model's: a table or non-virtual column that existed before the file and is gone after it, and nothing else; each Pos must fall inside a statement of the drop/rebuild of that table; exit status is non-zero iff the window holds a destructive file.",
   "One step per table per file keeps 'existed before the file' unambiguous. Only the destructive analyzer's codes (DS1xx) are judged; other analyzers' diagnostics are ignored. SQLite only.",
   "4/C18"),
 "C19": ("exploration",
   "metamorphic relation for skipped change kinds (enumerated + rapid), differential against a declarative reference of the exclude-pattern semantics (rapid pattern grammar), and end-to-end rapid cases on a real SQLite engine and the real CLI",
   "(a) For the MySQL, PostgreSQL and SQLite differs, SchemaDiff with DiffSkipChanges(K) over the C02 base and catalogue edit sets must equal the unrestricted diff minus every K-typed change at every nesting level, for every single kind against every single edit and for random kind subsets x edit sets, also with a materialized view whose index list differs on both sides (index changes nested in ModifyView; AddView/DropView/ModifyView kinds). "
   "(b) ExcludeRealm on realms of 1-2 schemas is compared in both directions (absent and remaining) with an independent reference of the documented pattern semantics over a pattern grammar (1-3 parts, wildcards, classes, quoted names with dots, [type=...] selectors). "
   "(c) sqlite InspectRealm/InspectSchema with Exclude on real databases against the same reference; `atlas schema apply --exclude <tables>` must leave excluded tables byte-identical while the rest converges; `--env` with diff.skip must never perform a skipped kind of change (observed in the independent catalog).",
   "The cascade from an excluded column to its indexes/FKs is judged only when no selector restricts the kinds (unspecified otherwise). Foreign keys of kept tables that point at excluded tables are not compared. Skippable kinds are the table-level ones of cmdapi.SkipChanges that the generated schemas can produce.",
   "4/C19"),
 "C07": ("exploration",
   "rapid PBT with adversarial string injection; round-trip oracle plan -> formatter -> directory reader -> dialect statement scanner == Plan.Changes[].Cmd; plus the real `atlas migrate import`",
   "Plans of the MySQL, PostgreSQL and SQLite planners (create all, drop all, catalogue edits) over a feature-rich schema with adversarial strings (all three quote kinds, ';', ';\\n', '--', '/*', '*/', '#', '$$', backslashes, newlines, DELIMITER, GO, atlas:delimiter) injected into comments, defaults, check literals, enum values and, as a separate sub-check, identifiers, "
   "are formatted with every formatter (atlas incl. custom delimiters, golang-migrate, goose, flyway, liquibase, dbmate) and indent option, written to disk, read back through the matching directory type and migrate.FileStmts(driver, file) — the path `migrate apply` uses. "
   "The statements read must equal the planned ones in count, order and text. For third-party formats the real `atlas migrate import` is run as well and the imported Atlas directory must validate and hold the same statement sequence.",
   "Injected literals are valid SQL literals of the dialect (MySQL backslashes doubled), as an inspector or HCL evaluation would yield them. No server executes the SQL. Three known findings are excluded by predicate and counted (evidence.excluded_known_findings).",
   "4/C07"),
 "C20": ("exploration",
   "rapid PBT with repetition, multi-process and concurrent execution under the Go race detector (byte-identity oracle) and a permutation metamorphic relation (statement multiset + equal resulting catalogs on a real SQLite engine)",
   "For MySQL/PostgreSQL/SQLite schemas with two independent FK chains, a join table with three parents that sorts before them, enums and all index/check kinds, the plans (create/modify/drop: Cmd and reverse statements), DefaultFormatter files, the MemDir sum file and MarshalHCL bytes are computed 21 times in one process, in 3 fresh child processes, "
   "and concurrently (the case 4x plus 4 unrelated cases in goroutines) in a test binary built with -race; all results must be byte-identical and the race detector silent. MySQL cases write column character sets the short way on the desired side, which is resolved through lazily loaded driver tables: the bytes computed in-process after other cases must equal those of processes without history. The real CLI's `schema inspect` (HCL and SQL), `schema diff` and `migrate hash` are run 5 times each in fresh processes. "
   "Permutation: tables/enum types in another order (all dialects) and the inspected HCL's top-level blocks shuffled and spread over 1-3 files (SQLite; both variants planned and applied on a real engine) must give the same multiset of statements and equal catalogs.",
   "The check owns no scheduler: races that need an interleaving the Go scheduler does not produce in these runs are not excluded. Only top-level declaration order is permuted (column order inside a table is semantic).",
   "4/C20"),
}
# additions of the fifth seeded-change round, appended to the level text
ROUND5 = {
 "C01": "Desired documents are also shaped the way a person writes them (CHECK expressions without the clause's parentheses, expression defaults with them); the schema model adds generated columns with comma types and prefix names, foreign keys without parent columns or with the parent in another letter case, expression index parts without parentheses or with an explicit ASC, and comments that mention constraints (shared by C03, C05, C17, C18, C19, C20).",
 "C03": "The HCL loop runs for the realm document and for the schema-scoped one (InspectSchema -> MarshalHCL -> EvalHCL -> SchemaDiff both ways).",
 "C04": "The same graphs are also spread over two schemas with tables 2k and 2k+1 sharing a name (RealmDiff, schema-qualified statements, catalogue keyed by schema.table).",
 "C06": "Every history step that leaves a tampered directory with a sum file is also read by one of ten other readers (migrate status / lint / diff, schema diff / apply / inspect; relative, ./relative and absolute URLs), which must refuse it with a checksum error.",
 "C07": "Injection sites include the name of the first table (it lands in the comment line that opens the file), directive-like names and words that contain the goose / dbmate pragma keywords.",
 "C08": "Delimiters include multi-byte ones; the scanning time of a run of unterminated BEGIN words must not explode with its length (runs of 12 to 22 BEGIN / BEGIN ATOMIC words against a run of 10, the default scanner and all three driver scanners).",
 "C09": "The statement text carries a per-case number so that the recorded statement checksums vary.",
 "C10": "Configurations with a file added below the last applied version and run with --exec-order non-linear (a crash inside it must be resumed).",
 "C11": "Directories are also written with Windows line endings (file directives must still be read); fixed CLI histories with a half-applied file below the last applied version (stepped over with migrate set, or left by a failing non-linear run and resumed).",
 "C12": "A completed file must carry no error (also when the failing tail was deleted); partial revisions without statement checksums must not crash the run.",
 "C13": "Also: a second failing statement further down the same file, repaired one at a time; directories with Windows line endings; --dry-run --baseline on a non-clean database; after repair and re-run every revision records the file hash atlas.sum holds.",
 "C14": "Dev databases also: a file holding only a table named libsql_<x> (residual finding: not refused; it is handed back untouched).",
 "C15": "Default pools include long fractions, exponents, integers above 64 bits and strings that look like booleans, numbers or hex literals; MySQL checks carry the ENFORCED attribute both ways; realms of two schemas (every subset of the base tables copied, foreign keys pointing back into the first schema) are round-tripped with a direct comparison of foreign-key targets.",
 "C16": "Spans include a second schema that differs by case only; span cases also run through the planners of drivers opened against MySQL 8 / 5.7 / MariaDB / TiDB; bare type names (mood[]) count as references; columns are retyped to enums and enum arrays.",
 "C19": "Pattern grammar includes malformed globs: an error is demanded whenever the glob meets a resource no pattern removes (API, engine and CLI).",
 "C20": "Unrelated work also includes a driver connected to another (mocked MySQL 5.7) server between repetitions; the same multi-file HCL document, with locals of one file building on a local of another, is evaluated 24 times and must give one outcome.",
}

# additions of the sixth round, appended after the fifth
ROUND6 = {
 "C01": "An edit that changes only the storage (STORED <-> VIRTUAL) of a generated column; double-quoted string defaults.",
 "C02": "PostgreSQL index with a written-out default operator class (edits drop-opclass, retype-drop-opclass), a column of a user-defined type changed to another one; MySQL default engine stated on a table without engine attribute, unnamed expression indexes with generated names functional_index, functional_index_2.",
 "C04": "Span cases and re-pointed foreign keys also through the planners of drivers opened against TiDB / MariaDB (TiDB finding recorded); two-schema cases whose second schema is dropped as a whole (finding recorded).",
 "C06": "atlas.sum edits that keep the concatenation of names and hashes (character moved from a hash to its name, two lines joined); Executor.ExecuteTo for every version of a tampered directory (library histories).",
 "C13": "schema apply plans approved at the confirmation prompt (Enter on standard input).",
 "C14": "Dev database holding only a virtual (fts4) table.",
 "C16": "Requested qualifiers spelled like either of the two schemas of a spanning change set.",
 "C18": "Tables named events (in the initial schema), _meta, news.",
 "C19": "Skip policy written at project level next to an env whose own diff block is empty; the library skip option also with check and attribute kinds.",
 "C20": "Three tables of the PostgreSQL base share one enum (dropping everything gives one change several later dependencies).",
}
ROUND7 = {
 "C02": "SQLite table with two foreign keys without constraint names (positional labels), renumbered when the declaration order is permuted; PostgreSQL serial column as inspected (with its sequence name), integer <-> serial retypes; edits of the schema's own attributes (MySQL default character set / collation, PostgreSQL schema comment: ModifySchema); realms of two schemas holding a table of the same name, a foreign key re-pointed from one to the other.",
 "C05": "Desired state also as an HCL document (string defaults arrive unquoted); the expected fill of a NULL under a new NOT NULL column is the model's default, not the migrated table's; enumerated sub-check null-becomes-default (column type x default shape x source of the desired state).",
 "C06": "MemDir.CopyFiles into a directory that already holds a file, and with the files handed over in reverse order.",
 "C08": "Runs of BEGIN ATOMIC words in the growth sub-check (all four option sets), run lengths grown two words at a time.",
 "C11": "The execution order stated by the flag, by the env of a project file, or by the flag against another order in the env (enumerated for an out-of-order file, sampled in the histories); the first-run baseline travels the same three ways.",
 "C12": "CLI tier: the file added below an applied one, first attempt with --exec-order non-linear (its partial revision is not the newest); next run non-linear (same expectations) or linear with a newer pending file (refused, nothing executed).",
 "C14": "The dev database named by the env of a project file (dev = ...) instead of --dev-url, enumerated and sampled.",
 "C15": "MySQL ENUM and SET columns carrying their own character set / collation.",
 "C16": "Inspected serial column in the PostgreSQL base (serial <-> integer retypes plan sequence statements).",
 "C17": "Sub-check fk-graphs-reverse: MySQL / PostgreSQL plans over foreign-key graphs (every graph of up to 3 tables, random ones of 5-8, flavours, two schemas) are replayed on C04's reference catalogue followed by their reverse statements, last change first: each must respect the dependency rules and the initial tables and keys must be back (one finding recorded).",
 "C18": "Every other lint window is selected through the env of a project file (lint.latest, migration.dir, dev); one of them on the command line against another window in the env.",
 "C19": "One to three patterns in the exclude list of the CLI tier (a resource matched by a later pattern only).",
 "C20": "The same HCL files evaluated 24 times under names that share one base name in several directories.",
}
ROUND8 = {
 "C02": "The differs of drivers opened against MySQL 8 / 5.7 / MariaDB / TiDB (null relations and every single edit; servers without CHECK support get the base without checks), PostgreSQL 15 / 10 (the same) and CockroachDB (null relations).",
 "C03": "A quarter of the column references inside generated-column and index expressions are written [name].",
 "C04": "Random graphs also through drivers opened against PostgreSQL 15 and CockroachDB.",
 "C06": "Sub-check diff-in-foreign-layout: migrate diff on golang-migrate / flyway / goose / dbmate / atlas directories, the layout named by the URL, the project file or --dir-format; the directory must validate in its own layout afterwards and a second diff finds nothing.",
 "C07": "Injection site check-raw: expressions whose operators are made of comment / quote characters outside quotes (#>>, #, ->, ^).",
 "C11": "Files holding comments only; every file a successful apply went through must be recorded as applied.",
 "C12": "CLI tier: a trigger (BEGIN ...; END;) at the head of the file and a --dry-run before the real run, which must reach the same verdict and change nothing (one defect repaired).",
 "C13": "Sub-check baseline-then-failure: a first run with --baseline in all mode whose later file fails must leave the database as it was (one finding recorded).",
 "C16": "Plans through drivers opened against CockroachDB / PostgreSQL 15 / 10 (enumerated for every third edit, sampled).",
 "C18": "Mixed-case table Users in the initial schema.",
 "C19": "Current databases also created from hand-written DDL (lower-case constraint keyword, bare / double-quoted names, parent spelled in another case); the names a pattern must remove are those of the database, not of Atlas' own inspection (one defect repaired).",
 "C20": "Sub-check plan-twice-edit-pairs: a dropped indexed column next to every other index / foreign-key change of the table, planned twice from the same change objects.",
}
ROUND9 = {
 "C01": "The modify-default edit also changes only the letter case of a string default.",
 "C04": "MySQL: keys that take their columns with them (a table has column r<j> only while it has a key to table j): exhaustive and sampled.",
 "C05": "Sub-check cli-parent-rebuild-url-schemes: schema apply through the CLI with enforced foreign keys on sqlite:// and libsql+file:// URLs, parent rebuilt, child rows with CASCADE / SET NULL.",
 "C07": "Sub-check serial-over-hostile-column-name (one defect repaired).",
 "C13": "Sub-check new-violation-next-to-an-old-one: a new foreign-key violation in the same or another child table of a parent that already has an orphan row, file and all mode.",
 "C15": "PostgreSQL expression index parts with an operator class and / or a non-default NULLS ordering; column parts with a non-default NULLS ordering.",
 "C18": "The initial file creates a trigger (on a table no step touches): files older than the lint window are replayed with it.",
}

PENDING_REASON = "check not built yet in this session (planned in DESIGN.md section 4; will be claimed once its quick check is green and sensitivity-tested)"

def main():
    props = [json.loads(l) for l in open(os.path.join(ROOT, "properties.jsonl"))]
    hooks_commits = []
    hp = os.path.join(ROOT, "hooks_commits.txt")
    if os.path.exists(hp):
        hooks_commits = [l.split()[0] for l in open(hp) if l.strip()]
    m = {
     "version": 1,
     "setup_cmd": "./check setup",
     "hooks": {
       "guard": "verif",
       "enable": "go build -tags verif ./cmd/atlas (done by ./check; -modfile copies keep /repo untouched)",
       "baseline_off_cmd": "for m in . cmd/atlas internal/integration; do (cd /repo/$m && GOFLAGS=-mod=mod go test -vet=off -count=1 -timeout 25m ./...); done",
       "source_commits": hooks_commits,
       "add_only": True,
     },
     "engines": [
       {"name": "harness", "path": "harness/", "serves_properties": sorted(CLAIMED),
        "kind_free_text": "Go module: rapid v1.3.0 property tests, exhaustive small-scope enumerations, native go fuzz target (C08), real SQLite engine (go-sqlite3) and the real atlas CLI binary as subprocess"},
     ],
     "checks": [],
     "notes": "Driver: ./check <ID> quick|thorough ; ./check <ID> --replay <file>. Exit 0 held / 1 VIOLATION / 2 inconclusive (build error, timeout). Known findings: known_findings.json.",
     "not_applicable": [],
    }
    for p in props:
        pid = p["id"]
        if pid in CLAIMED:
            cat, tech, text, note, ref = CLAIMED[pid]
            if pid in ROUND5:
                text = text + " Added after the fifth seeded-change round: " + ROUND5[pid]
            if pid in ROUND6:
                text = text + " Added after the sixth round: " + ROUND6[pid]
            if pid in ROUND7:
                text = text + " Added after the seventh round: " + ROUND7[pid]
            if pid in ROUND8:
                text = text + " Added after the eighth round: " + ROUND8[pid]
            if pid in ROUND9:
                text = text + " Added after the ninth round: " + ROUND9[pid]
            m["checks"].append({
              "property_id": pid,
              "quick_cmd": "./check %s quick" % pid,
              "thorough_cmd": "./check %s thorough" % pid,
              "evidence_file": "/verif/evidence/%s.json" % pid,
              "replay_cmd_template": "./check %s --replay {path}" % pid,
              "engine": "harness",
              "level_claimed": {"category": cat, "text": text, "design_ref": "DESIGN.md section " + ref},
              "level_note": note,
              "technique": tech,
            })
        else:
            m["not_applicable"].append({"property_id": pid, "reason": PENDING_REASON})
    json.dump(m, open(os.path.join(ROOT, "MANIFEST.json"), "w"), indent=1)
    print("claimed:", len(m["checks"]), "pending:", len(m["not_applicable"]))

main()
